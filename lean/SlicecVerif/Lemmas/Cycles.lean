/-
  Helper lemmas for Props/C05.lean: invariants of the depth-first search of Model/Cycles.lean
  (distinct stack ⇒ fuel suffices; the stack is a path ⇒ every report is a closed path of fields).

  The search with the skip rule (`dfs`, the code since dd206d7) and the one without (`dfsUnpruned`, the specification)
  are both instances of `dfsG` (a search with an arbitrary skip predicate); the invariants are proved once, for `dfsG`.
-/
import SlicecVerif.Model.Cycles
import SlicecVerif.Lemmas.Resolve

namespace Slicec.Cyc

/-! ## wrapper trees -/

theorem mem_targets_iff (t : CTy) (j : Nat) : j ∈ t.targets ↔ t.Contains j := by
  induction t with
  | node k =>
    simp only [CTy.targets, List.mem_singleton]
    constructor
    · intro h; subst h; exact .node _
    · intro h; cases h; rfl
  | terminal =>
    simp only [CTy.targets, List.not_mem_nil, false_iff]
    intro h; cases h
  | opt t ih =>
    simp only [CTy.targets]; rw [ih]
    exact ⟨fun h => .opt h, fun h => by cases h; assumption⟩
  | seq t ih =>
    simp only [CTy.targets]; rw [ih]
    exact ⟨fun h => .seq h, fun h => by cases h; assumption⟩
  | dict k v ihk ihv =>
    simp only [CTy.targets, List.mem_append]; rw [ihk, ihv]
    constructor
    · intro h; cases h with
      | inl h => exact .dictKey h
      | inr h => exact .dictValue h
    · intro h; cases h with
      | dictKey h => exact .inl h
      | dictValue h => exact .inr h
  | result s f ihs ihf =>
    simp only [CTy.targets, List.mem_append]; rw [ihs, ihf]
    constructor
    · intro h; cases h with
      | inl h => exact .resultSuccess h
      | inr h => exact .resultFailure h
    · intro h; cases h with
      | resultSuccess h => exact .inl h
      | resultFailure h => exact .inr h

/-- an edge of the edge function of a graph is exactly a field whose wrapper tree contains the target -/
theorem mem_edges_iff (g : Graph) (c f t : Nat) :
    (f, t) ∈ edges g c ↔
      ∃ nd fld, g[c]? = some nd ∧ nd.fields[f]? = some fld ∧ fld.ty.Contains t ∧ t < g.length := by
  unfold edges
  cases hc : g[c]? with
  | none => simp
  | some nd =>
    simp only [List.mem_filter, fieldEdges, List.mem_flatMap, List.mem_map, decide_eq_true_eq, Option.some.injEq]
    constructor
    · rintro ⟨⟨⟨fld, k⟩, hmem, t', ht', heq⟩, hlt⟩
      simp only [Prod.mk.injEq] at heq
      obtain ⟨rfl, rfl⟩ := heq
      have := (List.mem_zipIdx_iff_getElem? (x := (fld, k))).1 hmem
      exact ⟨nd, fld, rfl, this, (mem_targets_iff _ _).1 ht', hlt⟩
    · rintro ⟨nd', fld, rfl, hf, hcont, hlt⟩
      refine ⟨⟨(fld, f), ?_, t, (mem_targets_iff _ _).2 hcont, rfl⟩, hlt⟩
      exact (List.mem_zipIdx_iff_getElem? (x := (fld, f))).2 hf

theorem edges_lt (g : Graph) (a : Nat) (e : Nat × Nat) (h : e ∈ edges g a) : e.2 < g.length := by
  unfold edges at h
  cases hc : g[a]? with
  | none => simp [hc] at h
  | some nd =>
    simp only [hc, List.mem_filter, decide_eq_true_eq] at h
    exact h.2

/-! ## `report` and `tick` -/

@[simp] theorem report_exhausted (root : Nat) (stack : List Entry) (st : DState) :
    (report root stack st).exhausted = st.exhausted := by
  unfold report; split <;> rfl

@[simp] theorem tick_exhausted (st : DState) : st.tick.exhausted = st.exhausted := rfl
@[simp] theorem tick_reports (st : DState) : st.tick.reports = st.reports := rfl
@[simp] theorem tick_seen (st : DState) : st.tick.seen = st.seen := rfl
@[simp] theorem tick_steps (st : DState) : st.tick.steps = st.steps + 1 := rfl

theorem report_reports (root : Nat) (stack : List Entry) (st : DState) :
    (report root stack st).reports = st.reports ∨ (report root stack st).reports = st.reports ++ [⟨root, stack⟩] := by
  unfold report; split
  · exact .inl rfl
  · exact .inr rfl

/-! ## the search with an arbitrary skip predicate -/

/-- `push_to_stack_and_check` with a skip predicate between the "report" and the "cut" case -/
def dfsG (E : EdgeFn) (root : Nat) (skip : Nat → Bool) : Nat → List Entry → Nat → DState → DState
  | 0, _, _, st => { st with exhausted := true }
  | fuel + 1, stack, cur, st =>
    (E cur).foldl (fun st e =>
      if e.2 == root then report root (stack ++ [⟨e.2, cur, e.1⟩]) st.tick
      else if skip e.2 then st.tick
      else if stack.any (fun x => x.target == e.2) then st.tick
      else dfsG E root skip fuel (stack ++ [⟨e.2, cur, e.1⟩]) e.2 st.tick) st

/-- the detector with a skip predicate per root -/
def detectG (E : EdgeFn) (n : Nat) (skipOf : Nat → Nat → Bool) : DState :=
  (List.range n).foldl (fun st r => dfsG E r (skipOf r) n [] r st) {}

/-- the skip rule of the code: the candidate is not in `types_depending_on_checked_type` -/
def skipDeps (deps : List Nat) : Nat → Bool := fun c => !deps.contains c

theorem dfs_eq_dfsG (E : EdgeFn) (root : Nat) (deps : List Nat) :
    ∀ fuel stack cur st, dfs E root deps fuel stack cur st = dfsG E root (skipDeps deps) fuel stack cur st := by
  intro fuel
  induction fuel with
  | zero => intros; rfl
  | succ fuel ih => intro stack cur st; simp only [dfs, dfsG, ih]; rfl

theorem dfsUnpruned_eq_dfsG (E : EdgeFn) (root : Nat) :
    ∀ fuel stack cur st, dfsUnpruned E root fuel stack cur st = dfsG E root (fun _ => false) fuel stack cur st := by
  intro fuel
  induction fuel with
  | zero => intros; rfl
  | succ fuel ih => intro stack cur st; simp only [dfsUnpruned, dfsG, ih, Bool.false_eq_true, if_false]

theorem detectE_eq_detectG (E : EdgeFn) (n : Nat) :
    detectE E n = detectG E n (fun r => skipDeps (dependsOn E n r)) := by
  unfold detectE detectG
  congr 1
  funext st r
  exact dfs_eq_dfsG ..

theorem detectUnpruned_eq_detectG (E : EdgeFn) (n : Nat) : detectUnpruned E n = detectG E n (fun _ _ => false) := by
  unfold detectUnpruned detectG
  congr 1
  funext st r
  exact dfsUnpruned_eq_dfsG ..

/-- unfolding of one level of the search -/
theorem dfs_succ (E : EdgeFn) (root : Nat) (skip : Nat → Bool) (fuel : Nat) (stack : List Entry) (cur : Nat) (st : DState) :
    dfsG E root skip (fuel + 1) stack cur st =
      (E cur).foldl (fun st e =>
        if e.2 == root then report root (stack ++ [⟨e.2, cur, e.1⟩]) st.tick
        else if skip e.2 then st.tick
        else if stack.any (fun x => x.target == e.2) then st.tick
        else dfsG E root skip fuel (stack ++ [⟨e.2, cur, e.1⟩]) e.2 st.tick) st := rfl

/-- one iteration of the loop over the edges of `cur` (search without the skip rule) -/
def stepFn (E : EdgeFn) (root fuel : Nat) (stack : List Entry) (cur : Nat) : DState → Nat × Nat → DState :=
  fun st e =>
    if e.2 == root then report root (stack ++ [⟨e.2, cur, e.1⟩]) st.tick
    else if stack.any (fun x => x.target == e.2) then st.tick
    else dfsG E root (fun _ => false) fuel (stack ++ [⟨e.2, cur, e.1⟩]) e.2 st.tick

theorem dfs_succ' (E : EdgeFn) (root fuel : Nat) (stack : List Entry) (cur : Nat) (st : DState) :
    dfsG E root (fun _ => false) (fuel + 1) stack cur st = (E cur).foldl (stepFn E root fuel stack cur) st := by
  rw [dfs_succ]; rfl

/-! ## a general induction principle for the search

  `P stack cur` is an invariant of the (stack, current node) pairs the search visits, `Q` an invariant of the state.
  If pushing an edge of `cur` that is neither the root nor on the stack keeps `P`, and the three cases keep `Q`, then the
  whole search keeps `Q`. -/
theorem dfs_induct (E : EdgeFn) (root : Nat) (skip : Nat → Bool)
    (P : Nat → List Entry → Nat → Prop) (Q : DState → Prop)
    (hpush : ∀ fuel stack cur e, P (fuel + 1) stack cur → e ∈ E cur → e.2 ≠ root → skip e.2 = false →
      stack.any (fun x => x.target == e.2) = false → P fuel (stack ++ [⟨e.2, cur, e.1⟩]) e.2)
    (htick : ∀ st, Q st → Q st.tick)
    (hreport : ∀ fuel stack cur e st, P (fuel + 1) stack cur → e ∈ E cur → e.2 = root → Q st →
      Q (report root (stack ++ [⟨e.2, cur, e.1⟩]) st))
    (hfuel : ∀ stack cur st, P 0 stack cur → Q st → Q { st with exhausted := true }) :
    ∀ fuel stack cur st, P fuel stack cur → Q st → Q (dfsG E root skip fuel stack cur st) := by
  intro fuel
  induction fuel with
  | zero => intro stack cur st hP hQ; exact hfuel stack cur st hP hQ
  | succ fuel ih =>
    intro stack cur st hP hQ
    rw [dfs_succ]
    have key : ∀ (es : List (Nat × Nat)), (∀ e ∈ es, e ∈ E cur) → ∀ st, Q st →
        Q (es.foldl (fun st e =>
          if e.2 == root then report root (stack ++ [⟨e.2, cur, e.1⟩]) st.tick
          else if skip e.2 then st.tick
          else if stack.any (fun x => x.target == e.2) then st.tick
          else dfsG E root skip fuel (stack ++ [⟨e.2, cur, e.1⟩]) e.2 st.tick) st) := by
      intro es
      induction es with
      | nil => intro _ st hQ; exact hQ
      | cons e es ihes =>
        intro hsub st hQ
        rw [List.foldl_cons]
        apply ihes (fun x hx => hsub x (List.mem_cons_of_mem _ hx))
        have he : e ∈ E cur := hsub e (List.mem_cons_self ..)
        by_cases h1 : e.2 = root
        · simp only [h1, beq_self_eq_true, if_true]
          have := hreport fuel stack cur e st.tick hP he h1 (htick st hQ)
          rw [h1] at this; exact this
        · have h1' : (e.2 == root) = false := by simpa using h1
          simp only [h1', Bool.false_eq_true, if_false]
          cases h3 : skip e.2 with
          | true => simp only [if_true]; exact htick st hQ
          | false =>
            simp only [Bool.false_eq_true, if_false]
            cases h2 : stack.any (fun x => x.target == e.2) with
            | true => simp only [if_true]; exact htick st hQ
            | false =>
              simp only [Bool.false_eq_true, if_false]
              exact ih _ _ _ (hpush fuel stack cur e hP he h1 h3 h2) (htick st hQ)
    exact key (E cur) (fun _ h => h) st hQ

/-- the same principle for the whole detector -/
theorem detectG_induct (E : EdgeFn) (n : Nat) (skipOf : Nat → Nat → Bool) (Q : DState → Prop)
    (h0 : Q {})
    (hroot : ∀ r st, r < n → Q st → Q (dfsG E r (skipOf r) n [] r st)) :
    Q (detectG E n skipOf) := by
  unfold detectG
  have key : ∀ (rs : List Nat), (∀ r ∈ rs, r < n) → ∀ st, Q st → Q (rs.foldl (fun st r => dfsG E r (skipOf r) n [] r st) st) := by
    intro rs
    induction rs with
    | nil => intro _ st h; exact h
    | cons r rs ih =>
      intro hlt st h
      rw [List.foldl_cons]
      exact ih (fun x hx => hlt x (List.mem_cons_of_mem _ hx)) _ (hroot r st (hlt r (List.mem_cons_self ..)) h)
  exact key (List.range n) (fun r hr => List.mem_range.1 hr) {} h0

/-! ## (a) the stack is duplicate-free ⇒ the fuel suffices -/

/-- ids on the stack are distinct, different from the root, and nodes of the graph -/
def StackInv (n root : Nat) (stack : List Entry) : Prop :=
  (root :: stack.map (·.target)).Nodup ∧ ∀ x ∈ root :: stack.map (·.target), x < n

theorem StackInv.length_lt {n root : Nat} {stack : List Entry} (h : StackInv n root stack) : stack.length < n := by
  have hsub : (root :: stack.map (·.target)) ⊆ List.range n := fun x hx => List.mem_range.2 (h.2 x hx)
  have := List.Nodup.length_le_of_subset h.1 hsub
  simp only [List.length_cons, List.length_map, List.length_range] at this
  omega

theorem StackInv.push {n root : Nat} {stack : List Entry} (h : StackInv n root stack) (e : Entry)
    (hroot : e.target ≠ root) (hnot : stack.any (fun x => x.target == e.target) = false) (hlt : e.target < n) :
    StackInv n root (stack ++ [e]) := by
  obtain ⟨hnd, hall⟩ := h
  have hnotmem : e.target ∉ stack.map (·.target) := by
    intro hm
    obtain ⟨x, hx, hxe⟩ := List.mem_map.1 hm
    have := (List.any_eq_false.1 hnot) x hx
    simp [hxe] at this
  constructor
  · rw [List.map_append, List.map_singleton, ← List.cons_append]
    rw [List.nodup_append]
    refine ⟨hnd, by simp, ?_⟩
    intro a ha b hb
    simp only [List.mem_singleton] at hb
    subst hb
    intro hab
    subst hab
    rcases List.mem_cons.1 ha with h | h
    · exact hroot h
    · exact hnotmem h
  · intro x hx
    rw [List.map_append, List.map_singleton, ← List.cons_append, List.mem_append] at hx
    rcases hx with hx | hx
    · exact hall x hx
    · simp only [List.mem_singleton] at hx; subst hx; exact hlt

/-! ## (b) the stack is a path -/

/-- every entry is a field of the previous entry's target (of `prev` for the first) whose type contains its own target -/
def Linked (E : EdgeFn) : Nat → List Entry → Prop
  | _, [] => True
  | prev, e :: rest => e.container = prev ∧ (e.field, e.target) ∈ E prev ∧ Linked E e.target rest

/-- where a path from `prev` along `stack` ends -/
def lastTarget : Nat → List Entry → Nat
  | prev, [] => prev
  | _, e :: rest => lastTarget e.target rest

theorem linked_append (E : EdgeFn) (prev : Nat) (s : List Entry) (e : Entry) :
    Linked E prev (s ++ [e]) ↔
      Linked E prev s ∧ e.container = lastTarget prev s ∧ (e.field, e.target) ∈ E (lastTarget prev s) := by
  induction s generalizing prev with
  | nil => simp [Linked, lastTarget]
  | cons x xs ih =>
    simp only [List.cons_append, Linked, lastTarget, ih]
    constructor
    · rintro ⟨h1, h2, h3, h4, h5⟩; exact ⟨⟨h1, h2, h3⟩, h4, h5⟩
    · rintro ⟨⟨h1, h2, h3⟩, h4, h5⟩; exact ⟨h1, h2, h3, h4, h5⟩

theorem lastTarget_append (prev : Nat) (s : List Entry) (e : Entry) : lastTarget prev (s ++ [e]) = e.target := by
  induction s generalizing prev with
  | nil => rfl
  | cons x xs ih => simp only [List.cons_append, lastTarget, ih]

/-- a report is a real closed path of fields: non-empty, linked from its root, and back at its root -/
def SoundReport (E : EdgeFn) (r : Report) : Prop :=
  r.stack ≠ [] ∧ Linked E r.root r.stack ∧ lastTarget r.root r.stack = r.root

theorem dfs_reports_sound (E : EdgeFn) (root : Nat) (skip : Nat → Bool) (fuel : Nat) (st : DState)
    (h : ∀ r ∈ st.reports, SoundReport E r) :
    ∀ r ∈ (dfsG E root skip fuel [] root st).reports, SoundReport E r := by
  refine dfs_induct E root skip (fun _ stack cur => Linked E root stack ∧ lastTarget root stack = cur)
    (fun st => ∀ r ∈ st.reports, SoundReport E r) ?_ ?_ ?_ ?_ fuel [] root st ⟨trivial, rfl⟩ h
  · intro _ stack cur e ⟨hl, hlast⟩ he _ _ _
    refine ⟨(linked_append ..).2 ⟨hl, by simp [hlast], by simpa [hlast] using he⟩, lastTarget_append ..⟩
  · intro st h; simpa using h
  · intro _ stack cur e st ⟨hl, hlast⟩ he hroot hQ r hr
    rcases report_reports root (stack ++ [⟨e.2, cur, e.1⟩]) st with h | h
    · rw [h] at hr; exact hQ r hr
    · rw [h, List.mem_append, List.mem_singleton] at hr
      rcases hr with hr | hr
      · exact hQ r hr
      · subst hr
        refine ⟨by simp, (linked_append ..).2 ⟨hl, by simp [hlast], by simpa [hlast] using he⟩, ?_⟩
        simp only [lastTarget_append]; exact hroot
  · intro stack cur st _ hQ; exact hQ

/-! ## a sound report witnesses `root →⁺ root` -/

theorem linked_reach (E : EdgeFn) : ∀ (s : List Entry) (prev : Nat), s ≠ [] → Linked E prev s → EReach E prev (lastTarget prev s)
  | [], _, h, _ => absurd rfl h
  | [e], prev, _, hl => by
    obtain ⟨_, hmem, _⟩ := hl
    exact .single ⟨e.field, hmem⟩
  | e :: e' :: rest, prev, _, hl => by
    obtain ⟨_, hmem, hrest⟩ := hl
    exact .cons ⟨e.field, hmem⟩ (linked_reach E (e' :: rest) e.target (by simp) hrest)

theorem SoundReport.reach {E : EdgeFn} {r : Report} (h : SoundReport E r) : EReach E r.root r.root := by
  have := linked_reach E r.stack r.root h.1 h.2.1
  rw [h.2.2] at this
  exact this

/-! ## interface inheritance: the definition before 323593c -/

theorem allBasesSpec_fold_none (ig : IGraph) (fuel : Nat) (bs : List Nat) :
    bs.foldl (fun acc b => joinBases acc (allBasesSpec ig fuel b)) none = none := by
  induction bs with
  | nil => rfl
  | cons b bs ih => simpa [List.foldl_cons, joinBases] using ih

theorem allBasesSpec_fold_none_of_mem (ig : IGraph) (fuel : Nat) (bs : List Nat) (acc : Option (List Nat))
    (h : ∃ b ∈ bs, allBasesSpec ig fuel b = none) :
    bs.foldl (fun acc b => joinBases acc (allBasesSpec ig fuel b)) acc = none := by
  induction bs generalizing acc with
  | nil => obtain ⟨b, hb, _⟩ := h; cases hb
  | cons x xs ih =>
    rw [List.foldl_cons]
    obtain ⟨b, hb, hnone⟩ := h
    rcases List.mem_cons.1 hb with rfl | hb
    · rw [hnone]
      have : joinBases acc none = none := by cases acc <;> rfl
      rw [this]; exact allBasesSpec_fold_none ig fuel xs
    · exact ih _ ⟨b, hb, hnone⟩

/-! ## (c) D-05b: WITHOUT the skip rule the search enumerates every simple path — exponential on dense DAGs -/

theorem report_steps (root : Nat) (stack : List Entry) (st : DState) : (report root stack st).steps = st.steps := by
  unfold report; split <;> rfl

/-- the search never decreases the step counter -/
theorem dfs_steps_mono (E : EdgeFn) (root : Nat) (skip : Nat → Bool) (fuel : Nat) (stack : List Entry) (cur : Nat)
    (st : DState) (c : Nat) (h : c ≤ st.steps) : c ≤ (dfsG E root skip fuel stack cur st).steps := by
  refine dfs_induct E root skip (fun _ _ _ => True) (fun st => c ≤ st.steps) ?_ ?_ ?_ ?_ fuel stack cur st trivial h
  · intros; trivial
  · intro st h; simp only [tick_steps]; omega
  · intro _ _ _ _ st _ _ _ h; rw [report_steps]; exact h
  · intro _ _ st _ h; exact h

/-- an edge function is *dense on n nodes* when node `k` points to exactly the nodes `k+1 … n-1`, in this order -/
def DenseOn (E : EdgeFn) (n : Nat) : Prop := ∀ k, k < n → (E k).map (·.2) = List.range' (k + 1) (n - (k + 1))

/-- from node `k` of a dense DAG the search makes `2^(n-1-k) - 1` steps: one per path starting at `k` -/
theorem dense_dfs_steps (E : EdgeFn) (n root : Nat) (hE : DenseOn E n) :
    ∀ (fuel : Nat) (stack : List Entry) (k m : Nat) (st : DState),
      k + 1 + m = n → m < fuel → root ≤ k → (∀ x ∈ stack, x.target ≤ k) →
      (dfsG E root (fun _ => false) fuel stack k st).steps + 1 = st.steps + 2 ^ m := by
  intro fuel
  induction fuel with
  | zero => intro _ _ _ _ _ h; omega
  | succ fuel ih =>
    intro stack k m st hkm hfuel hroot hstack
    rw [dfs_succ']
    have key : ∀ (es : List (Nat × Nat)) (a m' : Nat) (st : DState),
        es.map (·.2) = List.range' a m' → k < a → a + m' = n →
        (es.foldl (stepFn E root fuel stack k) st).steps + 1 = st.steps + 2 ^ m' := by
      intro es
      induction es with
      | nil =>
        intro a m' st hmap _ _
        have : m' = 0 := by
          cases m' with
          | zero => rfl
          | succ q => simp [List.range'_succ] at hmap
        subst this; simp
      | cons e es ihes =>
        intro a m' st hmap hka ham
        cases m' with
        | zero => simp at hmap
        | succ q =>
          rw [List.range'_succ, List.map_cons] at hmap
          have he : e.2 = a := (List.cons.inj hmap).1
          have hrest : es.map (·.2) = List.range' (a + 1) q := (List.cons.inj hmap).2
          rw [List.foldl_cons]
          have h1 : (e.2 == root) = false := by
            have : e.2 ≠ root := by omega
            simpa using this
          have h2 : stack.any (fun x => x.target == e.2) = false := by
            rw [List.any_eq_false]
            intro x hx
            have := hstack x hx
            have : x.target ≠ e.2 := by omega
            simpa using this
          have hstep : stepFn E root fuel stack k st e =
              dfsG E root (fun _ => false) fuel (stack ++ [⟨e.2, k, e.1⟩]) e.2 st.tick := by
            simp only [stepFn, h1, h2, Bool.false_eq_true, if_false]
          rw [hstep]
          have hrec := ih (stack ++ [⟨e.2, k, e.1⟩]) e.2 q st.tick (by omega) (by omega) (by omega)
            (by
              intro x hx
              rcases List.mem_append.1 hx with hx | hx
              · have := hstack x hx; omega
              · simp only [List.mem_singleton] at hx; subst hx; exact Nat.le_refl _)
          have hfold := ihes (a + 1) q (dfsG E root (fun _ => false) fuel (stack ++ [⟨e.2, k, e.1⟩]) e.2 st.tick) hrest (by omega) (by omega)
          rw [tick_steps] at hrec
          rw [Nat.pow_succ]
          omega
    have := key (E k) (k + 1) m st (by rw [hE k (by omega)]; congr 1; omega) (by omega) (by omega)
    exact this

/-- D-05b: on the dense DAG over `n ≥ 1` nodes (node `i` has a field of every node `j > i`; acyclic, nothing to report)
    the detector WITHOUT the skip rule makes at least `2^(n-1) - 1` calls of `push_to_stack_and_check`: the search from
    the first node alone walks every path. -/
theorem dense_steps_exponential_E (E : EdgeFn) (n : Nat) (hE : DenseOn E (n + 1)) :
    2 ^ n ≤ (detectUnpruned E (n + 1)).steps + 1 := by
  rw [detectUnpruned_eq_detectG]
  unfold detectG
  rw [List.range_succ_eq_map, List.foldl_cons]
  show 2 ^ n ≤ (((List.range n).map Nat.succ).foldl (fun st r => dfsG E r (fun _ => false) (n + 1) [] r st)
    (dfsG E 0 (fun _ => false) (n + 1) [] 0 {})).steps + 1
  have h0 := dense_dfs_steps E (n + 1) 0 hE (n + 1) [] 0 n {} (by omega) (by omega) (Nat.le_refl _) (by intro x hx; cases hx)
  have hmono : ∀ (rs : List Nat) (st : DState) (c : Nat), c ≤ st.steps →
      c ≤ (rs.foldl (fun st r => dfsG E r (fun _ => false) (n + 1) [] r st) st).steps := by
    intro rs
    induction rs with
    | nil => intro st c h; exact h
    | cons r rs ih => intro st c h; rw [List.foldl_cons]; exact ih _ c (dfs_steps_mono E r _ (n + 1) [] r st c h)
  have := hmono ((List.range n).map Nat.succ) (dfsG E 0 (fun _ => false) (n + 1) [] 0 {}) ((dfsG E 0 (fun _ => false) (n + 1) [] 0 {}).steps) (Nat.le_refl _)
  have hz : ({} : DState).steps = 0 := rfl
  omega

theorem fieldEdges_targets (fs : List CField) : (fieldEdges fs).map (·.2) = fs.flatMap (·.ty.targets) := by
  unfold fieldEdges
  rw [List.map_flatMap]
  have : ∀ (k : Nat) , ((fs.zipIdx k).flatMap fun fk => (fk.1.ty.targets.map fun t => (fk.2, t)).map (·.2)) = fs.flatMap (·.ty.targets) := by
    induction fs with
    | nil => intro k; rfl
    | cons f fs ih =>
      intro k
      simp only [List.zipIdx_cons, List.flatMap_cons]
      rw [ih (k + 1)]
      congr 1
      simp [Function.comp_def]
  exact this 0

theorem dense_denseOn (n : Nat) : DenseOn (edges (dense n)) n := by
  intro k hk
  have hlen : (dense n).length = n := by simp [dense]
  have hget : (dense n)[k]? = some (denseNode n k) := by
    simp [dense, hk]
  unfold edges
  rw [hget]
  simp only [hlen]
  refine Eq.trans (List.filter_map (f := fun x : Nat × Nat => x.2) (p := fun x => decide (x < n))).symm ?_
  rw [fieldEdges_targets]
  simp only [denseNode, List.flatMap_map, CTy.targets]
  rw [List.filter_eq_self.2]
  · simp
  · intro a ha
    simp only [List.mem_flatMap, List.mem_singleton, List.mem_range'_1] at ha
    obtain ⟨b, hb, rfl⟩ := ha
    simp only [decide_eq_true_eq]; omega

/-! ## (d) completeness for simple cycles: the search from `root` walks every simple path back to `root` -/

theorem sameSet_refl (a : List Nat) : sameSet a a = true := by
  simp [sameSet]

theorem report_seen_mono (root : Nat) (stack : List Entry) (st : DState) (K : List Nat) (h : K ∈ st.seen) :
    K ∈ (report root stack st).seen := by
  unfold report; split
  · exact h
  · exact List.mem_cons_of_mem _ h

theorem report_seen_has (root : Nat) (stack : List Entry) (st : DState) :
    ∃ K ∈ (report root stack st).seen, sameSet (stack.map (·.target)) K = true := by
  unfold report; split
  · rename_i h
    obtain ⟨K, hK, hs⟩ := List.any_eq_true.1 h
    exact ⟨K, hK, hs⟩
  · exact ⟨_, List.mem_cons_self .., sameSet_refl _⟩

theorem dfs_seen_mono (E : EdgeFn) (root : Nat) (skip : Nat → Bool) (fuel : Nat) (stack : List Entry) (cur : Nat)
    (st : DState) (K : List Nat) (h : K ∈ st.seen) : K ∈ (dfsG E root skip fuel stack cur st).seen := by
  refine dfs_induct E root skip (fun _ _ _ => True) (fun st => K ∈ st.seen) ?_ ?_ ?_ ?_ fuel stack cur st trivial h
  · intros; trivial
  · intro st h; exact h
  · intro _ _ _ _ st _ _ _ h; exact report_seen_mono _ _ _ _ h
  · intro _ _ st _ h; exact h

theorem stepFn_seen_mono (E : EdgeFn) (root fuel : Nat) (stack : List Entry) (cur : Nat) (st : DState) (e : Nat × Nat)
    (K : List Nat) (h : K ∈ st.seen) : K ∈ (stepFn E root fuel stack cur st e).seen := by
  unfold stepFn
  split
  · exact report_seen_mono _ _ _ _ h
  · split
    · exact h
    · exact dfs_seen_mono _ _ _ _ _ _ _ _ h

theorem fold_seen_mono (E : EdgeFn) (root fuel : Nat) (stack : List Entry) (cur : Nat) (es : List (Nat × Nat)) :
    ∀ (st : DState) (K : List Nat), K ∈ st.seen → K ∈ (es.foldl (stepFn E root fuel stack cur) st).seen := by
  induction es with
  | nil => intro st K h; exact h
  | cons e es ih => intro st K h; rw [List.foldl_cons]; exact ih _ K (stepFn_seen_mono _ _ _ _ _ _ _ K h)

/-- `ws = [w₁, …, w_m]` is a path `cur → w₁ → … → w_m = root` whose inner nodes differ from `root` -/
def PathToRoot (E : EdgeFn) (root : Nat) : Nat → List Nat → Prop
  | _, [] => False
  | cur, [w] => EStep E cur w ∧ w = root
  | cur, w :: w' :: rest => EStep E cur w ∧ w ≠ root ∧ PathToRoot E root w (w' :: rest)

/-- the search walks every simple path from `cur` back to the root that avoids the stack; at its end the vertex set
    of (stack + path) is in `reported_cycles` (put there now, or found there) -/
theorem dfs_explores (E : EdgeFn) (n root : Nat) (hE : ∀ a e, e ∈ E a → e.2 < n) :
    ∀ (ws : List Nat) (fuel : Nat) (stack : List Entry) (cur : Nat) (st : DState),
      StackInv n root stack → n ≤ stack.length + fuel → PathToRoot E root cur ws → ws.Nodup →
      (∀ w ∈ ws, w ∉ stack.map (·.target)) →
      ∃ K ∈ (dfsG E root (fun _ => false) fuel stack cur st).seen, sameSet (stack.map (·.target) ++ ws) K = true := by
  intro ws
  induction ws with
  | nil => intro _ _ _ _ _ _ hp; exact absurd hp (by simp [PathToRoot])
  | cons w rest ih =>
    intro fuel stack cur st hinv hlen hp hnd havoid
    cases fuel with
    | zero => have := hinv.length_lt; omega
    | succ fuel =>
      rw [dfs_succ']
      have hstep : EStep E cur w := by
        cases rest with
        | nil => exact hp.1
        | cons _ _ => exact hp.1
      obtain ⟨f, hf⟩ := hstep
      obtain ⟨pre, post, hsplit⟩ := List.append_of_mem hf
      rw [hsplit, List.foldl_append, List.foldl_cons]
      suffices h : ∃ K ∈ (stepFn E root fuel stack cur (pre.foldl (stepFn E root fuel stack cur) st) (f, w)).seen,
          sameSet (stack.map (·.target) ++ w :: rest) K = true by
        obtain ⟨K, hK, hs⟩ := h
        exact ⟨K, fold_seen_mono _ _ _ _ _ post _ K hK, hs⟩
      generalize pre.foldl (stepFn E root fuel stack cur) st = st1
      cases rest with
      | nil =>
        obtain ⟨_, hroot⟩ := hp
        unfold stepFn
        simp only [hroot, beq_self_eq_true, if_true]
        have := report_seen_has root (stack ++ [⟨root, cur, f⟩]) st1.tick
        simpa using this
      | cons w' rest' =>
        obtain ⟨_, hne, hp'⟩ := hp
        have h1 : (w == root) = false := by simpa using hne
        have hwnot : w ∉ stack.map (·.target) := havoid w (List.mem_cons_self ..)
        have h2 : stack.any (fun x => x.target == w) = false := by
          rw [List.any_eq_false]
          intro x hx hxe
          exact hwnot (List.mem_map.2 ⟨x, hx, by simpa using hxe⟩)
        unfold stepFn
        simp only [h1, h2, Bool.false_eq_true, if_false]
        have hnd' := (List.nodup_cons.1 hnd)
        have := ih fuel (stack ++ [⟨w, cur, f⟩]) w st1.tick
          (hinv.push ⟨w, cur, f⟩ hne h2 (hE cur (f, w) hf))
          (by simp only [List.length_append, List.length_singleton]; omega) hp' hnd'.2
          (by
            intro x hx
            simp only [List.map_append, List.map_singleton, List.mem_append, List.mem_singleton, not_or]
            refine ⟨havoid x (List.mem_cons_of_mem _ hx), ?_⟩
            intro hxw; subst hxw; exact hnd'.1 hx)
        simpa [List.append_assoc] using this

/-- every vertex set in `reported_cycles` belongs to a diagnostic -/
def SeenInv (st : DState) : Prop := ∀ K ∈ st.seen, ∃ r ∈ st.reports, r.ids = K

theorem report_seenInv (root : Nat) (stack : List Entry) (st : DState) (h : SeenInv st) : SeenInv (report root stack st) := by
  unfold report; split
  · exact h
  · intro K hK
    rcases List.mem_cons.1 hK with rfl | hK
    · exact ⟨⟨root, stack⟩, by simp, rfl⟩
    · obtain ⟨r, hr, hrK⟩ := h K hK
      exact ⟨r, List.mem_append_left _ hr, hrK⟩

theorem dfs_seenInv (E : EdgeFn) (root : Nat) (skip : Nat → Bool) (fuel : Nat) (stack : List Entry) (cur : Nat)
    (st : DState) (h : SeenInv st) : SeenInv (dfsG E root skip fuel stack cur st) := by
  refine dfs_induct E root skip (fun _ _ _ => True) SeenInv ?_ ?_ ?_ ?_ fuel stack cur st trivial h
  · intros; trivial
  · intro st h; exact h
  · intro _ _ _ _ st _ _ _ h; exact report_seenInv _ _ _ h
  · intro _ _ st _ h; exact h

theorem detectG_seenInv (E : EdgeFn) (n : Nat) (skipOf : Nat → Nat → Bool) : SeenInv (detectG E n skipOf) :=
  detectG_induct E n skipOf SeenInv (by intro K hK; cases hK) (fun r st _ h => dfs_seenInv E r _ n [] r st h)

theorem roots_seen_mono (E : EdgeFn) (n : Nat) (skipOf : Nat → Nat → Bool) (rs : List Nat) :
    ∀ (st : DState) (K : List Nat), K ∈ st.seen → K ∈ (rs.foldl (fun st r => dfsG E r (skipOf r) n [] r st) st).seen := by
  induction rs with
  | nil => intro st K h; exact h
  | cons r rs ih => intro st K h; rw [List.foldl_cons]; exact ih _ K (dfs_seen_mono _ _ _ _ _ _ _ K h)

theorem sameSet_mem {a b : List Nat} (h : sameSet a b = true) {w : Nat} (hw : w ∈ a) : w ∈ b := by
  simp only [sameSet, Bool.and_eq_true, List.all_eq_true] at h
  simpa using h.1 w hw

/-- completeness for simple cycles (search without the skip rule; carried over to the code's search by
    `detect_reports_eq`): if `T → w₁ → … → w_m = T` is a simple cycle, some diagnostic's chain passes through every one of
    its types -/
theorem detectU_complete_simple (E : EdgeFn) (n : Nat) (hE : ∀ a e, e ∈ E a → e.2 < n) (T : Nat) (hT : T < n)
    (ws : List Nat) (hp : PathToRoot E T T ws) (hnd : ws.Nodup) :
    ∃ r ∈ (detectUnpruned E n).reports, ∀ w ∈ ws, w ∈ r.ids := by
  rw [detectUnpruned_eq_detectG]
  have hmem : T ∈ List.range n := List.mem_range.2 hT
  obtain ⟨pre, post, hsplit⟩ := List.append_of_mem hmem
  have hseen : ∃ K ∈ (detectG E n (fun _ _ => false)).seen, sameSet ws K = true := by
    unfold detectG
    rw [hsplit, List.foldl_append, List.foldl_cons]
    generalize pre.foldl (fun st r => dfsG E r (fun _ => false) n [] r st) {} = st1
    obtain ⟨K, hK, hs⟩ := dfs_explores E n T hE ws n [] T st1 ⟨by simp, by simpa using hT⟩ (by simp) hp hnd (by simp)
    exact ⟨K, roots_seen_mono E n _ post _ K hK, by simpa using hs⟩
  obtain ⟨K, hK, hs⟩ := hseen
  obtain ⟨r, hr, hrK⟩ := detectG_seenInv E n _ K hK
  exact ⟨r, hr, fun w hw => by rw [hrK]; exact sameSet_mem hs hw⟩

/-! ## loop erasure: a closed walk through `a` contains a simple cycle through `a` -/

theorem pathToRoot_suffix (E : EdgeFn) (root w : Nat) (q : List Nat) :
    ∀ (p : List Nat) (c : Nat), PathToRoot E root c (p ++ w :: q) →
      (q = [] → w = root) ∧ (q ≠ [] → PathToRoot E root w q) := by
  intro p
  induction p with
  | nil =>
    intro c h
    cases q with
    | nil => exact ⟨fun _ => h.2, fun hne => absurd rfl hne⟩
    | cons y ys => exact ⟨fun hq => (by cases hq), fun _ => h.2.2⟩
  | cons x p' ih =>
    intro c h
    have : ∃ y ys, p' ++ w :: q = y :: ys := by cases p' <;> simp
    obtain ⟨y, ys, hy⟩ := this
    simp only [List.cons_append, hy, PathToRoot] at h
    rw [← hy] at h
    exact ih x h.2.2

theorem reach_simple (E : EdgeFn) {a c : Nat} (h : EReach E a c) : ∃ ws, PathToRoot E c a ws ∧ ws.Nodup := by
  induction h with
  | single hs => exact ⟨[_], ⟨hs, rfl⟩, by simp⟩
  | @cons a b c hs _ ih =>
    obtain ⟨ws, hp, hnd⟩ := ih
    by_cases hb : b = c
    · exact ⟨[b], ⟨hs, hb⟩, by simp⟩
    · by_cases hmem : b ∈ ws
      · obtain ⟨p, q, rfl⟩ := List.append_of_mem hmem
        have hsuf := pathToRoot_suffix E c b q p b hp
        have hq : q ≠ [] := fun hq => hb (hsuf.1 hq)
        have hpq := hsuf.2 hq
        have hnd' : (b :: q).Nodup := (List.nodup_append.1 hnd).2.1
        cases q with
        | nil => exact absurd rfl hq
        | cons y ys => exact ⟨b :: y :: ys, ⟨hs, hb, hpq⟩, hnd'⟩
      · cases ws with
        | nil => exact absurd hp (by simp [PathToRoot])
        | cons y ys => exact ⟨b :: y :: ys, ⟨hs, hb, hp⟩, List.nodup_cons.2 ⟨hmem, hnd⟩⟩

theorem pathToRoot_root_mem (E : EdgeFn) (n root : Nat) (hE : ∀ a e, e ∈ E a → e.2 < n) :
    ∀ (ws : List Nat) (cur : Nat), PathToRoot E root cur ws → root ∈ ws ∧ root < n := by
  intro ws
  induction ws with
  | nil => intro _ h; exact absurd h (by simp [PathToRoot])
  | cons w rest ih =>
    intro cur h
    cases rest with
    | nil =>
      obtain ⟨⟨f, hf⟩, rfl⟩ := h
      exact ⟨List.mem_cons_self .., hE cur (f, w) hf⟩
    | cons y ys =>
      obtain ⟨hm, hlt⟩ := ih w h.2.2
      exact ⟨List.mem_cons_of_mem _ hm, hlt⟩

/-- completeness: a type that contains itself is passed through by the chain of some diagnostic -/
theorem detectU_complete (E : EdgeFn) (n : Nat) (hE : ∀ a e, e ∈ E a → e.2 < n) (a : Nat) (h : EReach E a a) :
    ∃ r ∈ (detectUnpruned E n).reports, a ∈ r.ids := by
  obtain ⟨ws, hp, hnd⟩ := reach_simple E h
  obtain ⟨hmem, hlt⟩ := pathToRoot_root_mem E n a hE ws a hp
  obtain ⟨r, hr, hall⟩ := detectU_complete_simple E n hE a hlt ws hp hnd
  exact ⟨r, hr, hall a hmem⟩

/-! ## reachability -/

theorem EReach.trans {E : EdgeFn} {a b c : Nat} (h1 : EReach E a b) (h2 : EReach E b c) : EReach E a c := by
  induction h1 with
  | single hs => exact .cons hs h2
  | cons hs _ ih => exact .cons hs (ih h2)

theorem EReach.snoc {E : EdgeFn} {a b c : Nat} (h1 : EReach E a b) (h2 : EStep E b c) : EReach E a c :=
  h1.trans (.single h2)

/-- first step of a path -/
theorem EReach.head {E : EdgeFn} {a c : Nat} (h : EReach E a c) : ∃ b, EStep E a b ∧ (b = c ∨ EReach E b c) := by
  cases h with
  | single hs => exact ⟨c, hs, .inl rfl⟩
  | cons hs hr => exact ⟨_, hs, .inr hr⟩

/-- last step of a path -/
theorem EReach.last {E : EdgeFn} {a c : Nat} (h : EReach E a c) : ∃ b, EStep E b c ∧ (a = b ∨ EReach E a b) := by
  induction h with
  | single hs => exact ⟨_, hs, .inl rfl⟩
  | @cons a b c hs _ ih =>
    obtain ⟨d, hd, h⟩ := ih
    refine ⟨d, hd, .inr ?_⟩
    rcases h with rfl | h
    · exact .single hs
    · exact .cons hs h

/-! ## `types_depending_on_checked_type` is reverse reachability -/

theorem mem_dependents (E : EdgeFn) (n t c : Nat) : c ∈ dependents E n t ↔ c < n ∧ EStep E c t := by
  unfold dependents EStep
  simp only [List.mem_flatMap, List.mem_range, List.mem_map, List.mem_filter, beq_iff_eq]
  constructor
  · rintro ⟨c', hc', e, ⟨he, rfl⟩, rfl⟩
    exact ⟨hc', e.1, he⟩
  · rintro ⟨hc, f, hf⟩
    exact ⟨c, hc, (f, t), ⟨hf, rfl⟩, rfl⟩

/-- what the inner loop `for dependent in dependents[type_id]` does to (pending, set) -/
theorem depVisit_fold (ds : List Nat) :
    ∀ (p s : List Nat), s.Nodup →
      let r := ds.foldl depVisit (p, s)
      r.2.Nodup ∧ (∃ new, r.1 = new ++ p ∧ r.2 = new ++ s ∧ ∀ x ∈ new, x ∈ ds) ∧ (∀ d ∈ ds, d ∈ r.2) := by
  induction ds with
  | nil => intro p s hs; exact ⟨hs, ⟨[], rfl, rfl, by simp⟩, by simp⟩
  | cons d ds ih =>
    intro p s hs
    rw [List.foldl_cons]
    by_cases hd : d ∈ s
    · have : depVisit (p, s) d = (p, s) := by simp [depVisit, hd]
      rw [this]
      obtain ⟨h1, ⟨new, h2, h3, h4⟩, h5⟩ := ih p s hs
      refine ⟨h1, ⟨new, h2, h3, fun x hx => List.mem_cons_of_mem _ (h4 x hx)⟩, ?_⟩
      intro x hx
      rcases List.mem_cons.1 hx with rfl | hx
      · rw [h3]; exact List.mem_append_right _ hd
      · exact h5 x hx
    · have : depVisit (p, s) d = (d :: p, d :: s) := by simp [depVisit, hd]
      rw [this]
      obtain ⟨h1, ⟨new, h2, h3, h4⟩, h5⟩ := ih (d :: p) (d :: s) (List.nodup_cons.2 ⟨hd, hs⟩)
      refine ⟨h1, ⟨new ++ [d], by simp [h2], by simp [h3], ?_⟩, ?_⟩
      · intro x hx
        rcases List.mem_append.1 hx with hx | hx
        · exact List.mem_cons_of_mem _ (h4 x hx)
        · simp only [List.mem_singleton] at hx; subst hx; exact List.mem_cons_self ..
      · intro x hx
        rcases List.mem_cons.1 hx with rfl | hx
        · rw [h3]; exact List.mem_append_right _ (List.mem_cons_self ..)
        · exact h5 x hx

/-- invariant of the worklist loop: the set holds distinct nodes that reach the root; pending nodes are the root or in
    the set; every node of `root :: set` that is no longer pending has all its dependents in the set; the fuel covers the
    remaining pops -/
structure DepInv (E : EdgeFn) (n root fuel : Nat) (pending set : List Nat) : Prop where
  nodup : set.Nodup
  sound : ∀ x ∈ set, x < n ∧ EReach E x root
  pend : ∀ x ∈ pending, x = root ∨ x ∈ set
  closed : ∀ y, y = root ∨ y ∈ set → y ∈ pending ∨ ∀ d ∈ dependents E n y, d ∈ set
  fuel : pending.length + n ≤ fuel + set.length

theorem depLoop_spec (E : EdgeFn) (n root : Nat) :
    ∀ (fuel : Nat) (pending set : List Nat), DepInv E n root fuel pending set →
      (∀ x ∈ depLoop (dependents E n) fuel pending set, x < n ∧ EReach E x root) ∧
      (∀ y, y = root ∨ y ∈ depLoop (dependents E n) fuel pending set →
        ∀ d ∈ dependents E n y, d ∈ depLoop (dependents E n) fuel pending set) := by
  intro fuel
  induction fuel with
  | zero =>
    intro pending set inv
    have hlen : set.length ≤ n := by
      have := List.Nodup.length_le_of_subset inv.nodup (fun x hx => List.mem_range.2 (inv.sound x hx).1)
      simpa using this
    have hp : pending = [] := by
      cases pending with
      | nil => rfl
      | cons _ _ => have := inv.fuel; simp only [List.length_cons] at this; omega
    subst hp
    refine ⟨inv.sound, fun y hy => ?_⟩
    rcases inv.closed y hy with h | h
    · cases h
    · exact h
  | succ fuel ih =>
    intro pending set inv
    cases pending with
    | nil =>
      refine ⟨inv.sound, fun y hy => ?_⟩
      rcases inv.closed y hy with h | h
      · cases h
      · exact h
    | cons t pending =>
      simp only [depLoop]
      obtain ⟨hnd, ⟨new, hp, hs, hnew⟩, hall⟩ := depVisit_fold (dependents E n t) pending set inv.nodup
      apply ih
      rw [hp, hs]
      have ht : t = root ∨ t ∈ set := inv.pend t (List.mem_cons_self ..)
      have hnew' : ∀ x ∈ new, x < n ∧ EReach E x root := by
        intro x hx
        obtain ⟨hlt, hstep⟩ := (mem_dependents E n t x).1 (hnew x hx)
        refine ⟨hlt, ?_⟩
        rcases ht with rfl | ht
        · exact .single hstep
        · exact .cons hstep (inv.sound t ht).2
      constructor
      · rw [← hs]; exact hnd
      · intro x hx
        rcases List.mem_append.1 hx with hx | hx
        · exact hnew' x hx
        · exact inv.sound x hx
      · intro x hx
        rcases List.mem_append.1 hx with hx | hx
        · exact .inr (List.mem_append_left _ hx)
        · rcases inv.pend x (List.mem_cons_of_mem _ hx) with h | h
          · exact .inl h
          · exact .inr (List.mem_append_right _ h)
      · intro y hy
        by_cases hyt : y = t
        · subst hyt
          right; intro d hd; rw [← hs]; exact hall d hd
        · have hy' : y = root ∨ y ∈ set ∨ y ∈ new := by
            rcases hy with h | h
            · exact .inl h
            · rcases List.mem_append.1 h with h | h
              · exact .inr (.inr h)
              · exact .inr (.inl h)
          rcases hy' with h | h | h
          · rcases inv.closed y (.inl h) with h' | h'
            · rcases List.mem_cons.1 h' with h'' | h''
              · exact absurd h'' hyt
              · exact .inl (List.mem_append_right _ h'')
            · exact .inr fun d hd => List.mem_append_right _ (h' d hd)
          · rcases inv.closed y (.inr h) with h' | h'
            · rcases List.mem_cons.1 h' with h'' | h''
              · exact absurd h'' hyt
              · exact .inl (List.mem_append_right _ h'')
            · exact .inr fun d hd => List.mem_append_right _ (h' d hd)
          · exact .inl (List.mem_append_left _ h)
      · have := inv.fuel
        simp only [List.length_cons, List.length_append] at this ⊢
        omega

theorem dependsOn_inv (E : EdgeFn) (n root : Nat) : DepInv E n root (n + 1) [root] [] :=
  { nodup := List.nodup_nil
    sound := by intro x hx; cases hx
    pend := by intro x hx; simp only [List.mem_singleton] at hx; exact .inl hx
    closed := by
      intro y hy
      rcases hy with rfl | hy
      · exact .inl (List.mem_cons_self ..)
      · cases hy
    fuel := by simp; omega }

/-- every member of `types_depending_on_checked_type` is a node from which `root` is reachable in ≥ 1 steps -/
theorem dependsOn_sound (E : EdgeFn) (n root x : Nat) (h : x ∈ dependsOn E n root) : x < n ∧ EReach E x root :=
  (depLoop_spec E n root (n + 1) [root] [] (dependsOn_inv E n root)).1 x h

/-- `types_depending_on_checked_type` for `root` holds exactly the nodes from which `root` is reachable in ≥ 1 steps
    (the worklist never runs out of its `n + 1` pops) -/
theorem mem_dependsOn (E : EdgeFn) (n : Nat) (hE : ∀ a e, e ∈ E a → e.2 < n) (root x : Nat) :
    x ∈ dependsOn E n root ↔ x < n ∧ EReach E x root := by
  have hclosed := (depLoop_spec E n root (n + 1) [root] [] (dependsOn_inv E n root)).2
  constructor
  · exact dependsOn_sound E n root x
  · rintro ⟨hlt, hr⟩
    -- induction on the path from its end: every node on it is in the set
    have key : ∀ a c, EReach E a c → c = root ∨ c ∈ dependsOn E n root → a < n → a ∈ dependsOn E n root := by
      intro a c h
      induction h with
      | single hs => intro hc ha; exact hclosed _ hc _ ((mem_dependents E n _ _).2 ⟨ha, hs⟩)
      | @cons a b c hs hbc ih =>
        intro hc ha
        have hb : b < n := by obtain ⟨f, hf⟩ := hs; exact hE a (f, b) hf
        exact hclosed b (.inr (ih hc hb)) a ((mem_dependents E n _ _).2 ⟨ha, hs⟩)
    exact key x root hr (.inl rfl) hlt

/-! ## the skip rule does not change the reports -/

/-- two detector states that agree on everything a report depends on (`reported_cycles` and the diagnostics) -/
def Sim (a b : DState) : Prop := a.seen = b.seen ∧ a.reports = b.reports

theorem Sim.rfl' (a : DState) : Sim a a := ⟨rfl, rfl⟩
theorem Sim.tick {a b : DState} (h : Sim a b) : Sim a.tick b.tick := h
theorem Sim.tick_left {a b : DState} (h : Sim a b) : Sim a.tick b := h
theorem Sim.trans {a b c : DState} (h1 : Sim a b) (h2 : Sim b c) : Sim a c := ⟨h1.1.trans h2.1, h1.2.trans h2.2⟩
theorem Sim.symm {a b : DState} (h : Sim a b) : Sim b a := ⟨h.1.symm, h.2.symm⟩

theorem Sim.report {a b : DState} (h : Sim a b) (root : Nat) (stack : List Entry) :
    Sim (report root stack a) (report root stack b) := by
  unfold Cyc.report
  rw [h.1]
  split
  · exact h
  · exact ⟨by simp, by simp [h.2]⟩

/-- a search started at a node from which the root cannot be reached reports nothing and records nothing -/
theorem dfs_inert (E : EdgeFn) (root : Nat) (skip : Nat → Bool) (fuel : Nat) (stack : List Entry) (cur : Nat) (st : DState)
    (h : ¬ EReach E cur root) : Sim (dfsG E root skip fuel stack cur st) st := by
  refine dfs_induct E root skip (fun _ _ c => ¬ EReach E c root) (fun st' => Sim st' st) ?_ ?_ ?_ ?_ fuel stack cur st h
    (Sim.rfl' st)
  · intro _ _ c e hc he _ _ _ hr
    exact hc (.cons ⟨e.1, he⟩ hr)
  · intro st' h'; exact h'
  · intro _ _ c e _ hc he hroot _
    exact absurd (EReach.single ⟨e.1, by rw [← hroot]; exact he⟩) hc
  · intro _ _ _ _ h'; exact h'

/-- if only candidates that cannot reach the root are skipped, the search with the skip rule and the one without end in
    states with the same `reported_cycles` and the same diagnostics (same fuel on both sides, any fuel) -/
theorem dfs_sim (E : EdgeFn) (root : Nat) (skip : Nat → Bool)
    (hskip : ∀ a e, e ∈ E a → skip e.2 = true → ¬ EReach E e.2 root) :
    ∀ fuel stack cur st st', Sim st st' →
      Sim (dfsG E root skip fuel stack cur st) (dfsG E root (fun _ => false) fuel stack cur st') := by
  intro fuel
  induction fuel with
  | zero => intro _ _ st st' h; exact h
  | succ fuel ih =>
    intro stack cur st st' h
    rw [dfs_succ, dfs_succ]
    have key : ∀ (es : List (Nat × Nat)), (∀ e ∈ es, e ∈ E cur) → ∀ st st', Sim st st' →
        Sim (es.foldl (fun st e =>
              if e.2 == root then report root (stack ++ [⟨e.2, cur, e.1⟩]) st.tick
              else if skip e.2 then st.tick
              else if stack.any (fun x => x.target == e.2) then st.tick
              else dfsG E root skip fuel (stack ++ [⟨e.2, cur, e.1⟩]) e.2 st.tick) st)
            (es.foldl (fun st e =>
              if e.2 == root then report root (stack ++ [⟨e.2, cur, e.1⟩]) st.tick
              else if (fun _ => false) e.2 then st.tick
              else if stack.any (fun x => x.target == e.2) then st.tick
              else dfsG E root (fun _ => false) fuel (stack ++ [⟨e.2, cur, e.1⟩]) e.2 st.tick) st') := by
      intro es
      induction es with
      | nil => intro _ st st' h; exact h
      | cons e es ihes =>
        intro hsub st st' h
        rw [List.foldl_cons, List.foldl_cons]
        apply ihes (fun x hx => hsub x (List.mem_cons_of_mem _ hx))
        have he : e ∈ E cur := hsub e (List.mem_cons_self ..)
        cases h1 : (e.2 == root) with
        | true => simp only [if_true]; exact h.tick.report _ _
        | false =>
          simp only [Bool.false_eq_true, if_false]
          cases h3 : skip e.2 with
          | true =>
            simp only [if_true]
            have hnr := hskip cur e he h3
            cases h2 : stack.any (fun x => x.target == e.2) with
            | true => simp only [if_true]; exact h.tick
            | false =>
              simp only [Bool.false_eq_true, if_false]
              exact h.tick.trans (dfs_inert E root _ fuel _ e.2 st'.tick hnr).symm
          | false =>
            simp only [Bool.false_eq_true, if_false]
            cases h2 : stack.any (fun x => x.target == e.2) with
            | true => simp only [if_true]; exact h.tick
            | false =>
              simp only [Bool.false_eq_true, if_false]
              exact ih _ _ _ _ h.tick
    exact key (E cur) (fun _ h => h) st st' h

theorem detectG_sim (E : EdgeFn) (n : Nat) (skipOf : Nat → Nat → Bool)
    (hskip : ∀ r a e, e ∈ E a → skipOf r e.2 = true → ¬ EReach E e.2 r) :
    Sim (detectG E n skipOf) (detectG E n (fun _ _ => false)) := by
  unfold detectG
  have key : ∀ (rs : List Nat) (st st' : DState), Sim st st' →
      Sim (rs.foldl (fun st r => dfsG E r (skipOf r) n [] r st) st)
          (rs.foldl (fun st r => dfsG E r ((fun _ _ => false) r) n [] r st) st') := by
    intro rs
    induction rs with
    | nil => intro _ _ h; exact h
    | cons r rs ih =>
      intro st st' h
      rw [List.foldl_cons, List.foldl_cons]
      exact ih _ _ (dfs_sim E r (skipOf r) (hskip r) n [] r st st' h)
  exact key _ _ _ (Sim.rfl' _)

/-- the skip rule of the code only skips candidates that cannot reach the checked type -/
theorem skipDeps_ok (E : EdgeFn) (n : Nat) (hE : ∀ a e, e ∈ E a → e.2 < n) (r a : Nat) (e : Nat × Nat) (he : e ∈ E a)
    (h : skipDeps (dependsOn E n r) e.2 = true) : ¬ EReach E e.2 r := by
  intro hr
  have := (mem_dependsOn E n hE r e.2).2 ⟨hE a e he, hr⟩
  simp [skipDeps, this] at h

/-- `prune_preserves_reports`, with `reported_cycles` -/
theorem detect_sim (E : EdgeFn) (n : Nat) (hE : ∀ a e, e ∈ E a → e.2 < n) : Sim (detectE E n) (detectUnpruned E n) := by
  rw [detectE_eq_detectG, detectUnpruned_eq_detectG]
  exact detectG_sim E n _ (skipDeps_ok E n hE)

theorem detect_reports_eq (E : EdgeFn) (n : Nat) (hE : ∀ a e, e ∈ E a → e.2 < n) :
    (detectE E n).reports = (detectUnpruned E n).reports := (detect_sim E n hE).2

/-! ## cost on acyclic graphs: one step per edge -/

theorem report_steps' (root : Nat) (stack : List Entry) (st : DState) : (report root stack st).steps = st.steps :=
  report_steps root stack st

/-- on an acyclic graph every candidate met from the root is skipped at once: the search from `r` makes exactly one call
    of `push_to_stack_and_check` per (field, leaf) edge of `r` -/
theorem dfs_steps_acyclic (E : EdgeFn) (n : Nat) (hac : AcyclicE E) (r fuel : Nat) (st : DState) :
    (dfs E r (dependsOn E n r) (fuel + 1) [] r st).steps = st.steps + (E r).length := by
  simp only [dfs]
  have key : ∀ (es : List (Nat × Nat)), (∀ e ∈ es, e ∈ E r) → ∀ st : DState,
      (es.foldl (fun st e =>
        if e.2 == r then report r ([] ++ [⟨e.2, r, e.1⟩]) st.tick
        else if !(dependsOn E n r).contains e.2 then st.tick
        else if ([] : List Entry).any (fun x => x.target == e.2) then st.tick
        else dfs E r (dependsOn E n r) fuel ([] ++ [⟨e.2, r, e.1⟩]) e.2 st.tick) st).steps = st.steps + es.length := by
    intro es
    induction es with
    | nil => intro _ st; rfl
    | cons e es ih =>
      intro hsub st
      rw [List.foldl_cons, ih (fun x hx => hsub x (List.mem_cons_of_mem _ hx))]
      have he : e ∈ E r := hsub e (List.mem_cons_self ..)
      have h1 : (e.2 == r) = false := by
        cases h : (e.2 == r) with
        | false => rfl
        | true =>
          have h' : e.2 = r := by simpa using h
          have hstep : EStep E r r := ⟨e.1, by have : e = (e.1, r) := by rw [← h']
                                               rw [← this]; exact he⟩
          exact absurd (EReach.single hstep) (hac r)
      have h2 : (dependsOn E n r).contains e.2 = false := by
        cases h : (dependsOn E n r).contains e.2 with
        | false => rfl
        | true =>
          have hm : e.2 ∈ dependsOn E n r := by simpa using h
          exact absurd (EReach.cons ⟨e.1, he⟩ (dependsOn_sound E n r e.2 hm).2) (hac r)
      simp only [h1, h2, Bool.false_eq_true, if_false, Bool.not_false, if_true, tick_steps, List.length_cons]
      omega
  exact key (E r) (fun _ h => h) st

theorem detectE_steps_acyclic (E : EdgeFn) (n : Nat) (hac : AcyclicE E) :
    (detectE E n).steps = ((List.range n).map fun r => (E r).length).sum := by
  unfold detectE
  have key : ∀ (rs : List Nat) (st : DState), (∀ r ∈ rs, r < n) →
      (rs.foldl (fun st r => dfs E r (dependsOn E n r) n [] r st) st).steps = st.steps + (rs.map fun r => (E r).length).sum := by
    intro rs
    induction rs with
    | nil => intro st _; simp
    | cons r rs ih =>
      intro st hlt
      rw [List.foldl_cons, ih _ (fun x hx => hlt x (List.mem_cons_of_mem _ hx))]
      have hn : n = (n - 1) + 1 := by have := hlt r (List.mem_cons_self ..); omega
      rw [hn, dfs_steps_acyclic E _ hac r (n - 1) st]
      simp only [List.map_cons, List.sum_cons]
      omega
  have := key (List.range n) {} (fun r hr => List.mem_range.1 hr)
  simpa using this

/-! ## interface inheritance: `collect` (323593c) terminates on every graph -/

theorem mem_ibases_lt (ig : IGraph) (i b : Nat) (h : b ∈ ibases ig i) : b < ig.length := by
  unfold ibases at h
  simpa using (List.mem_filter.1 h).2

theorem igEdges_step (ig : IGraph) (a b : Nat) : EStep (igEdges ig) a b ↔ b ∈ ibases ig a := by
  unfold EStep igEdges
  simp

theorem igEdges_lt (ig : IGraph) (a : Nat) (e : Nat × Nat) (h : e ∈ igEdges ig a) : e.2 < ig.length := by
  unfold igEdges at h
  obtain ⟨b, hb, rfl⟩ := List.mem_map.1 h
  exact mem_ibases_lt ig a b hb

@[simp] theorem push_expanded (st : BState) (b : Nat) : (st.push b).expanded = st.expanded := by
  unfold BState.push; split <;> rfl
@[simp] theorem push_exhausted (st : BState) (b : Nat) : (st.push b).exhausted = st.exhausted := by
  unfold BState.push; split <;> rfl

theorem pushFold_expanded (bs : List Nat) : ∀ st : BState, (bs.foldl BState.push st).expanded = st.expanded := by
  induction bs with
  | nil => intro st; rfl
  | cons b bs ih => intro st; rw [List.foldl_cons, ih, push_expanded]

theorem pushFold_exhausted (bs : List Nat) : ∀ st : BState, (bs.foldl BState.push st).exhausted = st.exhausted := by
  induction bs with
  | nil => intro st; rfl
  | cons b bs ih => intro st; rw [List.foldl_cons, ih, push_exhausted]

/-- one iteration of the second loop of `collect` -/
def collectStep (ig : IGraph) (fuel : Nat) : BState → Nat → BState :=
  fun st b => if st.expanded.contains b then st else collect ig fuel b { st with expanded := b :: st.expanded }

theorem collect_succ (ig : IGraph) (fuel i : Nat) (st : BState) :
    collect ig (fuel + 1) i st = (ibases ig i).foldl (collectStep ig fuel) ((ibases ig i).foldl BState.push st) := rfl

/-- `expanded_identifiers` holds distinct interfaces of the graph -/
def ExpInv (n : Nat) (st : BState) : Prop := st.expanded.Nodup ∧ ∀ x ∈ st.expanded, x < n

theorem ExpInv.length_le {n : Nat} {st : BState} (h : ExpInv n st) : st.expanded.length ≤ n := by
  have := List.Nodup.length_le_of_subset h.1 (fun x hx => List.mem_range.2 (h.2 x hx))
  simpa using this

/-- the nesting depth of `collect` is bounded by the number of interfaces not yet expanded: with
    `#expanded + fuel ≥ n + 1` the out-of-fuel branch is never reached -/
theorem collect_total (ig : IGraph) :
    ∀ (fuel i : Nat) (st : BState), ExpInv ig.length st → ig.length + 1 ≤ st.expanded.length + fuel →
      ExpInv ig.length (collect ig fuel i st) ∧ st.expanded.length ≤ (collect ig fuel i st).expanded.length ∧
      (collect ig fuel i st).exhausted = st.exhausted := by
  intro fuel
  induction fuel with
  | zero => intro i st hinv hlen; have := hinv.length_le; omega
  | succ fuel ih =>
    intro i st hinv hlen
    rw [collect_succ]
    have key : ∀ (bs : List Nat), (∀ b ∈ bs, b < ig.length) → ∀ st1 : BState, ExpInv ig.length st1 →
        st.expanded.length ≤ st1.expanded.length →
        ExpInv ig.length (bs.foldl (collectStep ig fuel) st1) ∧
        st.expanded.length ≤ (bs.foldl (collectStep ig fuel) st1).expanded.length ∧
        (bs.foldl (collectStep ig fuel) st1).exhausted = st1.exhausted := by
      intro bs
      induction bs with
      | nil => intro _ st1 h1 h2; exact ⟨h1, h2, rfl⟩
      | cons b bs ihb =>
        intro hlt st1 h1 h2
        rw [List.foldl_cons]
        have hb : b < ig.length := hlt b (List.mem_cons_self ..)
        have hstep : ExpInv ig.length (collectStep ig fuel st1 b) ∧
            st.expanded.length ≤ (collectStep ig fuel st1 b).expanded.length ∧
            (collectStep ig fuel st1 b).exhausted = st1.exhausted := by
          cases hc : st1.expanded.contains b with
          | true =>
            have : collectStep ig fuel st1 b = st1 := by simp only [collectStep, hc, if_true]
            rw [this]; exact ⟨h1, h2, rfl⟩
          | false =>
            have : collectStep ig fuel st1 b = collect ig fuel b { st1 with expanded := b :: st1.expanded } := by
              simp only [collectStep, hc, Bool.false_eq_true, if_false]
            rw [this]
            have hnot : b ∉ st1.expanded := by simpa using hc
            have hinv' : ExpInv ig.length { st1 with expanded := b :: st1.expanded } :=
              ⟨List.nodup_cons.2 ⟨hnot, h1.1⟩, fun x hx => by
                rcases List.mem_cons.1 hx with rfl | hx
                · exact hb
                · exact h1.2 x hx⟩
            obtain ⟨r1, r2, r3⟩ := ih b { st1 with expanded := b :: st1.expanded } hinv'
              (by simp only [List.length_cons]; omega)
            refine ⟨r1, ?_, r3⟩
            simp only [List.length_cons] at r2
            omega
        obtain ⟨s1, s2, s3⟩ := hstep
        obtain ⟨t1, t2, t3⟩ := ihb (fun x hx => hlt x (List.mem_cons_of_mem _ hx)) _ s1 s2
        exact ⟨t1, t2, t3.trans s3⟩
    have := key (ibases ig i) (fun b hb => mem_ibases_lt ig i b hb) ((ibases ig i).foldl BState.push st)
      (by unfold ExpInv; rw [pushFold_expanded]; exact hinv) (by rw [pushFold_expanded]; exact Nat.le_refl _)
    rw [pushFold_exhausted] at this
    exact this

theorem allBases_isSome (ig : IGraph) (i : Nat) : ∃ l, allBases ig (ig.length + 1) i = some l := by
  unfold allBases
  have := (collect_total ig (ig.length + 1) i {} ⟨List.nodup_nil, by intro x hx; cases hx⟩ (by simp)).2.2
  simp only [this]
  exact ⟨_, rfl⟩

/-! ## interface inheritance: `find_path` (0830460) finds a chain back to the interface iff there is one -/

/-- `s = [x₁, …, x_m]` is a chain `prev → x₁ → … → x_m` -/
def NLinked (E : EdgeFn) : Nat → List Nat → Prop
  | _, [] => True
  | prev, x :: rest => EStep E prev x ∧ NLinked E x rest

/-- where the chain ends -/
def nlast : Nat → List Nat → Nat
  | prev, [] => prev
  | _, x :: rest => nlast x rest

theorem nlinked_reach (E : EdgeFn) : ∀ (s : List Nat) (prev : Nat), s ≠ [] → NLinked E prev s → EReach E prev (nlast prev s)
  | [], _, h, _ => absurd rfl h
  | [x], _, _, hl => .single hl.1
  | x :: y :: rest, _, _, hl => .cons hl.1 (nlinked_reach E (y :: rest) x (by simp) hl.2)

/-- one iteration of the loop of `find_path` -/
def findStep (ig : IGraph) (target fuel : Nat) : FState → Nat → FState :=
  fun st b =>
    if st.found then st
    else if b == target then { st with path := st.path ++ [b], found := true }
    else if st.seen.contains b then st
    else
      let st1 := findPath ig target fuel b { st with seen := b :: st.seen, path := st.path ++ [b] }
      if st1.found then st1 else { st1 with path := st1.path.dropLast }

theorem findPath_succ (ig : IGraph) (target fuel cur : Nat) (st : FState) :
    findPath ig target (fuel + 1) cur st = (ibases ig cur).foldl (findStep ig target fuel) st := rfl

theorem findStep_rec (ig : IGraph) (target fuel : Nat) (st : FState) (b : Nat) (h1 : st.found = false)
    (hbt : (b == target) = false) (hc : st.seen.contains b = false) :
    findStep ig target fuel st b =
      if (findPath ig target fuel b { st with seen := b :: st.seen, path := st.path ++ [b] }).found then
        findPath ig target fuel b { st with seen := b :: st.seen, path := st.path ++ [b] }
      else { findPath ig target fuel b { st with seen := b :: st.seen, path := st.path ++ [b] } with
             path := (findPath ig target fuel b { st with seen := b :: st.seen, path := st.path ++ [b] }).path.dropLast } := by
  unfold findStep
  rw [if_neg (by rw [h1]; exact Bool.false_ne_true), if_neg (by rw [hbt]; exact Bool.false_ne_true),
    if_neg (by rw [hc]; exact Bool.false_ne_true)]

/-- once `find_path` has returned `true`, nothing else happens -/
theorem findFold_found (ig : IGraph) (target fuel : Nat) (bs : List Nat) :
    ∀ st : FState, st.found = true → bs.foldl (findStep ig target fuel) st = st := by
  induction bs with
  | nil => intro st _; rfl
  | cons b bs ih =>
    intro st h
    rw [List.foldl_cons]
    have : findStep ig target fuel st b = st := by simp only [findStep, h, if_true]
    rw [this]; exact ih st h

/-- `seen` holds distinct interfaces of the graph -/
def SeenOk (n : Nat) (st : FState) : Prop := st.seen.Nodup ∧ ∀ x ∈ st.seen, x < n

theorem SeenOk.length_le {n : Nat} {st : FState} (h : SeenOk n st) : st.seen.length ≤ n := by
  have := List.Nodup.length_le_of_subset h.1 (fun x hx => List.mem_range.2 (h.2 x hx))
  simpa using this

/-- all bases of `x` differ from the target and are in `S` -/
def IClosed (ig : IGraph) (target x : Nat) (S : List Nat) : Prop := ∀ b ∈ ibases ig x, b ≠ target ∧ b ∈ S

theorem IClosed.mono {ig : IGraph} {target x : Nat} {S S' : List Nat} (h : IClosed ig target x S) (hs : ∀ y ∈ S, y ∈ S') :
    IClosed ig target x S' := fun b hb => ⟨(h b hb).1, hs b (h b hb).2⟩

/-- what a run of the loop of `find_path` over (part of) the bases `bs` of `cur` establishes, relative to the state `st`
    it started in -/
structure FindSpec (ig : IGraph) (target cur : Nat) (bs : List Nat) (st st' : FState) : Prop where
  seenOk : SeenOk ig.length st'
  seenExt : ∃ new, st'.seen = new ++ st.seen
  exh : st'.exhausted = st.exhausted
  notFound : st'.found = false →
    st'.path = st.path ∧ (∀ b ∈ bs, b ≠ target ∧ b ∈ st'.seen) ∧
    (∀ x ∈ st'.seen, x ∈ st.seen ∨ IClosed ig target x st'.seen)
  found : st'.found = true →
    ∃ s, s ≠ [] ∧ st'.path = st.path ++ s ∧ NLinked (igEdges ig) cur s ∧ nlast cur s = target

theorem findPath_spec (ig : IGraph) (target : Nat) :
    ∀ (fuel cur : Nat) (st : FState), st.found = false → SeenOk ig.length st → ig.length + 1 ≤ st.seen.length + fuel →
      FindSpec ig target cur (ibases ig cur) st (findPath ig target fuel cur st) := by
  intro fuel
  induction fuel with
  | zero => intro cur st _ hok hlen; have := hok.length_le; omega
  | succ fuel ih =>
    intro cur st hnf hok hlen
    rw [findPath_succ]
    have key : ∀ (bs : List Nat), (∀ b ∈ bs, b ∈ ibases ig cur) → ∀ st1 : FState, st1.found = false →
        SeenOk ig.length st1 → ig.length ≤ st1.seen.length + fuel →
        FindSpec ig target cur bs st1 (bs.foldl (findStep ig target fuel) st1) := by
      intro bs
      induction bs with
      | nil =>
        intro _ st1 h1 h2 _
        exact ⟨h2, ⟨[], rfl⟩, rfl, fun _ => ⟨rfl, by simp, fun x hx => .inl hx⟩, fun h => by simp [List.foldl_nil, h1] at h⟩
      | cons b bs ihb =>
        intro hsub st1 h1 h2 h3
        rw [List.foldl_cons]
        have hbmem : b ∈ ibases ig cur := hsub b (List.mem_cons_self ..)
        have hsub' : ∀ x ∈ bs, x ∈ ibases ig cur := fun x hx => hsub x (List.mem_cons_of_mem _ hx)
        have hstepE : EStep (igEdges ig) cur b := (igEdges_step ig cur b).2 hbmem
        by_cases hbt : b = target
        · -- `id == target`: the chain is complete
          have hs : findStep ig target fuel st1 b = { st1 with path := st1.path ++ [b], found := true } := by
            simp only [findStep, h1, hbt, beq_self_eq_true, if_true, Bool.false_eq_true, if_false]
          rw [hs, findFold_found _ _ _ _ _ rfl]
          exact ⟨h2, ⟨[], rfl⟩, rfl, fun h => by simp at h, fun _ => ⟨[b], by simp, rfl, ⟨hstepE, trivial⟩, hbt⟩⟩
        · have hbt' : (b == target) = false := by simpa using hbt
          cases hc : st1.seen.contains b with
          | true =>
            -- already entered: nothing happens
            have hs : findStep ig target fuel st1 b = st1 := by
              simp only [findStep, h1, hbt', hc, if_true, Bool.false_eq_true, if_false]
            rw [hs]
            have r := ihb hsub' st1 h1 h2 h3
            refine ⟨r.seenOk, r.seenExt, r.exh, fun hf => ?_, r.found⟩
            obtain ⟨p1, p2, p3⟩ := r.notFound hf
            refine ⟨p1, ?_, p3⟩
            intro x hx
            rcases List.mem_cons.1 hx with rfl | hx
            · obtain ⟨new, hnew⟩ := r.seenExt
              exact ⟨hbt, by rw [hnew]; exact List.mem_append_right _ (by simpa using hc)⟩
            · exact p2 x hx
          | false =>
            have hnot : b ∉ st1.seen := by simpa using hc
            have hb : b < ig.length := mem_ibases_lt ig cur b hbmem
            have hok' : SeenOk ig.length { st1 with seen := b :: st1.seen, path := st1.path ++ [b] } :=
              ⟨List.nodup_cons.2 ⟨hnot, h2.1⟩, fun x hx => by
                rcases List.mem_cons.1 hx with rfl | hx
                · exact hb
                · exact h2.2 x hx⟩
            have r := ih b { st1 with seen := b :: st1.seen, path := st1.path ++ [b] } h1 hok'
              (by simp only [List.length_cons]; omega)
            generalize hr : findPath ig target fuel b { st1 with seen := b :: st1.seen, path := st1.path ++ [b] } = rs at r
            obtain ⟨new, hnew⟩ := r.seenExt
            simp only at hnew
            cases hrf : rs.found with
            | true =>
              -- found below `b`
              have hs : findStep ig target fuel st1 b = rs := by
                rw [findStep_rec ig target fuel st1 b h1 hbt' hc, hr, if_pos hrf]
              rw [hs, findFold_found _ _ _ _ _ hrf]
              refine ⟨r.seenOk, ⟨new ++ [b], by rw [hnew]; simp⟩, r.exh, fun h => by simp [hrf] at h, fun _ => ?_⟩
              obtain ⟨s, _, hs2, hs3, hs4⟩ := r.found hrf
              exact ⟨b :: s, by simp, by rw [hs2]; simp, ⟨hstepE, hs3⟩, hs4⟩
            | false =>
              -- not found below `b`: `path.pop()` and on to the next base
              obtain ⟨q1, q2, q3⟩ := r.notFound hrf
              simp only at q1 q3
              have hs : findStep ig target fuel st1 b = { rs with path := st1.path } := by
                rw [findStep_rec ig target fuel st1 b h1 hbt' hc, hr, if_neg (by rw [hrf]; exact Bool.false_ne_true), q1,
                  List.dropLast_concat]
              rw [hs]
              have hlen2 : ig.length ≤ rs.seen.length + fuel := by
                rw [hnew]; simp only [List.length_append, List.length_cons]; omega
              have r2 := ihb hsub' { rs with path := st1.path } hrf r.seenOk hlen2
              generalize bs.foldl (findStep ig target fuel) { rs with path := st1.path } = fin at r2
              obtain ⟨new2, hnew2⟩ := r2.seenExt
              simp only at hnew2
              have hsubseen : ∀ y ∈ rs.seen, y ∈ fin.seen := fun y hy => by rw [hnew2]; exact List.mem_append_right _ hy
              refine ⟨r2.seenOk, ⟨new2 ++ new ++ [b], by rw [hnew2, hnew]; simp⟩, r2.exh.trans r.exh, fun hf => ?_, fun hf => ?_⟩
              · obtain ⟨p1, p2, p3⟩ := r2.notFound hf
                simp only at p1 p3
                refine ⟨p1, ?_, ?_⟩
                · intro x hx
                  rcases List.mem_cons.1 hx with rfl | hx
                  · exact ⟨hbt, hsubseen _ (by rw [hnew]; exact List.mem_append_right _ (List.mem_cons_self ..))⟩
                  · exact p2 x hx
                · intro x hx
                  rcases p3 x hx with hx' | hx'
                  · rcases q3 x hx' with hx'' | hx''
                    · rcases List.mem_cons.1 hx'' with rfl | hx''
                      · exact .inr (IClosed.mono q2 hsubseen)
                      · exact .inl hx''
                    · exact .inr (hx''.mono hsubseen)
                  · exact .inr hx'
              · exact r2.found hf
    exact key (ibases ig cur) (fun _ h => h) st hnf hok (by omega)

theorem findPathFrom_spec (ig : IGraph) (i : Nat) :
    FindSpec ig i i (ibases ig i) { path := [i] } (findPathFrom ig i) :=
  findPath_spec ig i (ig.length + 1) i { path := [i] } rfl ⟨List.nodup_nil, by intro x hx; cases hx⟩ (by simp)

/-- the reported chain is `i → … → i` along base references -/
theorem checkInterface_sound (ig : IGraph) (i : Nat) (p : List Nat) (h : checkInterface ig i = some p) :
    ∃ s, s ≠ [] ∧ p = i :: s ∧ NLinked (igEdges ig) i s ∧ nlast i s = i := by
  unfold checkInterface at h
  cases hf : (findPathFrom ig i).found with
  | false => simp [hf] at h
  | true =>
    simp only [hf, if_true, Option.some.injEq] at h
    obtain ⟨s, h1, h2, h3, h4⟩ := (findPathFrom_spec ig i).found hf
    exact ⟨s, h1, by rw [← h, h2]; rfl, h3, h4⟩

/-- an interface is reported exactly when it reaches itself through base references -/
theorem checkInterface_isSome_iff (ig : IGraph) (i : Nat) :
    (checkInterface ig i).isSome = true ↔ EReach (igEdges ig) i i := by
  constructor
  · intro h
    cases hp : checkInterface ig i with
    | none => simp [hp] at h
    | some p =>
      obtain ⟨s, h1, _, h3, h4⟩ := checkInterface_sound ig i p hp
      have := nlinked_reach (igEdges ig) s i h1 h3
      rw [h4] at this
      exact this
  · intro hr
    unfold checkInterface
    cases hf : (findPathFrom ig i).found with
    | true => simp [hf]
    | false =>
      exfalso
      obtain ⟨_, hbases, hclosed⟩ := (findPathFrom_spec ig i).notFound hf
      -- everything reachable from `i` was entered and is not `i`
      have key : ∀ a d, EReach (igEdges ig) a d → (a = i ∨ a ∈ (findPathFrom ig i).seen) →
          d ≠ i ∧ d ∈ (findPathFrom ig i).seen := by
        intro a d h
        induction h with
        | @single a d hs =>
          intro ha
          have hd := (igEdges_step ig a d).1 hs
          rcases ha with rfl | ha
          · exact hbases d hd
          · rcases hclosed a ha with h' | h'
            · cases h'
            · exact h' d hd
        | @cons a b d hs _ ih =>
          intro ha
          have hb := (igEdges_step ig a b).1 hs
          have : b ∈ (findPathFrom ig i).seen := by
            rcases ha with rfl | ha
            · exact (hbases b hb).2
            · rcases hclosed a ha with h' | h'
              · cases h'
              · exact (h' b hb).2
          exact ih (.inr this)
      exact (key i i hr (.inl rfl)).1 rfl

theorem findPathFrom_not_exhausted (ig : IGraph) (i : Nat) : (findPathFrom ig i).exhausted = false :=
  (findPathFrom_spec ig i).exh

theorem mem_ifaceLoopErrors (ig : IGraph) (i : Nat) (p : List Nat) :
    (i, p) ∈ ifaceLoopErrors ig ↔ i < ig.length ∧ checkInterface ig i = some p := by
  unfold ifaceLoopErrors
  simp only [List.mem_filterMap, List.mem_range, Option.map_eq_some_iff, Prod.mk.injEq]
  constructor
  · rintro ⟨j, hj, q, hq, rfl, rfl⟩; exact ⟨hj, hq⟩
  · rintro ⟨hi, hp⟩; exact ⟨i, hi, p, hp, rfl, rfl⟩

/-! ## interface inheritance: `collect` (323593c) computes what the old definition computed, wherever that returned -/

/-- `if seen.insert(b) { all.push(b) }` on the pair (all, seen) -/
def pushAS (p : List Nat × List Nat) (b : Nat) : List Nat × List Nat :=
  if p.2.contains b then p else (p.1 ++ [b], b :: p.2)

def BState.as (st : BState) : List Nat × List Nat := (st.all, st.seen)

theorem push_as (st : BState) (b : Nat) : (st.push b).as = pushAS st.as b := by
  unfold BState.push pushAS BState.as
  split <;> rfl

theorem pushFold_as (bs : List Nat) : ∀ st : BState, (bs.foldl BState.push st).as = bs.foldl pushAS st.as := by
  induction bs with
  | nil => intro st; rfl
  | cons b bs ih => intro st; rw [List.foldl_cons, List.foldl_cons, ih, push_as]

theorem pushAS_seen_mono (l : List Nat) : ∀ (p : List Nat × List Nat) (x : Nat), x ∈ p.2 → x ∈ (l.foldl pushAS p).2 := by
  induction l with
  | nil => intro p x h; exact h
  | cons b l ih =>
    intro p x h
    rw [List.foldl_cons]
    apply ih
    unfold pushAS
    split
    · exact h
    · exact List.mem_cons_of_mem _ h

theorem pushAS_seen_all (l : List Nat) : ∀ (p : List Nat × List Nat) (x : Nat), x ∈ l → x ∈ (l.foldl pushAS p).2 := by
  induction l with
  | nil => intro _ x h; cases h
  | cons b l ih =>
    intro p x h
    rw [List.foldl_cons]
    rcases List.mem_cons.1 h with rfl | h
    · apply pushAS_seen_mono
      unfold pushAS
      split
      · rename_i hc; simpa using hc
      · exact List.mem_cons_self ..
    · exact ih _ x h

/-- pushing interfaces that were all seen before changes nothing -/
theorem pushAS_noop (l : List Nat) : ∀ (p : List Nat × List Nat), (∀ x ∈ l, x ∈ p.2) → l.foldl pushAS p = p := by
  induction l with
  | nil => intro p _; rfl
  | cons b l ih =>
    intro p h
    rw [List.foldl_cons]
    have : pushAS p b = p := by
      unfold pushAS
      rw [if_pos (by simpa using h b (List.mem_cons_self ..))]
    rw [this]
    exact ih p (fun x hx => h x (List.mem_cons_of_mem _ hx))

theorem pushAS_filter_seen (l : List Nat) (x : Nat) :
    ∀ (p : List Nat × List Nat), x ∈ p.2 → (l.filter (· != x)).foldl pushAS p = l.foldl pushAS p := by
  induction l with
  | nil => intro p _; rfl
  | cons b l ih =>
    intro p h
    by_cases hb : b = x
    · subst hb
      have h1 : (b :: l).filter (· != b) = l.filter (· != b) := by simp
      have h2 : pushAS p b = p := by unfold pushAS; rw [if_pos (by simpa using h)]
      rw [h1, List.foldl_cons, h2]
      exact ih p h
    · have h1 : (b :: l).filter (· != x) = b :: l.filter (· != x) := by simp [hb]
      rw [h1, List.foldl_cons, List.foldl_cons]
      apply ih
      unfold pushAS
      split
      · exact h
      · exact List.mem_cons_of_mem _ h

/-- `retain` first occurrences before pushing is the same as pushing -/
theorem pushAS_dedupKeep (l : List Nat) : ∀ (p : List Nat × List Nat), (dedupKeep l).foldl pushAS p = l.foldl pushAS p := by
  induction l with
  | nil => intro p; rfl
  | cons b l ih =>
    intro p
    simp only [dedupKeep, List.foldl_cons]
    rw [pushAS_filter_seen, ih]
    unfold pushAS
    split
    · rename_i hc; simpa using hc
    · exact List.mem_cons_self ..

/-- what pushing a list does to `all_bases`: its first occurrences that were not seen before are appended -/
theorem pushAS_all (l : List Nat) : ∀ (a s : List Nat),
    (l.foldl pushAS (a, s)).1 = a ++ (dedupKeep l).filter (fun x => !s.contains x) := by
  induction l with
  | nil => intro a s; simp [dedupKeep]
  | cons b l ih =>
    intro a s
    rw [List.foldl_cons]
    by_cases hb : b ∈ s
    · have h1 : pushAS (a, s) b = (a, s) := by unfold pushAS; rw [if_pos (by simpa using hb)]
      rw [h1, ih]
      congr 1
      simp only [dedupKeep]
      rw [List.filter_cons_of_neg (by simpa using hb), List.filter_filter]
      apply List.filter_congr
      intro y _
      by_cases hy : y = b
      · subst hy; simp [hb]
      · simp [hy]
    · have h1 : pushAS (a, s) b = (a ++ [b], b :: s) := by
        unfold pushAS; rw [if_neg (by simpa using hb)]
      rw [h1, ih]
      simp only [dedupKeep]
      rw [List.filter_cons_of_pos (by simpa using hb), List.filter_filter, List.append_assoc]
      congr 1
      simp only [List.singleton_append, List.cons.injEq, true_and]
      apply List.filter_congr
      intro y _
      by_cases hy : y = b
      · subst hy; simp
      · simp [hy, Bool.and_comm]

theorem mem_dedupKeep (l : List Nat) (x : Nat) : x ∈ dedupKeep l ↔ x ∈ l := by
  induction l with
  | nil => simp [dedupKeep]
  | cons b l ih =>
    simp only [dedupKeep, List.mem_cons, List.mem_filter, ih, bne_iff_ne, ne_eq]
    constructor
    · rintro (h | ⟨h, _⟩)
      · exact .inl h
      · exact .inr h
    · intro h
      by_cases hx : x = b
      · exact .inl hx
      · rcases h with h | h
        · exact absurd h hx
        · exact .inr ⟨h, hx⟩

/-! ### the shape of the old definition's result -/

/-- the `extend` loop of the old definition -/
def specFold (ig : IGraph) (fuel : Nat) (bs : List Nat) (acc : Option (List Nat)) : Option (List Nat) :=
  bs.foldl (fun acc b => joinBases acc (allBasesSpec ig fuel b)) acc

theorem allBasesSpec_succ (ig : IGraph) (fuel i : Nat) :
    allBasesSpec ig (fuel + 1) i = (specFold ig fuel (ibases ig i) (some (ibases ig i))).map dedupKeep := rfl

theorem specFold_cons_some (ig : IGraph) (fuel b : Nat) (bs a X : List Nat)
    (h : specFold ig fuel (b :: bs) (some a) = some X) :
    ∃ lb, allBasesSpec ig fuel b = some lb ∧ specFold ig fuel bs (some (a ++ lb)) = some X := by
  unfold specFold at h ⊢
  rw [List.foldl_cons] at h
  cases hb : allBasesSpec ig fuel b with
  | none =>
    rw [hb] at h
    have : joinBases (some a) none = none := rfl
    rw [this, allBasesSpec_fold_none] at h
    cases h
  | some lb => rw [hb] at h; exact ⟨lb, rfl, h⟩

theorem specFold_mem (ig : IGraph) (fuel : Nat) (bs : List Nat) :
    ∀ (a X : List Nat), specFold ig fuel bs (some a) = some X →
      ∀ d, d ∈ X ↔ d ∈ a ∨ ∃ b ∈ bs, ∃ lb, allBasesSpec ig fuel b = some lb ∧ d ∈ lb := by
  induction bs with
  | nil =>
    intro a X h d
    simp only [specFold, List.foldl_nil, Option.some.injEq] at h
    subst h; simp
  | cons b bs ih =>
    intro a X h d
    obtain ⟨lb, hlb, hrest⟩ := specFold_cons_some ig fuel b bs a X h
    rw [ih _ X hrest d, List.mem_append]
    constructor
    · rintro ((h | h) | ⟨b', hb', lb', h1, h2⟩)
      · exact .inl h
      · exact .inr ⟨b, List.mem_cons_self .., lb, hlb, h⟩
      · exact .inr ⟨b', List.mem_cons_of_mem _ hb', lb', h1, h2⟩
    · rintro (h | ⟨b', hb', lb', h1, h2⟩)
      · exact .inl (.inl h)
      · rcases List.mem_cons.1 hb' with rfl | hb'
        · rw [hlb] at h1; cases h1; exact .inl (.inr h2)
        · exact .inr ⟨b', hb', lb', h1, h2⟩

/-- the old definition returns exactly the interfaces reachable through ≥ 1 base references -/
theorem allBasesSpec_mem (ig : IGraph) :
    ∀ (fuel i : Nat) (l : List Nat), allBasesSpec ig fuel i = some l → ∀ d, d ∈ l ↔ EReach (igEdges ig) i d := by
  intro fuel
  induction fuel with
  | zero => intro i l h; cases h
  | succ fuel ih =>
    intro i l h d
    rw [allBasesSpec_succ] at h
    cases hX : specFold ig fuel (ibases ig i) (some (ibases ig i)) with
    | none => rw [hX] at h; cases h
    | some X =>
      rw [hX] at h
      simp only [Option.map_some, Option.some.injEq] at h
      subst h
      rw [mem_dedupKeep, specFold_mem ig fuel _ _ X hX d]
      constructor
      · rintro (h | ⟨b, hb, lb, h1, h2⟩)
        · exact .single ((igEdges_step ig i d).2 h)
        · exact .cons ((igEdges_step ig i b).2 hb) ((ih b lb h1 d).1 h2)
      · intro hr
        obtain ⟨b, hb, hbd⟩ := hr.head
        have hb' := (igEdges_step ig i b).1 hb
        rcases hbd with rfl | hbd
        · exact .inl hb'
        · -- the fold returned, so the old definition returned for `b`
          have : ∃ lb, allBasesSpec ig fuel b = some lb := by
            cases hsb : allBasesSpec ig fuel b with
            | some lb => exact ⟨lb, rfl⟩
            | none =>
              have := allBasesSpec_fold_none_of_mem ig fuel (ibases ig i) (some (ibases ig i)) ⟨b, hb', hsb⟩
              unfold specFold at hX
              rw [this] at hX; cases hX
          obtain ⟨lb, hlb⟩ := this
          exact .inr ⟨b, hb', lb, hlb, (ih b lb hlb d).2 hbd⟩

/-- the old definition does not return for an interface that inherits from itself (D-05a), whatever the fuel -/
theorem allBasesSpec_none_of_loop (ig : IGraph) :
    ∀ (fuel i : Nat), EReach (igEdges ig) i i → allBasesSpec ig fuel i = none := by
  intro fuel
  induction fuel with
  | zero => intro _ _; rfl
  | succ fuel ih =>
    intro i hr
    obtain ⟨b, hb, hbi⟩ := hr.head
    have hbb : EReach (igEdges ig) b b := by
      rcases hbi with rfl | hbi
      · exact hr
      · exact hbi.snoc hb
    rw [allBasesSpec_succ]
    unfold specFold
    rw [allBasesSpec_fold_none_of_mem ig fuel _ _ ⟨b, (igEdges_step ig i b).1 hb, ih b hbb⟩]
    rfl

/-! ### the refinement -/

/-- every interface below `b` has been seen -/
def IDone (ig : IGraph) (b : Nat) (seen : List Nat) : Prop := ∀ d, EReach (igEdges ig) b d → d ∈ seen

theorem IDone.mono {ig : IGraph} {b : Nat} {S S' : List Nat} (h : IDone ig b S) (hs : ∀ y ∈ S, y ∈ S') : IDone ig b S' :=
  fun d hd => hs d (h d hd)

/-- what a call of `collect` establishes when the old definition returns `l` for the same interface: `all_bases` and
    `seen` are those obtained by pushing `l`; every interface in `expanded` that is not an ancestor still being expanded
    (`Anc`) has all the interfaces below it in `seen` -/
structure CollectSpec (ig : IGraph) (Anc : Nat → Prop) (l : List Nat) (st st' : BState) : Prop where
  as : st'.as = l.foldl pushAS st.as
  inv : ExpInv ig.length st'
  len : st.expanded.length ≤ st'.expanded.length
  exh : st'.exhausted = st.exhausted
  done : ∀ b ∈ st'.expanded, Anc b ∨ IDone ig b st'.seen

theorem collect_spec (ig : IGraph) :
    ∀ (f i : Nat) (l : List Nat), allBasesSpec ig f i = some l →
    ∀ (F : Nat) (st : BState) (Anc : Nat → Prop),
      ExpInv ig.length st → ig.length + 1 ≤ st.expanded.length + F →
      (∀ b ∈ st.expanded, Anc b ∨ IDone ig b st.seen) →
      (∀ d, EReach (igEdges ig) i d → ¬ Anc d) →
      CollectSpec ig Anc l st (collect ig F i st) := by
  intro f
  induction f with
  | zero => intro i l h; cases h
  | succ f ih =>
    intro i l hspec F st Anc hinv hlen hdone hanc
    cases F with
    | zero => have := hinv.length_le; omega
    | succ F =>
      rw [collect_succ]
      rw [allBasesSpec_succ] at hspec
      cases hX : specFold ig f (ibases ig i) (some (ibases ig i)) with
      | none => rw [hX] at hspec; cases hspec
      | some X =>
        rw [hX] at hspec
        simp only [Option.map_some, Option.some.injEq] at hspec
        have key : ∀ (bs : List Nat), (∀ b ∈ bs, b ∈ ibases ig i) → ∀ (a X : List Nat) (st1 : BState),
            specFold ig f bs (some a) = some X → st1.as = a.foldl pushAS st.as → ExpInv ig.length st1 →
            st.expanded.length ≤ st1.expanded.length → st1.exhausted = st.exhausted →
            (∀ b ∈ st1.expanded, Anc b ∨ IDone ig b st1.seen) →
            (bs.foldl (collectStep ig F) st1).as = X.foldl pushAS st.as ∧
            ExpInv ig.length (bs.foldl (collectStep ig F) st1) ∧
            st.expanded.length ≤ (bs.foldl (collectStep ig F) st1).expanded.length ∧
            (bs.foldl (collectStep ig F) st1).exhausted = st.exhausted ∧
            (∀ b ∈ (bs.foldl (collectStep ig F) st1).expanded, Anc b ∨ IDone ig b (bs.foldl (collectStep ig F) st1).seen) := by
          intro bs
          induction bs with
          | nil =>
            intro _ a X st1 hX h1 h2 h3 h4 h5
            simp only [specFold, List.foldl_nil, Option.some.injEq] at hX
            subst hX
            exact ⟨h1, h2, h3, h4, h5⟩
          | cons b bs ihb =>
            intro hsub a X st1 hX h1 h2 h3 h4 h5
            rw [List.foldl_cons]
            obtain ⟨lb, hlb, hrest⟩ := specFold_cons_some ig f b bs a X hX
            have hbmem : b ∈ ibases ig i := hsub b (List.mem_cons_self ..)
            have hsub' : ∀ x ∈ bs, x ∈ ibases ig i := fun x hx => hsub x (List.mem_cons_of_mem _ hx)
            have hib : EStep (igEdges ig) i b := (igEdges_step ig i b).2 hbmem
            cases hc : st1.expanded.contains b with
            | true =>
              -- expanded before (and finished, the graph below `i` being acyclic): everything below `b` is seen
              have hs : collectStep ig F st1 b = st1 := by simp only [collectStep, hc, if_true]
              rw [hs]
              refine ihb hsub' (a ++ lb) X st1 hrest ?_ h2 h3 h4 h5
              rw [List.foldl_append, ← h1, pushAS_noop]
              intro x hx
              have hbx : EReach (igEdges ig) b x := (allBasesSpec_mem ig f b lb hlb x).1 hx
              rcases h5 b (by simpa using hc) with hA | hD
              · exact absurd hA (hanc b (.single hib))
              · exact hD x hbx
            | false =>
              have hnot : b ∉ st1.expanded := by simpa using hc
              have hb : b < ig.length := mem_ibases_lt ig i b hbmem
              have hs : collectStep ig F st1 b = collect ig F b { st1 with expanded := b :: st1.expanded } := by
                simp only [collectStep, hc, Bool.false_eq_true, if_false]
              rw [hs]
              have hinv' : ExpInv ig.length { st1 with expanded := b :: st1.expanded } :=
                ⟨List.nodup_cons.2 ⟨hnot, h2.1⟩, fun x hx => by
                  rcases List.mem_cons.1 hx with rfl | hx
                  · exact hb
                  · exact h2.2 x hx⟩
              have r := ih b lb hlb F { st1 with expanded := b :: st1.expanded } (fun x => Anc x ∨ x = b) hinv'
                (by simp only [List.length_cons]; omega)
                (by
                  intro x hx
                  rcases List.mem_cons.1 hx with rfl | hx
                  · exact .inl (.inr rfl)
                  · rcases h5 x hx with h | h
                    · exact .inl (.inl h)
                    · exact .inr h)
                (by
                  intro d hd hA
                  rcases hA with hA | rfl
                  · exact hanc d (.cons hib hd) hA
                  · have := allBasesSpec_none_of_loop ig f d hd
                    rw [this] at hlb; cases hlb)
              generalize collect ig F b { st1 with expanded := b :: st1.expanded } = st2 at r
              have has : st2.as = (a ++ lb).foldl pushAS st.as := by
                rw [List.foldl_append, ← h1]; exact r.as
              refine ihb hsub' (a ++ lb) X st2 hrest has r.inv ?_ (r.exh.trans h4) ?_
              · have := r.len; simp only [List.length_cons] at this; omega
              · intro x hx
                rcases r.done x hx with (hA | rfl) | hD
                · exact .inl hA
                · right
                  intro d hd
                  have hdl : d ∈ lb := (allBasesSpec_mem ig f x lb hlb d).2 hd
                  have : st2.seen = (lb.foldl pushAS st1.as).2 := congrArg Prod.snd r.as
                  rw [this]
                  exact pushAS_seen_all lb _ d hdl
                · exact .inr hD
        have hseen : ∀ y ∈ st.seen, y ∈ ((ibases ig i).foldl BState.push st).seen := by
          intro y hy
          have : ((ibases ig i).foldl BState.push st).seen = ((ibases ig i).foldl pushAS st.as).2 :=
            congrArg Prod.snd (pushFold_as (ibases ig i) st)
          rw [this]
          exact pushAS_seen_mono _ _ y hy
        obtain ⟨k1, k2, k3, k4, k5⟩ := key (ibases ig i) (fun _ h => h) (ibases ig i) X
          ((ibases ig i).foldl BState.push st) hX (pushFold_as _ st)
          (by unfold ExpInv; rw [pushFold_expanded]; exact hinv) (by rw [pushFold_expanded]; exact Nat.le_refl _)
          (pushFold_exhausted _ st)
          (by
            rw [pushFold_expanded]
            intro b hb
            rcases hdone b hb with h | h
            · exact .inl h
            · exact .inr (h.mono hseen))
        refine ⟨?_, k2, k3, k4, k5⟩
        rw [k1, ← hspec, pushAS_dedupKeep]

theorem filter_const_true (l : List Nat) : l.filter (fun _ => true) = l := List.filter_eq_self.2 (fun _ _ => rfl)

theorem pushAS_all_nil (l : List Nat) : (l.foldl pushAS ([], [])).1 = dedupKeep l := by
  rw [pushAS_all]
  simp only [List.nil_append, List.contains_nil, Bool.not_false]
  exact filter_const_true _

theorem dedupKeep_idem (xs : List Nat) : dedupKeep (dedupKeep xs) = dedupKeep xs := by
  rw [← pushAS_all_nil (dedupKeep xs), pushAS_dedupKeep, pushAS_all_nil]

/-- `allBases_eq_spec`: wherever the old definition returns, the new one returns the same list -/
theorem allBases_eq_of_spec (ig : IGraph) (f i : Nat) (l : List Nat) (h : allBasesSpec ig f i = some l) :
    allBases ig (ig.length + 1) i = some l := by
  have r := collect_spec ig f i l h (ig.length + 1) {} (fun _ => False) ⟨List.nodup_nil, by intro x hx; cases hx⟩
    (by simp) (by intro b hb; cases hb) (by intro _ _ h; exact h)
  unfold allBases
  simp only [r.exh]
  have h1 : (collect ig (ig.length + 1) i {}).all = (l.foldl pushAS ([], [])).1 := congrArg Prod.fst r.as
  simp only [Bool.false_eq_true, if_false, Option.some.injEq]
  rw [h1, pushAS_all_nil]
  -- `l` is free of repetitions already (it is a `dedupKeep` image): `dedupKeep l = l`
  cases f with
  | zero => cases h
  | succ f =>
    rw [allBasesSpec_succ] at h
    cases hX : specFold ig f (ibases ig i) (some (ibases ig i)) with
    | none => rw [hX] at h; cases h
    | some X =>
      rw [hX] at h
      simp only [Option.map_some, Option.some.injEq] at h
      rw [← h]
      exact dedupKeep_idem X

/-! ### on acyclic inheritance graphs the old definition returns (within `n + 1` frames) -/

theorem specFold_some (ig : IGraph) (fuel : Nat) (bs : List Nat) :
    ∀ (a : List Nat), (∀ b ∈ bs, ∃ lb, allBasesSpec ig fuel b = some lb) → ∃ X, specFold ig fuel bs (some a) = some X := by
  induction bs with
  | nil => intro a _; exact ⟨a, rfl⟩
  | cons b bs ih =>
    intro a h
    obtain ⟨lb, hlb⟩ := h b (List.mem_cons_self ..)
    obtain ⟨X, hX⟩ := ih (a ++ lb) (fun x hx => h x (List.mem_cons_of_mem _ hx))
    refine ⟨X, ?_⟩
    unfold specFold at hX ⊢
    rw [List.foldl_cons, hlb]
    exact hX

theorem ibases_of_ge (ig : IGraph) (i : Nat) (h : ig.length ≤ i) : ibases ig i = [] := by
  unfold ibases
  rw [List.getD_eq_getElem?_getD, List.getElem?_eq_none h]
  rfl

/-- the nested calls of the old definition follow a path of base references; on an acyclic graph such a path has no
    repetition, so it is shorter than `n + 1` -/
theorem allBasesSpec_some_of_acyclic (ig : IGraph) (hac : AcyclicE (igEdges ig)) :
    ∀ (f cur : Nat) (anc : List Nat), anc.Nodup → (∀ x ∈ anc, x < ig.length) → cur ∈ anc →
      (∀ x ∈ anc, x = cur ∨ EReach (igEdges ig) x cur) → ig.length + 1 ≤ anc.length + f →
      ∃ l, allBasesSpec ig f cur = some l := by
  intro f
  induction f with
  | zero =>
    intro cur anc hnd hlt _ _ hlen
    have := List.Nodup.length_le_of_subset hnd (fun x hx => List.mem_range.2 (hlt x hx))
    simp only [List.length_range] at this
    omega
  | succ f ih =>
    intro cur anc hnd hlt hcur hreach hlen
    rw [allBasesSpec_succ]
    have hall : ∀ b ∈ ibases ig cur, ∃ lb, allBasesSpec ig f b = some lb := by
      intro b hb
      have hstep : EStep (igEdges ig) cur b := (igEdges_step ig cur b).2 hb
      have hnot : b ∉ anc := by
        intro hm
        rcases hreach b hm with rfl | h
        · exact hac b (.single hstep)
        · exact hac b (h.snoc hstep)
      refine ih b (b :: anc) (List.nodup_cons.2 ⟨hnot, hnd⟩) ?_ (List.mem_cons_self ..) ?_
        (by simp only [List.length_cons]; omega)
      · intro x hx
        rcases List.mem_cons.1 hx with rfl | hx
        · exact mem_ibases_lt ig cur x hb
        · exact hlt x hx
      · intro x hx
        rcases List.mem_cons.1 hx with rfl | hx
        · exact .inl rfl
        · rcases hreach x hx with rfl | h
          · exact .inr (.single hstep)
          · exact .inr (h.snoc hstep)
    obtain ⟨X, hX⟩ := specFold_some ig f (ibases ig cur) (ibases ig cur) hall
    rw [hX]
    exact ⟨_, rfl⟩

theorem allBasesSpec_total_of_acyclic (ig : IGraph) (hac : AcyclicE (igEdges ig)) (i : Nat) :
    ∃ l, allBasesSpec ig (ig.length + 1) i = some l := by
  by_cases hi : i < ig.length
  · exact allBasesSpec_some_of_acyclic ig hac (ig.length + 1) i [i] (by simp) (by simpa using hi) (by simp)
      (by simp) (by simp)
  · rw [allBasesSpec_succ, ibases_of_ge ig i (by omega)]
    exact ⟨_, rfl⟩

/-- no interface is reported ⇒ the inheritance graph is acyclic -/
theorem acyclic_of_no_ifaceLoopErrors (ig : IGraph) (h : ifaceLoopErrors ig = []) : AcyclicE (igEdges ig) := by
  intro i hr
  by_cases hi : i < ig.length
  · have hs := (checkInterface_isSome_iff ig i).2 hr
    cases hp : checkInterface ig i with
    | none => rw [hp] at hs; cases hs
    | some p =>
      have := (mem_ifaceLoopErrors ig i p).2 ⟨hi, hp⟩
      rw [h] at this; cases this
  · obtain ⟨b, hb, _⟩ := hr.head
    have := (igEdges_step ig i b).1 hb
    rw [ibases_of_ge ig i (by omega)] at this
    cases this

/-! ## the alias gate: `revisits_anonymous_type` answers true iff a cycle of anonymous types can be reached -/

theorem revisits_succ (ag : IGraph) (fuel x : Nat) (path : List Nat) :
    revisits ag (fuel + 1) x path =
      if path.contains x then true else (ibases ag x).any fun c => revisits ag fuel c (path ++ [x]) := rfl

/-- a node lying on a cycle is `x` or below `x` -/
def ReachesCycle (ag : IGraph) (x : Nat) : Prop :=
  ∃ y, (y = x ∨ EReach (igEdges ag) x y) ∧ EReach (igEdges ag) y y

theorem revisits_sound (ag : IGraph) :
    ∀ (fuel x : Nat) (path : List Nat), (∀ p ∈ path, EReach (igEdges ag) p x) → revisits ag fuel x path = true →
      ReachesCycle ag x := by
  intro fuel
  induction fuel with
  | zero => intro _ _ _ h; cases h
  | succ fuel ih =>
    intro x path hpath h
    rw [revisits_succ] at h
    cases hc : path.contains x with
    | true => exact ⟨x, .inl rfl, hpath x (by simpa using hc)⟩
    | false =>
      rw [hc] at h
      simp only [Bool.false_eq_true, if_false, List.any_eq_true] at h
      obtain ⟨c, hcm, hr⟩ := h
      have hstep : EStep (igEdges ag) x c := (igEdges_step ag x c).2 hcm
      obtain ⟨y, hy, hyy⟩ := ih c (path ++ [x]) (by
        intro p hp
        rcases List.mem_append.1 hp with hp | hp
        · exact (hpath p hp).snoc hstep
        · simp only [List.mem_singleton] at hp; subst hp; exact .single hstep) hr
      refine ⟨y, .inr ?_, hyy⟩
      rcases hy with rfl | hy
      · exact .single hstep
      · exact .cons hstep hy

theorem revisits_complete (ag : IGraph) :
    ∀ (fuel x : Nat) (path : List Nat), path.Nodup → (∀ p ∈ path, p < ag.length) → ag.length + 1 ≤ path.length + fuel →
      ReachesCycle ag x → revisits ag fuel x path = true := by
  intro fuel
  induction fuel with
  | zero =>
    intro _ path hnd hlt hlen _
    have := List.Nodup.length_le_of_subset hnd (fun p hp => List.mem_range.2 (hlt p hp))
    simp only [List.length_range] at this
    omega
  | succ fuel ih =>
    intro x path hnd hlt hlen hcyc
    rw [revisits_succ]
    cases hc : path.contains x with
    | true => rfl
    | false =>
      simp only [Bool.false_eq_true, if_false, List.any_eq_true]
      have hx : x ∉ path := by simpa using hc
      -- the first step towards the cycle (or around it)
      obtain ⟨y, hy, hyy⟩ := hcyc
      have hnext : ∃ c, EStep (igEdges ag) x c ∧ ReachesCycle ag c := by
        rcases hy with rfl | hy
        · obtain ⟨c, hs, hcy⟩ := hyy.head
          refine ⟨c, hs, y, ?_, hyy⟩
          rcases hcy with rfl | hcy
          · exact .inl rfl
          · exact .inr hcy
        · obtain ⟨c, hs, hcy⟩ := hy.head
          refine ⟨c, hs, y, ?_, hyy⟩
          rcases hcy with rfl | hcy
          · exact .inl rfl
          · exact .inr hcy
      obtain ⟨c, hs, hcc⟩ := hnext
      have hcm : c ∈ ibases ag x := (igEdges_step ag x c).1 hs
      have hxlt : x < ag.length := by
        by_cases h : x < ag.length
        · exact h
        · rw [ibases_of_ge ag x (by omega)] at hcm; cases hcm
      refine ⟨c, hcm, ih c (path ++ [x]) ?_ ?_ ?_ hcc⟩
      · rw [List.nodup_append]
        refine ⟨hnd, by simp, ?_⟩
        intro a ha b hb
        simp only [List.mem_singleton] at hb
        subst hb
        intro hab; subst hab; exact hx ha
      · intro p hp
        rcases List.mem_append.1 hp with hp | hp
        · exact hlt p hp
        · simp only [List.mem_singleton] at hp; subst hp; exact hxlt
      · simp only [List.length_append, List.length_singleton]; omega

theorem revisits_iff (ag : IGraph) (x : Nat) : revisits ag (ag.length + 1) x [] = true ↔ ReachesCycle ag x :=
  ⟨revisits_sound ag _ x [] (by intro p hp; cases hp),
   revisits_complete ag _ x [] List.nodup_nil (by intro p hp; cases hp) (by simp)⟩

theorem mem_aliasGate (ag : IGraph) (starts : List (Option Nat)) (a : Nat) :
    a ∈ aliasGate ag starts ↔ a < starts.length ∧ ∃ x, starts.getD a none = some x ∧ ReachesCycle ag x := by
  unfold aliasGate
  simp only [List.mem_filter, List.mem_range]
  constructor
  · rintro ⟨ha, h⟩
    cases hs : starts.getD a none with
    | none => rw [hs] at h; cases h
    | some x =>
      rw [hs] at h
      exact ⟨ha, x, rfl, (revisits_iff ag x).1 h⟩
  · rintro ⟨ha, x, hs, hc⟩
    refine ⟨ha, ?_⟩
    rw [hs]
    exact (revisits_iff ag x).2 hc

/-! ## cost on cyclic graphs: still exponential (D-05d) — a dense DAG whose last node points back to the first -/

/-- one iteration of the loop over the edges of `cur`, with a skip predicate -/
def stepG (E : EdgeFn) (root : Nat) (skip : Nat → Bool) (fuel : Nat) (stack : List Entry) (cur : Nat) :
    DState → Nat × Nat → DState :=
  fun st e =>
    if e.2 == root then report root (stack ++ [⟨e.2, cur, e.1⟩]) st.tick
    else if skip e.2 then st.tick
    else if stack.any (fun x => x.target == e.2) then st.tick
    else dfsG E root skip fuel (stack ++ [⟨e.2, cur, e.1⟩]) e.2 st.tick

theorem dfsG_succ' (E : EdgeFn) (root : Nat) (skip : Nat → Bool) (fuel : Nat) (stack : List Entry) (cur : Nat) (st : DState) :
    dfsG E root skip (fuel + 1) stack cur st = (E cur).foldl (stepG E root skip fuel stack cur) st := rfl

theorem stepG_steps_mono (E : EdgeFn) (root : Nat) (skip : Nat → Bool) (fuel : Nat) (stack : List Entry) (cur : Nat)
    (st : DState) (e : Nat × Nat) (c : Nat) (h : c ≤ st.steps) : c ≤ (stepG E root skip fuel stack cur st e).steps := by
  unfold stepG
  split
  · rw [report_steps, tick_steps]; omega
  · split
    · rw [tick_steps]; omega
    · split
      · rw [tick_steps]; omega
      · exact dfs_steps_mono _ _ _ _ _ _ _ c (by rw [tick_steps]; omega)

theorem foldG_steps_mono (E : EdgeFn) (root : Nat) (skip : Nat → Bool) (fuel : Nat) (stack : List Entry) (cur : Nat)
    (es : List (Nat × Nat)) : ∀ (st : DState) (c : Nat), c ≤ st.steps →
      c ≤ (es.foldl (stepG E root skip fuel stack cur) st).steps := by
  induction es with
  | nil => intro st c h; exact h
  | cons e es ih => intro st c h; rw [List.foldl_cons]; exact ih _ c (stepG_steps_mono _ _ _ _ _ _ _ _ c h)

/-- node `k` points to the nodes `k+1 … n-1` in this order, and then possibly to other nodes (back edges) -/
def DenseBackOn (E : EdgeFn) (n : Nat) : Prop :=
  ∀ k, k < n → ∃ es1 es2, E k = es1 ++ es2 ∧ es1.map (·.2) = List.range' (k + 1) (n - (k + 1))

/-- when no node `0 < j < n` is skipped, the search rooted at `0` walks every increasing path: from node `k` at least
    `2^(n-1-k) - 1` calls -/
theorem denseBack_dfs_steps (E : EdgeFn) (n : Nat) (skip : Nat → Bool) (hE : DenseBackOn E n)
    (hskip : ∀ j, 0 < j → j < n → skip j = false) :
    ∀ (fuel : Nat) (stack : List Entry) (k m : Nat) (st : DState),
      k + 1 + m = n → m < fuel → (∀ x ∈ stack, x.target ≤ k) →
      st.steps + 2 ^ m ≤ (dfsG E 0 skip fuel stack k st).steps + 1 := by
  intro fuel
  induction fuel with
  | zero => intro _ _ _ _ _ h; omega
  | succ fuel ih =>
    intro stack k m st hkm hfuel hstack
    rw [dfsG_succ']
    obtain ⟨es1, es2, hsplit, hmap⟩ := hE k (by omega)
    rw [hsplit, List.foldl_append]
    have key : ∀ (es : List (Nat × Nat)) (a m' : Nat) (st : DState),
        es.map (·.2) = List.range' a m' → k < a → a + m' = n →
        st.steps + 2 ^ m' ≤ (es.foldl (stepG E 0 skip fuel stack k) st).steps + 1 := by
      intro es
      induction es with
      | nil =>
        intro a m' st hmap _ _
        have : m' = 0 := by
          cases m' with
          | zero => rfl
          | succ q => simp [List.range'_succ] at hmap
        subst this; simp
      | cons e es ihes =>
        intro a m' st hmap hka ham
        cases m' with
        | zero => simp at hmap
        | succ q =>
          rw [List.range'_succ, List.map_cons] at hmap
          have he : e.2 = a := (List.cons.inj hmap).1
          have hrest : es.map (·.2) = List.range' (a + 1) q := (List.cons.inj hmap).2
          rw [List.foldl_cons]
          have h1 : (e.2 == 0) = false := by
            have : e.2 ≠ 0 := by omega
            simpa using this
          have h3 : skip e.2 = false := hskip e.2 (by omega) (by omega)
          have h2 : stack.any (fun x => x.target == e.2) = false := by
            rw [List.any_eq_false]
            intro x hx
            have := hstack x hx
            have : x.target ≠ e.2 := by omega
            simpa using this
          have hstep : stepG E 0 skip fuel stack k st e =
              dfsG E 0 skip fuel (stack ++ [⟨e.2, k, e.1⟩]) e.2 st.tick := by
            simp only [stepG, h1, h2, h3, Bool.false_eq_true, if_false]
          rw [hstep]
          have hrec := ih (stack ++ [⟨e.2, k, e.1⟩]) e.2 q st.tick (by omega) (by omega)
            (by
              intro x hx
              rcases List.mem_append.1 hx with hx | hx
              · have := hstack x hx; omega
              · simp only [List.mem_singleton] at hx; subst hx; exact Nat.le_refl _)
          have hfold := ihes (a + 1) q (dfsG E 0 skip fuel (stack ++ [⟨e.2, k, e.1⟩]) e.2 st.tick) hrest (by omega) (by omega)
          rw [tick_steps] at hrec
          rw [Nat.pow_succ]
          omega
    have h1 := key es1 (k + 1) m st (by rw [hmap]; congr 1; omega) (by omega) (by omega)
    have h2 := foldG_steps_mono E 0 skip fuel stack k es2 (es1.foldl (stepG E 0 skip fuel stack k) st) _ (Nat.le_refl _)
    omega

/-- D-05d, abstract form: a dense DAG on `n + 2` nodes whose last node points back to node `0` (everything lies on a
    cycle through node `0`). Every node contains node `0`, so the skip rule never applies in the search rooted there, and
    that search alone makes at least `2^(n+1) - 1` calls. -/
theorem cyclic_steps_exponential_E (E : EdgeFn) (n : Nat) (hlt : ∀ a e, e ∈ E a → e.2 < n + 2)
    (hE : DenseBackOn E (n + 2)) (hback : EStep E (n + 1) 0) :
    2 ^ (n + 1) ≤ (detectE E (n + 2)).steps + 1 := by
  rw [detectE_eq_detectG]
  unfold detectG
  rw [List.range_succ_eq_map, List.foldl_cons]
  -- every node `0 < j < n + 2` reaches node 0 (through the last node)
  have hreach : ∀ j, 0 < j → j < n + 2 → EReach E j 0 := by
    intro j hj0 hjn
    by_cases hj : j = n + 1
    · subst hj; exact .single hback
    · obtain ⟨es1, es2, hsplit, hmap⟩ := hE j hjn
      have hm : (n + 1) ∈ es1.map (·.2) := by rw [hmap, List.mem_range'_1]; omega
      obtain ⟨e, he, he2⟩ := List.mem_map.1 hm
      have hstep : EStep E j (n + 1) := ⟨e.1, by
        have : e = (e.1, n + 1) := by rw [← he2]
        rw [← this, hsplit]; exact List.mem_append_left _ he⟩
      exact .cons hstep (.single hback)
  have hskip : ∀ j, 0 < j → j < n + 2 → skipDeps (dependsOn E (n + 2) 0) j = false := by
    intro j hj0 hjn
    have := (mem_dependsOn E (n + 2) hlt 0 j).2 ⟨hjn, hreach j hj0 hjn⟩
    simp [skipDeps, this]
  have h0 := denseBack_dfs_steps E (n + 2) _ hE hskip (n + 2) [] 0 (n + 1) {} (by omega) (by omega) (by intro x hx; cases hx)
  have hmono : ∀ (rs : List Nat) (st : DState) (c : Nat), c ≤ st.steps →
      c ≤ (rs.foldl (fun st r => dfsG E r (skipDeps (dependsOn E (n + 2) r)) (n + 2) [] r st) st).steps := by
    intro rs
    induction rs with
    | nil => intro st c h; exact h
    | cons r rs ih => intro st c h; rw [List.foldl_cons]; exact ih _ c (dfs_steps_mono E r _ (n + 2) [] r st c h)
  have := hmono ((List.range (n + 1)).map Nat.succ) (dfsG E 0 (skipDeps (dependsOn E (n + 2) 0)) (n + 2) [] 0 {}) _ (Nat.le_refl _)
  have hz : ({} : DState).steps = 0 := rfl
  show 2 ^ (n + 1) ≤ (((List.range (n + 1)).map Nat.succ).foldl
    (fun st r => dfsG E r (skipDeps (dependsOn E (n + 2) r)) (n + 2) [] r st)
    (dfsG E 0 (skipDeps (dependsOn E (n + 2) 0)) (n + 2) [] 0 {})).steps + 1
  omega

end Slicec.Cyc
