/-
  C08 — what the converted request says about the program (helper lemmas for Props/C08.lean).

  part A  named type ids and bases name entities of transmitted files (`named_ids_exist`):
          `sb_append`, where the entries of `buildTable` come from (`buildTable_entry`), what `resolveNamed`
          returns (`resolveNamed_node`), the decidable guard `AllResolve`, the invariant threaded through the
          conversion (`SymNamed`), and the way back from a table entry to a symbol of a transmitted file.
  part B  the description of a program written without the threaded symbol vector (`describe`), the reader of a
          converted file that dereferences numeric ids (`readFile`), and `readFile ∘ convert = describe`.
-/
import SlicecVerif.Lemmas.Request
import SlicecVerif.Lemmas.Resolve

namespace Slicec

/-! ## part A.0: bytes of a concatenation -/

theorem byteArray_size_eq (bs : ByteArray) : bs.size = bs.data.toList.length := by
  cases bs; simp [ByteArray.size]

theorem byteArray_toList_loop (bs : ByteArray) : ∀ (k i : Nat) (r : List UInt8), k = bs.size - i →
    ByteArray.toList.loop bs i r = r.reverse ++ bs.data.toList.drop i := by
  intro k
  induction k with
  | zero =>
    intro i r hk
    rw [ByteArray.toList.loop.eq_1]
    have : ¬ i < bs.size := by omega
    simp only [this, if_false]
    have h2 : bs.data.toList.length ≤ i := by rw [← byteArray_size_eq]; omega
    rw [List.drop_eq_nil_of_le h2]; simp
  | succ k ih =>
    intro i r hk
    rw [ByteArray.toList.loop.eq_1]
    have : i < bs.size := by omega
    simp only [this, if_true]
    rw [ih (i + 1) _ (by omega)]
    have hlt : i < bs.data.toList.length := by rw [← byteArray_size_eq]; omega
    rw [List.drop_eq_getElem_cons hlt]
    cases bs with
    | mk d =>
      simp only [ByteArray.get!]
      have hd : i < d.size := by simpa using hlt
      simp [getElem!_pos d i hd]

theorem byteArray_toList (bs : ByteArray) : bs.toList = bs.data.toList := by
  unfold ByteArray.toList
  rw [byteArray_toList_loop bs _ 0 [] rfl]; simp

/-- the UTF-8 bytes of a concatenation are the concatenation of the UTF-8 bytes -/
theorem sb_append (a b : String) : sb (a ++ b) = sb a ++ sb b := by
  simp [sb, String.toUTF8, byteArray_toList, String.toByteArray_append, ByteArray.data_append]

/-- the scoped identifier of a definition of a module with a non-empty path, as bytes -/
theorem sb_scopedId (name scope : String) (h : scope.isEmpty = false) :
    sb (scopedId name scope) = sb scope ++ sb "::" ++ sb name := by
  simp only [scopedId, h, Bool.false_eq_true, if_false, sb_append]

/-! ## part A.1: where the entries of the name table come from -/

/-- what is known of a stored node, by kind: a primitive is one of the sixteen keywords; a struct / enum / custom type /
    interface is a definition of some file of the program, stored under its module-scoped identifier; a node of kind
    alias carries its underlying type -/
def EntryOK (p : Program) (n : NodeInfo) : Prop :=
  (n.kind = .primitive → ∃ pr ∈ Prim.all, n.ident = pr.kw) ∧
  (n.kind = .struct ∨ n.kind = .enum ∨ n.kind = .custom ∨ n.kind = .interface →
    ∃ f ∈ p, ∃ d ∈ f.defs, n.kind = d.nodeKind ∧ n.key = scopedId d.name f.modPath) ∧
  (n.kind = .alias → n.isAlias = true)

theorem defEntries_ok (p : Program) (f : SFile) (hf : f ∈ p) (i : Nat) (d : Def) (hd : d ∈ f.defs)
    (e : String × NodeInfo) (he : e ∈ defEntries i f.modPath d) : EntryOK p e.2 := by
  have own : ∀ n : NodeInfo, n.kind = d.nodeKind → n.key = scopedId d.name f.modPath →
      (n.kind = .alias → n.isAlias = true) → EntryOK p n := by
    intro n hk hkey ha
    refine ⟨?_, fun _ => ⟨f, hf, d, hd, hk, hkey⟩, ha⟩
    intro hp; rw [hp] at hk; cases d <;> cases hk
  have member : ∀ n : NodeInfo, (n.kind = .field ∨ n.kind = .parameter ∨ n.kind = .operation ∨ n.kind = .enumerator) →
      EntryOK p n := by
    intro n hk
    refine ⟨?_, ?_, ?_⟩
    · intro h; rw [h] at hk; simp at hk
    · intro h; rcases h with h | h | h | h <;> rw [h] at hk <;> simp at hk
    · intro h; rw [h] at hk; simp at hk
  cases d with
  | struct doc attrs compact name fields =>
    simp only [defEntries, List.mem_append, List.mem_singleton, fieldEntries, List.mem_map] at he
    rcases he with ⟨x, _, rfl⟩ | rfl
    · exact member _ (Or.inl rfl)
    · exact own _ rfl rfl (by intro h; cases h)
  | iface doc attrs name bases ops =>
    simp only [defEntries, List.mem_append, List.mem_singleton, List.mem_flatMap, opEntries, paramEntries, List.mem_map] at he
    rcases he with ⟨o, _, (⟨x, _, rfl⟩ | ⟨x, _, rfl⟩) | rfl⟩ | rfl
    · exact member _ (Or.inr (Or.inl rfl))
    · exact member _ (Or.inr (Or.inl rfl))
    · exact member _ (Or.inr (Or.inr (Or.inl rfl)))
    · exact own _ rfl rfl (by intro h; cases h)
  | enum doc attrs compact unchecked name underlying es =>
    simp only [defEntries, List.mem_append, List.mem_singleton, List.mem_flatMap, enumeratorEntries, fieldEntries, List.mem_map] at he
    rcases he with ⟨x, _, ⟨y, _, rfl⟩ | rfl⟩ | rfl
    · exact member _ (Or.inl rfl)
    · exact member _ (Or.inr (Or.inr (Or.inr rfl)))
    · exact own _ rfl rfl (by intro h; cases h)
  | custom doc attrs name =>
    simp only [defEntries, List.mem_singleton] at he
    subst he
    exact own _ rfl rfl (by intro h; cases h)
  | alias doc attrs name ty =>
    simp only [defEntries, List.mem_singleton] at he
    subst he
    exact own _ rfl rfl (by intro _; rfl)

/-- every entry of the name table of a program is a primitive, a definition / member of a file of the program, or a module -/
theorem buildTable_entry (p : Program) (e : String × NodeInfo) (he : e ∈ buildTable p) : EntryOK p e.2 := by
  simp only [buildTable, List.mem_append, List.mem_flatMap] at he
  rcases he with he | ⟨⟨f, i⟩, hfi, he⟩
  · simp only [primTable, List.mem_map] at he
    obtain ⟨pr, hpr, rfl⟩ := he
    refine ⟨fun _ => ⟨pr, hpr, rfl⟩, ?_, ?_⟩
    · intro h; rcases h with h | h | h | h <;> cases h
    · intro h; cases h
  · have hf : f ∈ p := List.fst_mem_of_mem_zipIdx hfi
    simp only [fileEntries, List.mem_append, List.mem_flatMap] at he
    rcases he with ⟨d, hd, he⟩ | he
    · exact defEntries_ok p f hf i d hd e he
    · cases hm : f.module with
      | none => rw [hm] at he; simp at he
      | some m =>
        rw [hm] at he
        simp only [List.mem_singleton] at he
        subst he
        refine ⟨?_, ?_, ?_⟩
        · intro h; cases h
        · intro h; rcases h with h | h | h | h <;> cases h
        · intro h; cases h

/-! ## part A.2: what a resolution returns -/

theorem AliasPath.node_mem {t : Table} {cur : NodeInfo} {links : List TRef} {n : NodeInfo}
    (h : AliasPath t cur links (.node n)) : ∃ k, (k, n) ∈ t := by
  generalize htgt : Target.node n = tgt at h
  induction h with
  | endNode _ _ hf _ => cases htgt; exact findNodeWithScope_mem t _ _ _ hf
  | endExpr _ _ => cases htgt
  | step _ _ _ _ _ ih => exact ih htgt

/-- a node returned by `resolveNamed` is stored in the table, is not an alias, and is of an acceptable kind -/
theorem resolveNamed_node (t : Table) (w : Want) (id scope : String) (n : NodeInfo) (extra : List Attr)
    (h : resolveNamed t w id scope = .ok (.node n, extra)) :
    (∃ k, (k, n) ∈ t) ∧ n.isAlias = false ∧ acceptable w n.kind = true := by
  unfold resolveNamed at h
  cases hf : findNodeWithScope t id scope with
  | none => rw [hf] at h; cases h
  | some n0 =>
    rw [hf] at h
    simp only at h
    by_cases ha : n0.isAlias = true
    · simp only [ha, if_true] at h
      cases hw : walkAlias t (numAliases t + 1) [] [] n0 with
      | error e => rw [hw] at h; cases h
      | ok res =>
        obtain ⟨tgt, attrs⟩ := res
        rw [hw] at h
        obtain ⟨links, hp, _⟩ := walkAlias_path t _ _ _ _ _ _ hw ha
        cases tgt with
        | node m =>
          simp only at h
          by_cases hacc : acceptable w m.kind = true
          · simp only [hacc, if_true, Except.ok.injEq, Prod.mk.injEq, Target.node.injEq] at h
            obtain ⟨rfl, _⟩ := h
            exact ⟨hp.node_mem, hp.nonAlias, hacc⟩
          · simp only [hacc] at h; cases h
        | expr e s =>
          simp only at h
          split at h <;> cases h
    · simp only [ha] at h
      by_cases hacc : acceptable w n0.kind = true
      · simp only [hacc, if_true, Bool.false_eq_true, if_false, Except.ok.injEq, Prod.mk.injEq, Target.node.injEq] at h
        obtain ⟨rfl, _⟩ := h
        exact ⟨findNodeWithScope_mem t _ _ _ hf, by simpa using ha, hacc⟩
      · simp only [hacc, Bool.false_eq_true, if_false] at h; cases h

/-- a written type expression returned by `resolveNamed` for a type position is not a name -/
theorem resolveNamed_expr (t : Table) (id scope : String) (e : TyExpr) (s : String) (extra : List Attr)
    (h : resolveNamed t .type id scope = .ok (.expr e s, extra)) : ∀ x, e ≠ .named x := by
  unfold resolveNamed at h
  cases hf : findNodeWithScope t id scope with
  | none => rw [hf] at h; cases h
  | some n0 =>
    rw [hf] at h
    simp only at h
    by_cases ha : n0.isAlias = true
    · simp only [ha, if_true] at h
      cases hw : walkAlias t (numAliases t + 1) [] [] n0 with
      | error e => rw [hw] at h; cases h
      | ok res =>
        obtain ⟨tgt, attrs⟩ := res
        rw [hw] at h
        obtain ⟨links, hp, _⟩ := walkAlias_path t _ _ _ _ _ _ hw ha
        cases tgt with
        | node m => simp only at h; split at h <;> cases h
        | expr e' s' =>
          simp only at h
          split at h
          · simp only [Except.ok.injEq, Prod.mk.injEq, Target.expr.injEq] at h
            obtain ⟨⟨rfl, rfl⟩, _⟩ := h
            exact hp.nonAlias
          · cases h
    · simp only [ha, Bool.false_eq_true, if_false] at h
      split at h <;> cases h

theorem acceptable_type_kinds (k : NodeKind) (h : acceptable .type k = true) :
    k = .struct ∨ k = .enum ∨ k = .custom ∨ k = .alias ∨ k = .primitive := by
  cases k
  case struct => exact Or.inl rfl
  case «enum» => exact Or.inr (Or.inl rfl)
  case custom => exact Or.inr (Or.inr (Or.inl rfl))
  case alias => exact Or.inr (Or.inr (Or.inr (Or.inl rfl)))
  case primitive => exact Or.inr (Or.inr (Or.inr (Or.inr rfl)))
  all_goals (exfalso; revert h; simp only [acceptable, NodeKind.variant]; decide)

theorem acceptable_interface_kind (k : NodeKind) (h : acceptable .interface k = true) : k = .interface := by
  simpa [acceptable] using h

/-! ## part A.3: the guard — every written reference resolves -/

mutual
/-- the type reference is converted without a fallback: the name resolves (to a node, or through aliases to a written
    type that itself converts without fallback) and the descent bound is not exhausted -/
def trefResolves (t : Table) (scope : String) : Nat → TRef → Bool
  | 0, _ => false
  | fuel + 1, .mk _ ty _ =>
    match ty with
    | .named id =>
      match resolveNamed t .type id scope with
      | .ok (.node _, _) => true
      | .ok (.expr e s, _) => tyResolves t s fuel e
      | .error _ => false
    | e => tyResolves t scope fuel e
def tyResolves (t : Table) (scope : String) : Nat → TyExpr → Bool
  | 0, _ => false
  | _ + 1, .prim _ => true
  | _ + 1, .named _ => false
  | fuel + 1, .seq e => trefResolves t scope fuel e
  | fuel + 1, .dict k v => trefResolves t scope fuel k && trefResolves t scope fuel v
  | fuel + 1, .result s f => trefResolves t scope fuel s && trefResolves t scope fuel f
end

def fieldsResolve (t : Table) (scope : String) (fs : List Field) : Bool :=
  fs.all fun f => trefResolves t scope elabFuel f.ty

def paramsResolve (t : Table) (scope : String) (ps : List Param) : Bool :=
  ps.all fun p => trefResolves t scope elabFuel p.ty

/-- a base is a name that resolves to a node (necessarily an interface) -/
def baseResolves (t : Table) (scope : String) (b : TRef) : Bool :=
  match b.ty with
  | .named id =>
    match resolveNamed t .interface id scope with
    | .ok (.node _, _) => true
    | _ => false
  | _ => false

def opResolves (t : Table) (scope : String) (o : Op) : Bool :=
  paramsResolve t scope o.params && paramsResolve t scope (retParams o.ret)

def defResolves (t : Table) (scope : String) : Def → Bool
  | .struct _ _ _ _ fields => fieldsResolve t scope fields
  | .iface _ _ _ bases ops => bases.all (baseResolves t scope) && ops.all (opResolves t scope)
  | .enum _ _ _ _ _ underlying es =>
    -- an enum with an underlying type transmits no type reference (the fields of its enumerators are not encoded)
    underlying.isSome || es.all fun e => fieldsResolve t scope (e.fields.getD [])
  | .custom .. => true
  | .alias _ _ _ ty => trefResolves t scope elabFuel ty

/-- a file without module declaration has no definitions ("module declaration is required", parsers/mod.rs); a module
    path is not empty; every reference written in a definition resolves -/
def fileResolves (t : Table) (f : SFile) : Bool :=
  match f.module with
  | none => f.defs.isEmpty
  | some m => !m.path.isEmpty && f.defs.all (defResolves t m.path)

/-- **the guard of `named_ids_exist`** (decidable): what "the program compiled without errors" gives the converter —
    no definition outside a module, and every written type reference / base resolves (E033 / E017 / E019 absent) -/
def AllResolve (fs : List ReqFile) : Bool :=
  (programOf fs).all (fileResolves (buildTable (programOf fs)))

/-! ## part A.4: the invariant threaded through the conversion -/

/-- a named type id that is a primitive keyword or the key of a struct / enum / custom-type entry of the table -/
def NamedOK (p : Program) (id : Bytes) : Prop :=
  (∃ pr ∈ Prim.all, id = sb pr.kw) ∨
  ∃ f ∈ p, ∃ d ∈ f.defs, (d.nodeKind = .struct ∨ d.nodeKind = .enum ∨ d.nodeKind = .custom) ∧
    id = sb (scopedId d.name f.modPath)

/-- a base that is the key of an interface entry -/
def BaseOK (p : Program) (b : Bytes) : Prop :=
  ∃ f ∈ p, ∃ d ∈ f.defs, d.nodeKind = .interface ∧ b = sb (scopedId d.name f.modPath)

def IdNamed (p : Program) (tid : TypeIdV) : Prop := ∀ id, tid = .named id → NamedOK p id

/-- every named type id of the symbol and every base is accounted for -/
def SymNamed (p : Program) (s : SymbolV) : Prop :=
  (∀ r ∈ s.trefs, IdNamed p r.typeId) ∧ (∀ v, s = .interface v → ∀ b ∈ v.bases, BaseOK p b)

def AllSymNamed (p : Program) (syms : Syms) : Prop := ∀ s ∈ syms, SymNamed p s

theorem IdNamed_anon (p : Program) (j : Nat) : IdNamed p (.anon j) := by intro id h; cases h

theorem AllSymNamed_push {p : Program} {syms : Syms} {s : SymbolV} (h : AllSymNamed p syms) (hs : SymNamed p s) :
    AllSymNamed p (syms ++ [s]) := by
  intro x hx
  simp only [List.mem_append, List.mem_singleton] at hx
  rcases hx with hx | rfl
  · exact h x hx
  · exact hs

theorem SymNamed_anon {p : Program} {s : SymbolV} (ha : s.isAnon = true) (h : ∀ r ∈ s.trefs, IdNamed p r.typeId) :
    SymNamed p s := by
  refine ⟨h, ?_⟩
  intro v hv; subst hv; cases ha

/-- a node a type position resolves to gives a good id -/
theorem node_named (p : Program) (id scope : String) (n : NodeInfo) (extra : List Attr)
    (h : resolveNamed (buildTable p) .type id scope = .ok (.node n, extra)) :
    NamedOK p (sb (if n.kind == .primitive then n.ident else n.key)) := by
  obtain ⟨⟨k, hk⟩, hna, hacc⟩ := resolveNamed_node _ _ _ _ _ _ h
  obtain ⟨hprim, hdef, halias⟩ := buildTable_entry p (k, n) hk
  rcases acceptable_type_kinds _ hacc with hk' | hk' | hk' | hk' | hk'
  · obtain ⟨f, hf, d, hd, hkd, hkey⟩ := hdef (Or.inl hk')
    simp only [hk']
    exact Or.inr ⟨f, hf, d, hd, Or.inl (by rw [← hkd, hk']), by rw [hkey]; rfl⟩
  · obtain ⟨f, hf, d, hd, hkd, hkey⟩ := hdef (Or.inr (Or.inl hk'))
    simp only [hk']
    exact Or.inr ⟨f, hf, d, hd, Or.inr (Or.inl (by rw [← hkd, hk'])), by rw [hkey]; rfl⟩
  · obtain ⟨f, hf, d, hd, hkd, hkey⟩ := hdef (Or.inr (Or.inr (Or.inl hk')))
    simp only [hk']
    exact Or.inr ⟨f, hf, d, hd, Or.inr (Or.inr (by rw [← hkd, hk'])), by rw [hkey]; rfl⟩
  · rw [halias hk'] at hna; cases hna
  · obtain ⟨pr, hpr, hid⟩ := hprim hk'
    simp only [hk']
    exact Or.inl ⟨pr, hpr, by rw [← hid]; rfl⟩

/-- `convert_type_ref` / `get_type_id_for` under the guard: the symbols pushed and the id returned are accounted for -/
theorem convT_named (p : Program) : ∀ fuel : Nat,
    (∀ (scope : String) (r : TRef) (syms : Syms), trefResolves (buildTable p) scope fuel r = true → AllSymNamed p syms →
      AllSymNamed p (convTRef (buildTable p) scope fuel r syms).2 ∧
      IdNamed p (convTRef (buildTable p) scope fuel r syms).1.typeId) ∧
    (∀ (scope : String) (e : TyExpr) (syms : Syms), tyResolves (buildTable p) scope fuel e = true → AllSymNamed p syms →
      AllSymNamed p (convTy (buildTable p) scope fuel e syms).2 ∧
      IdNamed p (convTy (buildTable p) scope fuel e syms).1) := by
  intro fuel
  induction fuel with
  | zero =>
    refine ⟨fun scope r syms hg _ => ?_, fun scope e syms hg _ => ?_⟩
    · simp [trefResolves] at hg
    · simp [tyResolves] at hg
  | succ fuel ih =>
    obtain ⟨ihR, ihT⟩ := ih
    refine ⟨fun scope r syms hg h => ?_, fun scope e syms hg h => ?_⟩
    · obtain ⟨attrs, ty, opt⟩ := r
      cases ty with
      | named id =>
        simp only [trefResolves] at hg
        simp only [convTRef]
        cases hres : resolveNamed (buildTable p) .type id scope with
        | error e => rw [hres] at hg; cases hg
        | ok res =>
          obtain ⟨tgt, extra⟩ := res
          cases tgt with
          | node n =>
            simp only
            refine ⟨h, ?_⟩
            intro x hx
            simp only [TypeIdV.named.injEq] at hx
            subst hx
            exact node_named p id scope n extra hres
          | expr e s =>
            rw [hres] at hg
            simp only at hg ⊢
            exact ihT s e syms hg h
      | prim pr => simp only [trefResolves] at hg; simp only [convTRef]; exact ihT scope (.prim pr) syms hg h
      | seq e => simp only [trefResolves] at hg; simp only [convTRef]; exact ihT scope (.seq e) syms hg h
      | dict k v => simp only [trefResolves] at hg; simp only [convTRef]; exact ihT scope (.dict k v) syms hg h
      | result s f => simp only [trefResolves] at hg; simp only [convTRef]; exact ihT scope (.result s f) syms hg h
    · cases e with
      | prim pr =>
        simp only [convTy]
        refine ⟨h, ?_⟩
        intro x hx
        simp only [TypeIdV.named.injEq] at hx
        subst hx
        exact Or.inl ⟨pr, by cases pr <;> simp [Prim.all], rfl⟩
      | named id => simp [tyResolves] at hg
      | seq e =>
        simp only [tyResolves] at hg
        simp only [convTy]
        obtain ⟨a1, i1⟩ := ihR scope e syms hg h
        exact ⟨AllSymNamed_push a1 (SymNamed_anon rfl (by
          intro r hr; simp [SymbolV.trefs] at hr; subst hr; exact i1)), IdNamed_anon _ _⟩
      | dict k v =>
        simp only [tyResolves, Bool.and_eq_true] at hg
        simp only [convTy]
        obtain ⟨a1, i1⟩ := ihR scope k syms hg.1 h
        obtain ⟨a2, i2⟩ := ihR scope v _ hg.2 a1
        exact ⟨AllSymNamed_push a2 (SymNamed_anon rfl (by
          intro r hr; simp [SymbolV.trefs] at hr
          rcases hr with rfl | rfl
          · exact i1
          · exact i2)), IdNamed_anon _ _⟩
      | result s f =>
        simp only [tyResolves, Bool.and_eq_true] at hg
        simp only [convTy]
        obtain ⟨a1, i1⟩ := ihR scope s syms hg.1 h
        obtain ⟨a2, i2⟩ := ihR scope f _ hg.2 a1
        exact ⟨AllSymNamed_push a2 (SymNamed_anon rfl (by
          intro r hr; simp [SymbolV.trefs] at hr
          rcases hr with rfl | rfl
          · exact i1
          · exact i2)), IdNamed_anon _ _⟩

theorem convTRef_named (p : Program) (scope : String) (fuel : Nat) (r : TRef) (syms : Syms)
    (hg : trefResolves (buildTable p) scope fuel r = true) (h : AllSymNamed p syms) :
    AllSymNamed p (convTRef (buildTable p) scope fuel r syms).2 ∧
    IdNamed p (convTRef (buildTable p) scope fuel r syms).1.typeId :=
  (convT_named p fuel).1 scope r syms hg h

/-- threading a list through the converter under a guard on its elements: an invariant `P` of the vector is kept and
    every output element satisfies `Q` -/
theorem thread_guarded {α β : Type} (P : Syms → Prop) (Q : β → Prop) (G : α → Prop) (step : α → Syms → β × Syms)
    (hstep : ∀ a syms, G a → P syms → P (step a syms).2 ∧ Q (step a syms).1)
    (thread : List α → Syms → List β × Syms) (hnil : ∀ s, thread [] s = ([], s))
    (hcons : ∀ a as s, thread (a :: as) s = ((step a s).1 :: (thread as (step a s).2).1, (thread as (step a s).2).2)) :
    ∀ (as : List α) (syms : Syms), (∀ a ∈ as, G a) → P syms →
      P (thread as syms).2 ∧ ∀ x ∈ (thread as syms).1, Q x := by
  intro as
  induction as with
  | nil => intro syms _ h; rw [hnil]; exact ⟨h, by simp⟩
  | cons a as ih =>
    intro syms hg h
    rw [hcons]
    obtain ⟨p1, q1⟩ := hstep a syms (hg a (by simp)) h
    obtain ⟨p2, q2⟩ := ih _ (fun x hx => hg x (by simp [hx])) p1
    refine ⟨p2, ?_⟩
    intro x hx
    simp only [List.mem_cons] at hx
    rcases hx with rfl | hx
    · exact q1
    · exact q2 x hx

theorem convFields_named (p : Program) (scope ckey : String) (fs : List Field) (syms : Syms)
    (hg : fieldsResolve (buildTable p) scope fs = true) (h : AllSymNamed p syms) :
    AllSymNamed p (convFields (buildTable p) scope ckey fs syms).2 ∧
    ∀ x ∈ (convFields (buildTable p) scope ckey fs syms).1, IdNamed p x.dataType.typeId :=
  thread_guarded (AllSymNamed p) (fun x : FieldV => IdNamed p x.dataType.typeId)
    (fun f : Field => trefResolves (buildTable p) scope elabFuel f.ty = true) (convField (buildTable p) scope ckey)
    (fun a s ha hs => convTRef_named p scope elabFuel a.ty s ha hs)
    (convFields (buildTable p) scope ckey) (fun s => rfl) (fun a as s => rfl) fs syms
    (by simpa [fieldsResolve] using hg) h

theorem convParams_named (mode : DocMode) (p : Program) (scope okey : String) (d : Option ReqDoc.ParsedDoc) (ir sg : Bool)
    (ps : List Param) (syms : Syms) (hg : paramsResolve (buildTable p) scope ps = true) (h : AllSymNamed p syms) :
    AllSymNamed p (convParams mode (buildTable p) scope okey d ir sg ps syms).2 ∧
    ∀ x ∈ (convParams mode (buildTable p) scope okey d ir sg ps syms).1, IdNamed p x.dataType.typeId :=
  thread_guarded (AllSymNamed p) (fun x : FieldV => IdNamed p x.dataType.typeId)
    (fun q : Param => trefResolves (buildTable p) scope elabFuel q.ty = true) (convParam mode (buildTable p) scope okey d ir sg)
    (fun a s ha hs => convTRef_named p scope elabFuel a.ty s ha hs)
    (convParams mode (buildTable p) scope okey d ir sg) (fun s => rfl) (fun a as s => rfl) ps syms
    (by simpa [paramsResolve] using hg) h

theorem convOp_named (mode : DocMode) (p : Program) (scope ikey : String) (o : Op) (syms : Syms)
    (hg : opResolves (buildTable p) scope o = true) (h : AllSymNamed p syms) :
    AllSymNamed p (convOp mode (buildTable p) scope ikey o syms).2 ∧
    ∀ x ∈ (convOp mode (buildTable p) scope ikey o syms).1.parameters ++ (convOp mode (buildTable p) scope ikey o syms).1.returnType,
      IdNamed p x.dataType.typeId := by
  simp only [opResolves, Bool.and_eq_true] at hg
  obtain ⟨a1, q1⟩ := convParams_named mode p scope (scopedId o.name ikey) (ReqDoc.parseDoc o.doc) false false o.params syms hg.1 h
  obtain ⟨a2, q2⟩ := convParams_named mode p scope (scopedId o.name ikey) (ReqDoc.parseDoc o.doc) true (isSingleRet o.ret)
    (retParams o.ret) _ hg.2 a1
  refine ⟨a2, ?_⟩
  intro x hx
  simp only [convOp, List.mem_append] at hx
  rcases hx with hx | hx
  · exact q1 x hx
  · exact q2 x hx

theorem convOps_named (mode : DocMode) (p : Program) (scope ikey : String) (os : List Op) (syms : Syms)
    (hg : os.all (opResolves (buildTable p) scope) = true) (h : AllSymNamed p syms) :
    AllSymNamed p (convOps mode (buildTable p) scope ikey os syms).2 ∧
    ∀ o ∈ (convOps mode (buildTable p) scope ikey os syms).1, ∀ x ∈ o.parameters ++ o.returnType, IdNamed p x.dataType.typeId :=
  thread_guarded (AllSymNamed p) (fun o : OperationV => ∀ x ∈ o.parameters ++ o.returnType, IdNamed p x.dataType.typeId)
    (fun o : Op => opResolves (buildTable p) scope o = true) (convOp mode (buildTable p) scope ikey)
    (fun a s ha hs => convOp_named mode p scope ikey a s ha hs)
    (convOps mode (buildTable p) scope ikey) (fun s => rfl) (fun a as s => rfl) os syms
    (by simpa using hg) h

theorem convVariants_named (p : Program) (scope ekey : String) (es : List (Enumerator × Int)) (syms : Syms)
    (hg : ∀ e ∈ es, fieldsResolve (buildTable p) scope (e.1.fields.getD []) = true) (h : AllSymNamed p syms) :
    AllSymNamed p (convVariants (buildTable p) scope ekey es syms).2 ∧
    ∀ v ∈ (convVariants (buildTable p) scope ekey es syms).1, ∀ x ∈ v.fields, IdNamed p x.dataType.typeId :=
  thread_guarded (AllSymNamed p) (fun v : VariantV => ∀ x ∈ v.fields, IdNamed p x.dataType.typeId)
    (fun e : Enumerator × Int => fieldsResolve (buildTable p) scope (e.1.fields.getD []) = true)
    (fun (e : Enumerator × Int) s => convVariant (buildTable p) scope ekey e.1 e.2 s)
    (fun a s ha hs => convFields_named p scope (scopedId a.1.name ekey) (a.1.fields.getD []) s ha hs)
    (convVariants (buildTable p) scope ekey) (fun s => rfl) (fun a as s => by obtain ⟨e, v⟩ := a; rfl) es syms hg h

/-- one top-level definition under the guard: the vector stays accounted for, and so is the new symbol -/
theorem convDef_named (mode : DocMode) (p : Program) (scope : String) (d : Def) (syms : Syms)
    (hg : defResolves (buildTable p) scope d = true) (h : AllSymNamed p syms) :
    AllSymNamed p (convDef mode (buildTable p) scope d syms).2 ∧ SymNamed p (convDef mode (buildTable p) scope d syms).1 := by
  cases d with
  | struct doc attrs compact name fields =>
    simp only [defResolves] at hg
    obtain ⟨a, q⟩ := convFields_named p scope (scopedId name scope) fields syms hg h
    refine ⟨a, ?_, ?_⟩
    · intro r hr
      simp only [convDef, SymbolV.trefs, List.mem_map] at hr
      obtain ⟨x, hx, rfl⟩ := hr
      exact q x hx
    · intro v hv; simp only [convDef] at hv; cases hv
  | iface doc attrs name bases ops =>
    simp only [defResolves, Bool.and_eq_true] at hg
    obtain ⟨a, q⟩ := convOps_named mode p scope (scopedId name scope) ops syms hg.2 h
    refine ⟨a, ?_, ?_⟩
    · intro r hr
      simp only [convDef, SymbolV.trefs, List.mem_flatMap, List.mem_map] at hr
      obtain ⟨o, ho, x, hx, rfl⟩ := hr
      exact q o ho x hx
    · intro v hv b hb
      simp only [convDef, SymbolV.interface.injEq] at hv
      subst hv
      simp only [List.mem_map] at hb
      obtain ⟨br, hbr, rfl⟩ := hb
      have hbg := List.all_eq_true.mp hg.1 br hbr
      simp only [baseResolves] at hbg
      cases hty : br.ty with
      | named id =>
        rw [hty] at hbg
        simp only at hbg ⊢
        cases hres : resolveNamed (buildTable p) .interface id scope with
        | error e => rw [hres] at hbg; cases hbg
        | ok res =>
          obtain ⟨tgt, extra⟩ := res
          cases tgt with
          | expr e s => rw [hres] at hbg; cases hbg
          | node n =>
            simp only
            obtain ⟨⟨k, hk⟩, _, hacc⟩ := resolveNamed_node _ _ _ _ _ _ hres
            have hki := acceptable_interface_kind _ hacc
            obtain ⟨_, hdef, _⟩ := buildTable_entry p (k, n) hk
            obtain ⟨f, hf, d, hd, hkd, hkey⟩ := hdef (Or.inr (Or.inr (Or.inr hki)))
            exact ⟨f, hf, d, hd, by rw [← hkd, hki], by rw [hkey]⟩
      | prim _ => rw [hty] at hbg; cases hbg
      | seq _ => rw [hty] at hbg; cases hbg
      | dict _ _ => rw [hty] at hbg; cases hbg
      | result _ _ => rw [hty] at hbg; cases hbg
  | enum doc attrs compact unchecked name underlying es =>
    cases underlying with
    | some u =>
      simp only [convDef]
      refine ⟨h, ?_, ?_⟩
      · intro r hr; simp [SymbolV.trefs] at hr
      · intro v hv; cases hv
    | none =>
      simp only [defResolves, Option.isSome_none, Bool.false_or] at hg
      have hg' : ∀ e ∈ es.zip (enumValues none es), fieldsResolve (buildTable p) scope (e.1.fields.getD []) = true := by
        intro e he
        exact List.all_eq_true.mp hg e.1 (List.of_mem_zip he).1
      obtain ⟨a, q⟩ := convVariants_named p scope (scopedId name scope) (es.zip (enumValues none es)) syms hg' h
      refine ⟨a, ?_, ?_⟩
      · intro r hr
        simp only [convDef, SymbolV.trefs, List.mem_flatMap, List.mem_map] at hr
        obtain ⟨v, hv, x, hx, rfl⟩ := hr
        exact q v hv x hx
      · intro v hv; simp only [convDef] at hv; cases hv
  | custom doc attrs name =>
    simp only [convDef]
    refine ⟨h, ?_, ?_⟩
    · intro r hr; simp [SymbolV.trefs] at hr
    · intro v hv; cases hv
  | alias doc attrs name ty =>
    simp only [defResolves] at hg
    obtain ⟨a, q⟩ := convTRef_named p scope elabFuel ty syms hg h
    refine ⟨a, ?_, ?_⟩
    · intro r hr
      simp only [convDef, SymbolV.trefs, List.mem_singleton] at hr
      subst hr
      exact q
    · intro v hv; simp only [convDef] at hv; cases hv

theorem convDefs_named (mode : DocMode) (p : Program) (scope : String) (ds : List Def) :
    ∀ syms, ds.all (defResolves (buildTable p) scope) = true → AllSymNamed p syms →
      AllSymNamed p (convDefs mode (buildTable p) scope ds syms) := by
  induction ds with
  | nil => intro syms _ h; exact h
  | cons d ds ih =>
    intro syms hg h
    simp only [List.all_cons, Bool.and_eq_true] at hg
    simp only [convDefs]
    obtain ⟨a, q⟩ := convDef_named mode p scope d syms hg.1 h
    exact ih _ hg.2 (AllSymNamed_push a q)

theorem convertFile_named (mode : DocMode) (p : Program) (path : String) (f : SFile) (v : SliceFileV)
    (h : convertFile mode (buildTable p) path f = some v) (hg : fileResolves (buildTable p) f = true) :
    AllSymNamed p v.contents := by
  unfold convertFile at h
  unfold fileResolves at hg
  cases hm : f.module with
  | none => rw [hm] at h; cases h
  | some m =>
    rw [hm] at h hg
    simp only [Option.some.injEq] at h
    simp only [Bool.and_eq_true] at hg
    subst h
    exact convDefs_named mode p m.path f.defs [] hg.2 (by intro s hs; cases hs)

theorem convertAll_named (mode : DocMode) (p : Program) (fs : List ReqFile) :
    ∀ vs, convertAll mode (buildTable p) fs = some vs → (∀ rf ∈ fs, fileResolves (buildTable p) rf.file = true) →
      ∀ q ∈ vs, AllSymNamed p q.2.contents := by
  induction fs with
  | nil => intro vs h _; simp [convertAll] at h; subst h; simp
  | cons rf rest ih =>
    intro vs h hg
    simp only [convertAll] at h
    split at h
    · exact ih vs h (fun x hx => hg x (by simp [hx]))
    · split at h
      · rename_i v vs' hv hvs
        simp only [Option.some.injEq] at h
        subst h
        intro q hq
        simp only [List.mem_cons] at hq
        rcases hq with rfl | hq
        · exact convertFile_named mode p _ _ _ hv (hg rf (by simp))
        · exact ih vs' hvs (fun x hx => hg x (by simp [hx])) q hq
      · cases h

/-! ## part A.5: from a definition of the program back to a symbol of a transmitted file -/

theorem AllPairs.exists_of_mem_left {α β : Type} {R : α → β → Prop} {as : List α} {bs : List β} (h : AllPairs R as bs)
    {a : α} (ha : a ∈ as) : ∃ b ∈ bs, R a b := by
  induction h with
  | nil => cases ha
  | cons hr _ ih =>
    simp only [List.mem_cons] at ha
    rcases ha with rfl | ha
    · exact ⟨_, by simp, hr⟩
    · obtain ⟨b, hb, hrb⟩ := ih ha
      exact ⟨b, by simp [hb], hrb⟩

/-- `id` is module ++ "::" ++ identifier of a named symbol, of one of the given kinds, of one of the files -/
def EntityIn (files : List SliceFileV) (kinds : List String) (id : Bytes) : Prop :=
  ∃ f ∈ files, ∃ s ∈ f.contents, ∃ k n, s.head = some (k, n) ∧ k ∈ kinds ∧
    id = f.moduleDeclaration.identifier ++ sb "::" ++ n

/-- every definition of every file of the program is a named symbol (same kind, same identifier) of a transmitted file
    whose module identifier is the file's module path -/
theorem def_transmitted (mode : DocMode) (t : Table) (fs : List ReqFile) (vs : List (Bool × SliceFileV))
    (h : convertAll mode t fs = some vs) (hg : ∀ rf ∈ fs, fileResolves t rf.file = true)
    (f : SFile) (hf : f ∈ programOf fs) (d : Def) (hd : d ∈ f.defs) :
    ∃ q ∈ vs, ∃ s ∈ q.2.contents, s.head = some (d.kind, sb d.name) ∧
      sb (scopedId d.name f.modPath) = q.2.moduleDeclaration.identifier ++ sb "::" ++ sb d.name := by
  simp only [programOf, List.mem_map] at hf
  obtain ⟨rf, hrf, rfl⟩ := hf
  have hg' := hg rf hrf
  unfold fileResolves at hg'
  cases hm : rf.file.module with
  | none =>
    rw [hm] at hg'
    simp only [List.isEmpty_iff] at hg'
    rw [hg'] at hd; cases hd
  | some m =>
    rw [hm] at hg'
    simp only [Bool.and_eq_true, Bool.not_eq_true'] at hg'
    have htr : rf ∈ transmitted fs := by
      simp only [transmitted, List.mem_filter]
      exact ⟨hrf, by simp [hm]⟩
    obtain ⟨q, hq, _, m', hm', _, hmod, _, _, hheads⟩ := (convertAll_described mode t fs vs h).exists_of_mem_left htr
    rw [hm] at hm'
    cases hm'
    have hmem : (d.kind, sb d.name) ∈ q.2.contents.filterMap SymbolV.head := by
      rw [hheads]; exact List.mem_map.mpr ⟨d, hd, rfl⟩
    obtain ⟨s, hs, hhead⟩ := List.mem_filterMap.mp hmem
    refine ⟨q, hq, s, hs, hhead, ?_⟩
    rw [hmod]
    simp only [SFile.modPath, hm]
    exact sb_scopedId _ _ hg'.1

theorem Def.kind_of_nodeKind (d : Def) :
    (d.nodeKind = .struct → d.kind = "struct") ∧ (d.nodeKind = .enum → d.kind = "enum") ∧
    (d.nodeKind = .custom → d.kind = "custom") ∧ (d.nodeKind = .interface → d.kind = "interface") := by
  cases d <;> simp [Def.nodeKind, Def.kind]

theorem mem_of_mem_split (vs : List (Bool × SliceFileV)) (q : Bool × SliceFileV) (hq : q ∈ vs) :
    q.2 ∈ (vs.filter (·.1)).map (·.2) ++ (vs.filter (fun x => !x.1)).map (·.2) := by
  simp only [List.mem_append, List.mem_map, List.mem_filter]
  cases hb : q.1
  · exact Or.inr ⟨q, ⟨hq, by simp [hb]⟩, rfl⟩
  · exact Or.inl ⟨q, ⟨hq, hb⟩, rfl⟩

theorem split_mem (vs : List (Bool × SliceFileV)) (v : SliceFileV)
    (hv : v ∈ (vs.filter (·.1)).map (·.2) ++ (vs.filter (fun x => !x.1)).map (·.2)) : ∃ q ∈ vs, q.2 = v := by
  simp only [List.mem_append, List.mem_map, List.mem_filter] at hv
  rcases hv with ⟨q, ⟨hq, _⟩, rfl⟩ | ⟨q, ⟨hq, _⟩, rfl⟩ <;> exact ⟨q, hq, rfl⟩

/-- **named ids exist** (the statement of Props/C08 `named_ids_exist`, on the pair list) -/
theorem named_ids_exist_all (mode : DocMode) (fs : List ReqFile) (srcs refs : List SliceFileV)
    (h : convert mode fs = some (srcs, refs)) (hg : AllResolve fs = true) :
    ∀ f ∈ srcs ++ refs, ∀ s ∈ f.contents,
      (∀ r ∈ s.trefs, ∀ id, r.typeId = .named id →
        (∃ p ∈ Prim.all, id = sb p.kw) ∨ EntityIn (srcs ++ refs) ["struct", "enum", "custom"] id) ∧
      (∀ v, s = .interface v → ∀ b ∈ v.bases, EntityIn (srcs ++ refs) ["interface"] b) := by
  unfold convert at h
  cases hvs : convertAll mode (buildTable (programOf fs)) fs with
  | none => rw [hvs] at h; cases h
  | some vs =>
    rw [hvs] at h
    simp only [Option.some.injEq, Prod.mk.injEq] at h
    obtain ⟨rfl, rfl⟩ := h
    have hgf : ∀ rf ∈ fs, fileResolves (buildTable (programOf fs)) rf.file = true := by
      intro rf hrf
      exact List.all_eq_true.mp hg rf.file (List.mem_map.mpr ⟨rf, hrf, rfl⟩)
    -- a definition of the program is a symbol of a transmitted file
    have back : ∀ (kinds : List String) (f : SFile), f ∈ programOf fs → ∀ d ∈ f.defs, d.kind ∈ kinds →
        EntityIn ((vs.filter (·.1)).map (·.2) ++ (vs.filter (fun x => !x.1)).map (·.2)) kinds
          (sb (scopedId d.name f.modPath)) := by
      intro kinds f hf d hd hk
      obtain ⟨q, hq, s, hs, hhead, hid⟩ := def_transmitted mode _ fs vs hvs hgf f hf d hd
      exact ⟨q.2, mem_of_mem_split vs q hq, s, hs, d.kind, sb d.name, hhead, hk, hid⟩
    intro v hv s hs
    obtain ⟨q, hq, rfl⟩ := split_mem vs v hv
    obtain ⟨hrefs, hbases⟩ := convertAll_named mode (programOf fs) fs vs hvs hgf q hq s hs
    refine ⟨?_, ?_⟩
    · intro r hr id hid
      rcases hrefs r hr id hid with hp | ⟨f, hf, d, hd, hk, rfl⟩
      · exact Or.inl hp
      · refine Or.inr (back _ f hf d hd ?_)
        obtain ⟨k1, k2, k3, _⟩ := d.kind_of_nodeKind
        rcases hk with hk | hk | hk
        · rw [k1 hk]; simp
        · rw [k2 hk]; simp
        · rw [k3 hk]; simp
    · intro iv hiv b hb
      obtain ⟨f, hf, d, hd, hk, rfl⟩ := hbases iv hiv b hb
      refine back _ f hf d hd ?_
      rw [d.kind_of_nodeKind.2.2.2 hk]; simp

/-! ## part A.6: resolved doc-comment links name entities declared in transmitted files -/

theorem defEntries_entity (f : SFile) (i : Nat) (d : Def) (hd : d ∈ f.defs)
    (e : String × NodeInfo) (he : e ∈ defEntries i f.modPath d) :
    e.2.kind = .parameter ∨ EntityOf f e.2.key e.2.kind e.2.ident := by
  cases d with
  | struct doc attrs compact name fields =>
    simp only [defEntries, List.mem_append, List.mem_singleton, fieldEntries, List.mem_map] at he
    rcases he with ⟨x, hx, rfl⟩ | rfl
    · exact Or.inr (EntityOf.field doc attrs compact name fields x hd hx)
    · exact Or.inr (EntityOf.defn _ hd)
  | iface doc attrs name bases ops =>
    simp only [defEntries, List.mem_append, List.mem_singleton, List.mem_flatMap, opEntries, paramEntries, List.mem_map] at he
    rcases he with ⟨o, ho, (⟨x, _, rfl⟩ | ⟨x, _, rfl⟩) | rfl⟩ | rfl
    · exact Or.inl rfl
    · exact Or.inl rfl
    · exact Or.inr (EntityOf.operation doc attrs name bases ops o hd ho)
    · exact Or.inr (EntityOf.defn _ hd)
  | enum doc attrs compact unchecked name underlying es =>
    simp only [defEntries, List.mem_append, List.mem_singleton, List.mem_flatMap, enumeratorEntries, fieldEntries, List.mem_map] at he
    rcases he with ⟨x, hx, ⟨y, hy, rfl⟩ | rfl⟩ | rfl
    · cases hfs : x.fields with
      | none => rw [hfs] at hy; simp at hy
      | some fs =>
        rw [hfs] at hy
        exact Or.inr (EntityOf.enumeratorField doc attrs compact unchecked name underlying es x fs y hd hx hfs hy)
    · exact Or.inr (EntityOf.enumerator doc attrs compact unchecked name underlying es x hd hx)
    · exact Or.inr (EntityOf.defn _ hd)
  | custom doc attrs name =>
    simp only [defEntries, List.mem_singleton] at he
    subst he
    exact Or.inr (EntityOf.defn _ hd)
  | alias doc attrs name ty =>
    simp only [defEntries, List.mem_singleton] at he
    subst he
    exact Or.inr (EntityOf.defn _ hd)

/-- a stored node that is not a module, a parameter or a primitive is an entity — a definition, a field, an operation, an
    enumerator or an enumerator's field — declared in a file of the program, stored under its scoped identifier -/
theorem buildTable_entity (p : Program) (e : String × NodeInfo) (he : e ∈ buildTable p)
    (hk : e.2.kind ≠ .module ∧ e.2.kind ≠ .parameter ∧ e.2.kind ≠ .primitive) :
    ∃ f ∈ p, EntityOf f e.2.key e.2.kind e.2.ident := by
  simp only [buildTable, List.mem_append, List.mem_flatMap] at he
  rcases he with he | ⟨⟨f, i⟩, hfi, he⟩
  · simp only [primTable, List.mem_map] at he
    obtain ⟨pr, _, rfl⟩ := he
    exact absurd rfl hk.2.2
  · have hf : f ∈ p := List.fst_mem_of_mem_zipIdx hfi
    simp only [fileEntries, List.mem_append, List.mem_flatMap] at he
    rcases he with ⟨d, hd, he⟩ | he
    · rcases defEntries_entity f i d hd e he with h | h
      · exact absurd h hk.2.1
      · exact ⟨f, hf, h⟩
    · cases hm : f.module with
      | none => rw [hm] at he; simp at he
      | some m =>
        rw [hm] at he
        simp only [List.mem_singleton] at he
        subst he
        exact absurd rfl hk.1

theorem EntityOf.has_def {f : SFile} {key : String} {kind : NodeKind} {ident : String} (h : EntityOf f key kind ident) :
    ∃ d, d ∈ f.defs := by
  cases h with
  | defn d hd => exact ⟨d, hd⟩
  | field doc attrs compact name fields fld hd _ => exact ⟨_, hd⟩
  | operation doc attrs name bases ops o hd _ => exact ⟨_, hd⟩
  | enumerator doc attrs compact unchecked name underlying es e hd _ => exact ⟨_, hd⟩
  | enumeratorField doc attrs compact unchecked name underlying es e fs fld hd _ _ _ => exact ⟨_, hd⟩

/-- `convert_doc_comment_link` on a link that resolves to an entity: the entity's scoped identifier is transmitted, and
    the entity is declared in a transmitted file -/
theorem resolved_link_entity (fs : List ReqFile) (hg : AllResolve fs = true) (selfKey id : String) (n : NodeInfo)
    (hf : findNodeWithScope (buildTable (programOf fs)) id selfKey = some n)
    (hk : n.kind ≠ .module ∧ n.kind ≠ .parameter ∧ n.kind ≠ .primitive) :
    convLink (buildTable (programOf fs)) selfKey id = sb n.key ∧
    ∃ rf ∈ transmitted fs, EntityOf rf.file n.key n.kind n.ident := by
  refine ⟨?_, ?_⟩
  · simp only [convLink, hf]
    obtain ⟨h1, h2, h3⟩ := hk
    simp [h1, h2, h3]
  · obtain ⟨k, hmem⟩ := findNodeWithScope_mem _ _ _ _ hf
    obtain ⟨f, hfp, hent⟩ := buildTable_entity (programOf fs) (k, n) hmem hk
    simp only [programOf, List.mem_map] at hfp
    obtain ⟨rf, hrf, rfl⟩ := hfp
    refine ⟨rf, ?_, hent⟩
    simp only [transmitted, List.mem_filter]
    refine ⟨hrf, ?_⟩
    have hg' := List.all_eq_true.mp hg rf.file (List.mem_map.mpr ⟨rf, hrf, rfl⟩)
    unfold fileResolves at hg'
    cases hm : rf.file.module with
    | none =>
      rw [hm] at hg'
      simp only [List.isEmpty_iff] at hg'
      obtain ⟨d, hd⟩ := hent.has_def
      rw [hg'] at hd; cases hd
    | some m => simp

/-- …and a link that does not resolve, or resolves to a module, a parameter or a primitive, is transmitted as written -/
theorem unresolved_link_verbatim (t : Table) (selfKey id : String)
    (h : findNodeWithScope t id selfKey = none ∨
      ∃ n, findNodeWithScope t id selfKey = some n ∧ (n.kind = .module ∨ n.kind = .parameter ∨ n.kind = .primitive)) :
    convLink t selfKey id = sb id := by
  rcases h with h | ⟨n, h, hk⟩
  · simp only [convLink, h]
  · simp only [convLink, h]
    rcases hk with hk | hk | hk <;> simp [hk]

/-! ## part B.1: the description universe — the request without the symbol vector -/

mutual
/-- a type as a tree: a name (primitive keyword or scoped identifier) or an anonymous type with its element types -/
inductive TyShape where
  | named (id : Bytes)
  | seq (e : RefShape)
  | dict (k v : RefShape)
  | result (s f : RefShape)
  | dangling (j : Nat)        -- a numeric id that does not name an earlier anonymous-type symbol (never in a converted file)
  deriving Repr, DecidableEq
/-- a type reference as a tree: the type, `?`, the attributes -/
inductive RefShape where
  | mk (ty : TyShape) (opt : Bool) (attrs : List AttributeV)
  deriving Repr, DecidableEq
end

structure FieldD where
  entityInfo : EntityInfoV
  tag : Option Int
  dataType : RefShape
  deriving Repr, DecidableEq

structure OperationD where
  entityInfo : EntityInfoV
  isIdempotent : Bool
  parameters : List FieldD
  hasStreamedParameter : Bool
  returnType : List FieldD
  hasStreamedReturn : Bool
  deriving Repr, DecidableEq

structure VariantD where
  entityInfo : EntityInfoV
  discriminant : Int
  fields : List FieldD
  deriving Repr, DecidableEq

/-- one definition: what its symbol says, with every type reference as a tree -/
inductive DefD where
  | struct (info : EntityInfoV) (isCompact : Bool) (fields : List FieldD)
  | interface (info : EntityInfoV) (bases : List Bytes) (operations : List OperationD)
  | basicEnum (info : EntityInfoV) (isUnchecked : Bool) (underlying : Bytes) (enumerators : List EnumeratorV)
  | variantEnum (info : EntityInfoV) (isCompact isUnchecked : Bool) (variants : List VariantD)
  | customType (info : EntityInfoV)
  | typeAlias (info : EntityInfoV) (underlyingType : RefShape)
  deriving Repr, DecidableEq

structure FileD where
  path : Bytes
  moduleDeclaration : ModuleV
  attributes : List AttributeV
  definitions : List DefD
  deriving Repr, DecidableEq

/-! ### reading a converted file back: numeric ids dereferenced -/

/-- the type a type id stands for in the vector `syms`; `n` bounds the indices followed (`anon j` needs `j < n`) -/
def expandId (syms : Syms) : Nat → TypeIdV → TyShape
  | _, .named id => .named id
  | 0, .anon j => .dangling j
  | n + 1, .anon j =>
    if j ≤ n then
      match syms[j]? with
      | some (.sequenceType v) =>
        .seq (.mk (expandId syms n v.elementType.typeId) v.elementType.isOptional v.elementType.typeAttributes)
      | some (.dictionaryType v) =>
        .dict (.mk (expandId syms n v.keyType.typeId) v.keyType.isOptional v.keyType.typeAttributes)
              (.mk (expandId syms n v.valueType.typeId) v.valueType.isOptional v.valueType.typeAttributes)
      | some (.resultType v) =>
        .result (.mk (expandId syms n v.successType.typeId) v.successType.isOptional v.successType.typeAttributes)
                (.mk (expandId syms n v.failureType.typeId) v.failureType.isOptional v.failureType.typeAttributes)
      | _ => .dangling j
    else .dangling j

def expandRef (syms : Syms) (n : Nat) (r : TypeRefV) : RefShape :=
  .mk (expandId syms n r.typeId) r.isOptional r.typeAttributes

/-- a type reference of a file whose symbol vector is `syms`, as a tree -/
def readRef (syms : Syms) (r : TypeRefV) : RefShape := expandRef syms syms.length r

def readField (syms : Syms) (f : FieldV) : FieldD := ⟨f.entityInfo, f.tag, readRef syms f.dataType⟩

def readOp (syms : Syms) (o : OperationV) : OperationD :=
  ⟨o.entityInfo, o.isIdempotent, o.parameters.map (readField syms), o.hasStreamedParameter,
   o.returnType.map (readField syms), o.hasStreamedReturn⟩

def readVariant (syms : Syms) (v : VariantV) : VariantD := ⟨v.entityInfo, v.discriminant, v.fields.map (readField syms)⟩

/-- a named symbol as a definition description (`none` for the three anonymous-type kinds, which only exist to be
    referred to by index) -/
def readSym (syms : Syms) : SymbolV → Option DefD
  | .interface v => some (.interface v.entityInfo v.bases (v.operations.map (readOp syms)))
  | .basicEnum v => some (.basicEnum v.entityInfo v.isUnchecked v.underlying v.enumerators)
  | .variantEnum v => some (.variantEnum v.entityInfo v.isCompact v.isUnchecked (v.variants.map (readVariant syms)))
  | .struct v => some (.struct v.entityInfo v.isCompact (v.fields.map (readField syms)))
  | .customType v => some (.customType v.entityInfo)
  | .typeAlias v => some (.typeAlias v.entityInfo (readRef syms v.underlyingType))
  | .sequenceType _ | .dictionaryType _ | .resultType _ => none

/-- what a generator reads from a transmitted file: path, module, file attributes, and the named symbols in order with
    every numeric type id replaced by the anonymous type it points to -/
def readFile (v : SliceFileV) : FileD :=
  ⟨v.path, v.moduleDeclaration, v.attributes, v.contents.filterMap (readSym v.contents)⟩

/-! ### the description of a program, by direct recursion on the abstract syntax (no symbol vector) -/

mutual
/-- a written type reference as a tree: names resolved in the scope they are written in, aliases flattened (the
    attributes written on the aliases' underlying types appended), anonymous types kept as trees -/
def shapeOfTRef (t : Table) (scope : String) : Nat → TRef → RefShape
  | 0, _ => .mk (.named []) false []
  | fuel + 1, .mk attrs ty opt =>
    match ty with
    | .named id =>
      match resolveNamed t .type id scope with
      | .ok (.node n, extra) =>
        .mk (.named (sb (if n.kind == .primitive then n.ident else n.key))) opt (convAttrs (attrs ++ extra))
      | .ok (.expr e s, extra) => .mk (shapeOfTy t s fuel e) opt (convAttrs (attrs ++ extra))
      | .error _ => .mk (.named (sb id)) opt (convAttrs attrs)
    | e => .mk (shapeOfTy t scope fuel e) opt (convAttrs attrs)
def shapeOfTy (t : Table) (scope : String) : Nat → TyExpr → TyShape
  | 0, _ => .named []
  | _ + 1, .prim p => .named (sb p.kw)
  | _ + 1, .named id => .named (sb id)
  | fuel + 1, .seq e => .seq (shapeOfTRef t scope fuel e)
  | fuel + 1, .dict k v => .dict (shapeOfTRef t scope fuel k) (shapeOfTRef t scope fuel v)
  | fuel + 1, .result s f => .result (shapeOfTRef t scope fuel s) (shapeOfTRef t scope fuel f)
end

def descField (t : Table) (scope ckey : String) (f : Field) : FieldD :=
  ⟨entityInfoOf t (scopedId f.name ckey) f.name f.attrs f.doc, f.tag.map tagI32, shapeOfTRef t scope elabFuel f.ty⟩

def descParam (mode : DocMode) (t : Table) (scope opKey : String) (opDoc : Option ReqDoc.ParsedDoc) (isReturn single : Bool)
    (p : Param) : FieldD :=
  ⟨{ identifier := sb p.name, attributes := convAttrs p.attrs, comment := paramDoc mode t opKey opDoc isReturn single p.name },
   p.tag.map tagI32, shapeOfTRef t scope elabFuel p.ty⟩

def descOp (mode : DocMode) (t : Table) (scope ikey : String) (o : Op) : OperationD :=
  ⟨entityInfoOf t (scopedId o.name ikey) o.name o.attrs o.doc, o.idempotent,
   o.params.map (descParam mode t scope (scopedId o.name ikey) (ReqDoc.parseDoc o.doc) false false), lastStream o.params,
   (retParams o.ret).map (descParam mode t scope (scopedId o.name ikey) (ReqDoc.parseDoc o.doc) true (isSingleRet o.ret)),
   lastStream (retParams o.ret)⟩

/-- a base: the scoped identifier of the interface the written name resolves to -/
def descBase (t : Table) (scope : String) (b : TRef) : Bytes :=
  match b.ty with
  | .named id =>
    match resolveNamed t .interface id scope with
    | .ok (.node n, _) => sb n.key
    | _ => sb id
  | _ => sb "?"

def descEnumerator (t : Table) (ekey : String) (e : Enumerator × Int) : EnumeratorV :=
  ⟨entityInfoOf t (scopedId e.1.name ekey) e.1.name e.1.attrs e.1.doc, (e.2.natAbs % 2 ^ 64 : Nat), decide (e.2 < 0)⟩

def descVariant (t : Table) (scope ekey : String) (e : Enumerator × Int) : VariantD :=
  ⟨entityInfoOf t (scopedId e.1.name ekey) e.1.name e.1.attrs e.1.doc, e.2,
   (e.1.fields.getD []).map (descField t scope (scopedId e.1.name ekey))⟩

/-- one definition, member by member; enumerators are paired with their values (`enumValues`: the written literal, else
    the previous value + 1, starting from 0) -/
def descDef (mode : DocMode) (t : Table) (scope : String) : Def → DefD
  | .struct doc attrs compact name fields =>
    .struct (entityInfoOf t (scopedId name scope) name attrs doc) compact (fields.map (descField t scope (scopedId name scope)))
  | .iface doc attrs name bases ops =>
    .interface (entityInfoOf t (scopedId name scope) name attrs doc) (bases.map (descBase t scope))
      (ops.map (descOp mode t scope (scopedId name scope)))
  | .enum doc attrs compact unchecked name underlying es =>
    match underlying with
    | some u =>
      .basicEnum (entityInfoOf t (scopedId name scope) name attrs doc) unchecked (sb (underlyingString t scope u))
        ((es.zip (enumValues none es)).map (descEnumerator t (scopedId name scope)))
    | none =>
      .variantEnum (entityInfoOf t (scopedId name scope) name attrs doc) compact unchecked
        ((es.zip (enumValues none es)).map (descVariant t scope (scopedId name scope)))
  | .custom doc attrs name => .customType (entityInfoOf t (scopedId name scope) name attrs doc)
  | .alias doc attrs name ty => .typeAlias (entityInfoOf t (scopedId name scope) name attrs doc) (shapeOfTRef t scope elabFuel ty)

/-- one file (`none` when it has no module declaration: such a file is not transmitted) -/
def describeFile (mode : DocMode) (t : Table) (rf : ReqFile) : Option FileD :=
  match rf.file.module with
  | none => none
  | some m =>
    some ⟨sb rf.path, ⟨sb m.path, convAttrs m.attrs⟩, convAttrs rf.file.fileAttrs, rf.file.defs.map (descDef mode t m.path)⟩

/-- **the description of the request**: the source files (`isSource = true`) or the reference files (`false`), in
    compilation order, each with its definitions in source order -/
def describe (mode : DocMode) (fs : List ReqFile) (isSource : Bool) : List FileD :=
  (fs.filter (fun rf => rf.isSource == isSource)).filterMap (describeFile mode (buildTable (programOf fs)))

/-! ## part B.2: dereferencing is stable when the vector grows -/

theorem expandId_named (syms : Syms) (n : Nat) (id : Bytes) : expandId syms n (.named id) = .named id := by
  cases n <;> rfl

theorem expandId_stable (syms more : Syms) (hok : SymsOK syms) :
    ∀ (f1 f2 : Nat) (id : TypeIdV) (n : Nat), n ≤ syms.length → n ≤ f1 → n ≤ f2 → (∀ j, id = .anon j → j < n) →
      expandId (syms ++ more) f1 id = expandId syms f2 id := by
  intro f1
  induction f1 with
  | zero =>
    intro f2 id n _ h1 _ hid
    cases id with
    | named s => rw [expandId_named, expandId_named]
    | anon j => have := hid j rfl; omega
  | succ f1 ih =>
    intro f2 id n hn h1 h2 hid
    cases id with
    | named s => rw [expandId_named, expandId_named]
    | anon j =>
      have hj := hid j rfl
      obtain ⟨f2', rfl⟩ : ∃ f2', f2 = f2' + 1 := ⟨f2 - 1, by omega⟩
      have e1 : j ≤ f1 := by omega
      have e2 : j ≤ f2' := by omega
      simp only [expandId, e1, e2, if_true]
      rw [List.getElem?_append_left (by omega)]
      cases hs : syms[j]? with
      | none => rfl
      | some s =>
        have sub : ∀ r ∈ s.trefs, expandId (syms ++ more) f1 r.typeId = expandId syms f2' r.typeId := by
          intro r hr
          exact ih f2' r.typeId j (by omega) e1 e2 (fun j' hj' => ((hok j s hs r hr) j' hj').1)
        cases s with
        | sequenceType v =>
          simp only
          rw [sub v.elementType (by simp [SymbolV.trefs])]
        | dictionaryType v =>
          simp only
          rw [sub v.keyType (by simp [SymbolV.trefs]), sub v.valueType (by simp [SymbolV.trefs])]
        | resultType v =>
          simp only
          rw [sub v.successType (by simp [SymbolV.trefs]), sub v.failureType (by simp [SymbolV.trefs])]
        | interface v => rfl
        | basicEnum v => rfl
        | variantEnum v => rfl
        | struct v => rfl
        | customType v => rfl
        | typeAlias v => rfl

/-- a reference whose numeric id is valid in `syms` reads the same in every extension of `syms` -/
theorem readRef_stable (syms more : Syms) (hok : SymsOK syms) (r : TypeRefV) (hid : IdOK syms syms.length r.typeId) :
    readRef (syms ++ more) r = readRef syms r := by
  simp only [readRef, expandRef]
  rw [expandId_stable syms more hok _ syms.length r.typeId syms.length (Nat.le_refl _) (by simp) (Nat.le_refl _)
    (fun j hj => (hid j hj).1)]

theorem map_congr_mem {α β : Type} (f g : α → β) (l : List α) (h : ∀ x ∈ l, f x = g x) : l.map f = l.map g := by
  induction l with
  | nil => rfl
  | cons a l ih =>
    simp only [List.map_cons]
    rw [h a (by simp), ih (fun x hx => h x (by simp [hx]))]

theorem readField_stable (syms more : Syms) (hok : SymsOK syms) (f : FieldV) (hid : IdOK syms syms.length f.dataType.typeId) :
    readField (syms ++ more) f = readField syms f := by
  simp only [readField, readRef_stable syms more hok _ hid]

theorem readFields_stable (syms more : Syms) (hok : SymsOK syms) (fs : List FieldV)
    (hid : ∀ f ∈ fs, IdOK syms syms.length f.dataType.typeId) :
    fs.map (readField (syms ++ more)) = fs.map (readField syms) :=
  map_congr_mem _ _ _ (fun f hf => readField_stable syms more hok f (hid f hf))

theorem readOp_stable (syms more : Syms) (hok : SymsOK syms) (o : OperationV) (hid : ∀ id ∈ opIds o, IdOK syms syms.length id) :
    readOp (syms ++ more) o = readOp syms o := by
  simp only [readOp]
  rw [readFields_stable syms more hok o.parameters (fun f hf => hid _ (by simp only [opIds, List.mem_map]; exact ⟨f, by simp [hf], rfl⟩)),
      readFields_stable syms more hok o.returnType (fun f hf => hid _ (by simp only [opIds, List.mem_map]; exact ⟨f, by simp [hf], rfl⟩))]

theorem readVariant_stable (syms more : Syms) (hok : SymsOK syms) (v : VariantV)
    (hid : ∀ id ∈ variantIds v, IdOK syms syms.length id) :
    readVariant (syms ++ more) v = readVariant syms v := by
  simp only [readVariant]
  rw [readFields_stable syms more hok v.fields (fun f hf => hid _ (by simp only [variantIds, List.mem_map]; exact ⟨f, hf, rfl⟩))]

theorem readSym_stable (syms more : Syms) (hok : SymsOK syms) (s : SymbolV)
    (hid : ∀ r ∈ s.trefs, IdOK syms syms.length r.typeId) : readSym (syms ++ more) s = readSym syms s := by
  cases s with
  | interface v =>
    simp only [readSym]
    rw [map_congr_mem _ _ _ (fun o ho => readOp_stable syms more hok o (by
      intro id hid'
      simp only [opIds, List.mem_map] at hid'
      obtain ⟨x, hx, rfl⟩ := hid'
      exact hid _ (by simp only [SymbolV.trefs, List.mem_flatMap, List.mem_map]; exact ⟨o, ho, x, hx, rfl⟩)))]
  | basicEnum v => rfl
  | variantEnum v =>
    simp only [readSym]
    rw [map_congr_mem _ _ _ (fun x hx => readVariant_stable syms more hok x (by
      intro id hid'
      simp only [variantIds, List.mem_map] at hid'
      obtain ⟨y, hy, rfl⟩ := hid'
      exact hid _ (by simp only [SymbolV.trefs, List.mem_flatMap, List.mem_map]; exact ⟨x, hx, y, hy, rfl⟩)))]
  | struct v =>
    simp only [readSym]
    rw [readFields_stable syms more hok v.fields (fun f hf => hid _ (by simp only [SymbolV.trefs, List.mem_map]; exact ⟨f, hf, rfl⟩))]
  | customType v => rfl
  | typeAlias v =>
    simp only [readSym]
    rw [readRef_stable syms more hok _ (hid _ (by simp [SymbolV.trefs]))]
  | sequenceType v => rfl
  | dictionaryType v => rfl
  | resultType v => rfl

/-! ## part B.3: reading the conversion back gives the description -/

theorem expand_last (b : Syms) (sym : SymbolV) :
    expandId (b ++ [sym]) (b ++ [sym]).length (.anon b.length) =
      (match sym with
       | .sequenceType v => .seq (expandRef (b ++ [sym]) b.length v.elementType)
       | .dictionaryType v => .dict (expandRef (b ++ [sym]) b.length v.keyType) (expandRef (b ++ [sym]) b.length v.valueType)
       | .resultType v => .result (expandRef (b ++ [sym]) b.length v.successType) (expandRef (b ++ [sym]) b.length v.failureType)
       | _ => .dangling b.length) := by
  have hl : (b ++ [sym]).length = b.length + 1 := by simp
  rw [hl]
  simp only [expandId, Nat.le_refl, if_true]
  have : (b ++ [sym])[b.length]? = some sym := by simp
  rw [this]
  cases sym <;> rfl

theorem expandRef_push (b : Syms) (sym : SymbolV) (hok : SymsOK b) (r : TypeRefV) (hid : IdOK b b.length r.typeId) :
    expandRef (b ++ [sym]) b.length r = readRef b r := by
  simp only [readRef, expandRef]
  rw [expandId_stable b [sym] hok b.length b.length r.typeId b.length (Nat.le_refl _) (Nat.le_refl _) (Nat.le_refl _)
    (fun j hj => (hid j hj).1)]

/-- `convert_type_ref` / `get_type_id_for`: the returned reference, read in the returned vector, is the written type as a
    tree (mutual induction on the descent bound) -/
theorem convT_shape (t : Table) : ∀ fuel : Nat,
    (∀ (scope : String) (r : TRef) (syms : Syms), SymsOK syms →
      readRef (convTRef t scope fuel r syms).2 (convTRef t scope fuel r syms).1 = shapeOfTRef t scope fuel r) ∧
    (∀ (scope : String) (e : TyExpr) (syms : Syms), SymsOK syms →
      expandId (convTy t scope fuel e syms).2 (convTy t scope fuel e syms).2.length (convTy t scope fuel e syms).1 =
        shapeOfTy t scope fuel e) := by
  intro fuel
  induction fuel with
  | zero =>
    refine ⟨fun scope r syms h => ?_, fun scope e syms h => ?_⟩
    · simp only [convTRef, shapeOfTRef, readRef, expandRef, expandId_named]
    · simp only [convTy, shapeOfTy, expandId_named]
  | succ fuel ih =>
    obtain ⟨ihR, ihT⟩ := ih
    refine ⟨fun scope r syms h => ?_, fun scope e syms h => ?_⟩
    · obtain ⟨attrs, ty, opt⟩ := r
      cases ty with
      | named id =>
        simp only [convTRef, shapeOfTRef]
        cases hres : resolveNamed t .type id scope with
        | error e => simp only [readRef, expandRef, expandId_named]
        | ok res =>
          obtain ⟨tgt, extra⟩ := res
          cases tgt with
          | node n => simp only [readRef, expandRef, expandId_named]
          | expr e s =>
            simp only [readRef, expandRef]
            rw [ihT s e syms h]
      | prim pr => simp only [convTRef, shapeOfTRef, readRef, expandRef]; rw [ihT scope (.prim pr) syms h]
      | seq e => simp only [convTRef, shapeOfTRef, readRef, expandRef]; rw [ihT scope (.seq e) syms h]
      | dict k v => simp only [convTRef, shapeOfTRef, readRef, expandRef]; rw [ihT scope (.dict k v) syms h]
      | result s f => simp only [convTRef, shapeOfTRef, readRef, expandRef]; rw [ihT scope (.result s f) syms h]
    · cases e with
      | prim pr => simp only [convTy, shapeOfTy, expandId_named]
      | named id => simp only [convTy, shapeOfTy, expandId_named]
      | seq e =>
        simp only [convTy, shapeOfTy]
        obtain ⟨g1, i1⟩ := convTRef_inv t scope fuel e syms h
        rw [expand_last]
        simp only
        rw [expandRef_push _ _ g1.ok _ i1, ihR scope e syms h]
      | dict k v =>
        simp only [convTy, shapeOfTy]
        obtain ⟨g1, i1⟩ := convTRef_inv t scope fuel k syms h
        obtain ⟨g2, i2⟩ := convTRef_inv t scope fuel v _ g1.ok
        rw [expand_last]
        simp only
        rw [expandRef_push _ _ g2.ok _ (g2.idOK i1), expandRef_push _ _ g2.ok _ i2, ihR scope v _ g1.ok]
        obtain ⟨new, hnew, _⟩ := g2.ext
        rw [hnew, readRef_stable _ new g1.ok _ i1, ihR scope k syms h]
      | result s f =>
        simp only [convTy, shapeOfTy]
        obtain ⟨g1, i1⟩ := convTRef_inv t scope fuel s syms h
        obtain ⟨g2, i2⟩ := convTRef_inv t scope fuel f _ g1.ok
        rw [expand_last]
        simp only
        rw [expandRef_push _ _ g2.ok _ (g2.idOK i1), expandRef_push _ _ g2.ok _ i2, ihR scope f _ g1.ok]
        obtain ⟨new, hnew, _⟩ := g2.ext
        rw [hnew, readRef_stable _ new g1.ok _ i1, ihR scope s syms h]

theorem convTRef_shape (t : Table) (scope : String) (fuel : Nat) (r : TRef) (syms : Syms) (h : SymsOK syms) :
    readRef (convTRef t scope fuel r syms).2 (convTRef t scope fuel r syms).1 = shapeOfTRef t scope fuel r :=
  (convT_shape t fuel).1 scope r syms h

/-- threading a list through the converter: every output element, read in the final vector, is the description of its
    input element -/
theorem thread_read {α β γ : Type} (step : α → Syms → β × Syms) (ids : β → List TypeIdV) (read : Syms → β → γ) (desc : α → γ)
    (hinv : ∀ a syms, SymsOK syms → Grows syms (step a syms).2 ∧
      ∀ id ∈ ids (step a syms).1, IdOK (step a syms).2 (step a syms).2.length id)
    (hstable : ∀ syms more x, SymsOK syms → (∀ id ∈ ids x, IdOK syms syms.length id) → read (syms ++ more) x = read syms x)
    (hstep : ∀ a syms, SymsOK syms → read (step a syms).2 (step a syms).1 = desc a)
    (thread : List α → Syms → List β × Syms) (hnil : ∀ s, thread [] s = ([], s))
    (hcons : ∀ a as s, thread (a :: as) s = ((step a s).1 :: (thread as (step a s).2).1, (thread as (step a s).2).2)) :
    ∀ (as : List α) (syms : Syms), SymsOK syms →
      (thread as syms).1.map (read (thread as syms).2) = as.map desc := by
  intro as
  induction as with
  | nil => intro syms _; rw [hnil]; rfl
  | cons a as ih =>
    intro syms h
    rw [hcons]
    obtain ⟨g1, i1⟩ := hinv a syms h
    obtain ⟨g2, _⟩ := thread_inv step ids hinv thread hnil hcons as _ g1.ok
    simp only [List.map_cons]
    rw [ih _ g1.ok]
    obtain ⟨new, hnew, _⟩ := g2.ext
    rw [hnew, hstable _ new _ g1.ok i1, hstep a syms h]

theorem convField_inv' (t : Table) (scope ckey : String) (a : Field) (s : Syms) (hs : SymsOK s) :
    Grows s (convField t scope ckey a s).2 ∧
    ∀ id ∈ fieldIds (convField t scope ckey a s).1, IdOK (convField t scope ckey a s).2 (convField t scope ckey a s).2.length id := by
  obtain ⟨g, i⟩ := convTRef_inv t scope elabFuel a.ty s hs
  exact ⟨g, by intro id hid; simp [fieldIds, convField] at hid; subst hid; exact i⟩

theorem convParam_inv' (mode : DocMode) (t : Table) (scope okey : String) (d : Option ReqDoc.ParsedDoc) (ir sg : Bool)
    (a : Param) (s : Syms) (hs : SymsOK s) :
    Grows s (convParam mode t scope okey d ir sg a s).2 ∧
    ∀ id ∈ fieldIds (convParam mode t scope okey d ir sg a s).1,
      IdOK (convParam mode t scope okey d ir sg a s).2 (convParam mode t scope okey d ir sg a s).2.length id := by
  obtain ⟨g, i⟩ := convTRef_inv t scope elabFuel a.ty s hs
  exact ⟨g, by intro id hid; simp [fieldIds, convParam] at hid; subst hid; exact i⟩

theorem readField_stable' (syms more : Syms) (x : FieldV) (hok : SymsOK syms)
    (hid : ∀ id ∈ fieldIds x, IdOK syms syms.length id) : readField (syms ++ more) x = readField syms x :=
  readField_stable syms more hok x (hid _ (by simp [fieldIds]))

theorem convFields_read (t : Table) (scope ckey : String) (fs : List Field) (syms : Syms) (h : SymsOK syms) :
    (convFields t scope ckey fs syms).1.map (readField (convFields t scope ckey fs syms).2) = fs.map (descField t scope ckey) :=
  thread_read (convField t scope ckey) fieldIds readField (descField t scope ckey)
    (convField_inv' t scope ckey) (fun syms more x => readField_stable' syms more x)
    (fun a s hs => by
      simp only [convField, readField, descField]
      rw [convTRef_shape t scope elabFuel a.ty s hs])
    (convFields t scope ckey) (fun s => rfl) (fun a as s => rfl) fs syms h

theorem convParams_read (mode : DocMode) (t : Table) (scope okey : String) (d : Option ReqDoc.ParsedDoc) (ir sg : Bool)
    (ps : List Param) (syms : Syms) (h : SymsOK syms) :
    (convParams mode t scope okey d ir sg ps syms).1.map (readField (convParams mode t scope okey d ir sg ps syms).2) =
      ps.map (descParam mode t scope okey d ir sg) :=
  thread_read (convParam mode t scope okey d ir sg) fieldIds readField (descParam mode t scope okey d ir sg)
    (convParam_inv' mode t scope okey d ir sg) (fun syms more x => readField_stable' syms more x)
    (fun a s hs => by
      simp only [convParam, readField, descParam]
      rw [convTRef_shape t scope elabFuel a.ty s hs])
    (convParams mode t scope okey d ir sg) (fun s => rfl) (fun a as s => rfl) ps syms h

theorem convOp_read (mode : DocMode) (t : Table) (scope ikey : String) (o : Op) (syms : Syms) (h : SymsOK syms) :
    readOp (convOp mode t scope ikey o syms).2 (convOp mode t scope ikey o syms).1 = descOp mode t scope ikey o := by
  obtain ⟨g1, i1⟩ := convParams_inv mode t scope (scopedId o.name ikey) (ReqDoc.parseDoc o.doc) false false o.params syms h
  obtain ⟨g2, _⟩ := convParams_inv mode t scope (scopedId o.name ikey) (ReqDoc.parseDoc o.doc) true (isSingleRet o.ret)
    (retParams o.ret) _ g1.ok
  have e1 := convParams_read mode t scope (scopedId o.name ikey) (ReqDoc.parseDoc o.doc) false false o.params syms h
  have e2 := convParams_read mode t scope (scopedId o.name ikey) (ReqDoc.parseDoc o.doc) true (isSingleRet o.ret)
    (retParams o.ret) _ g1.ok
  simp only [convOp, readOp, descOp]
  rw [e2]
  obtain ⟨new, hnew, _⟩ := g2.ext
  rw [hnew, readFields_stable _ new g1.ok _ (fun f hf => i1 f hf _ (by simp [fieldIds])), e1]

theorem convOps_read (mode : DocMode) (t : Table) (scope ikey : String) (os : List Op) (syms : Syms) (h : SymsOK syms) :
    (convOps mode t scope ikey os syms).1.map (readOp (convOps mode t scope ikey os syms).2) = os.map (descOp mode t scope ikey) :=
  thread_read (convOp mode t scope ikey) opIds readOp (descOp mode t scope ikey)
    (fun a s hs => convOp_inv mode t scope ikey a s hs) (fun syms more x hok hid => readOp_stable syms more hok x hid)
    (fun a s hs => convOp_read mode t scope ikey a s hs)
    (convOps mode t scope ikey) (fun _ => rfl) (fun _ _ _ => rfl) os syms h

theorem convVariant_inv' (t : Table) (scope ekey : String) (a : Enumerator × Int) (s : Syms) (hs : SymsOK s) :
    Grows s (convVariant t scope ekey a.1 a.2 s).2 ∧
    ∀ id ∈ variantIds (convVariant t scope ekey a.1 a.2 s).1,
      IdOK (convVariant t scope ekey a.1 a.2 s).2 (convVariant t scope ekey a.1 a.2 s).2.length id := by
  obtain ⟨g, i⟩ := convFields_inv t scope (scopedId a.1.name ekey) (a.1.fields.getD []) s hs
  refine ⟨g, ?_⟩
  intro id hid
  simp only [variantIds, convVariant, List.mem_map] at hid
  obtain ⟨x, hx, rfl⟩ := hid
  exact i x hx _ (by simp [fieldIds])

theorem convVariants_read (t : Table) (scope ekey : String) (es : List (Enumerator × Int)) (syms : Syms) (h : SymsOK syms) :
    (convVariants t scope ekey es syms).1.map (readVariant (convVariants t scope ekey es syms).2) =
      es.map (descVariant t scope ekey) :=
  thread_read (fun (e : Enumerator × Int) s => convVariant t scope ekey e.1 e.2 s) variantIds readVariant (descVariant t scope ekey)
    (convVariant_inv' t scope ekey) (fun syms more x hok hid => readVariant_stable syms more hok x hid)
    (fun a s hs => by
      simp only [convVariant, readVariant, descVariant]
      rw [convFields_read t scope (scopedId a.1.name ekey) (a.1.fields.getD []) s hs])
    (convVariants t scope ekey) (fun _ => rfl) (fun a _ _ => by obtain ⟨e, v⟩ := a; rfl) es syms h

/-- one top-level definition: its symbol, read in the vector after its conversion, is its description -/
theorem convDef_read (mode : DocMode) (t : Table) (scope : String) (d : Def) (syms : Syms) (h : SymsOK syms) :
    readSym (convDef mode t scope d syms).2 (convDef mode t scope d syms).1 = some (descDef mode t scope d) := by
  cases d with
  | struct doc attrs compact name fields =>
    simp only [convDef, readSym, descDef]
    rw [convFields_read t scope (scopedId name scope) fields syms h]
  | iface doc attrs name bases ops =>
    simp only [convDef, readSym, descDef]
    rw [convOps_read mode t scope (scopedId name scope) ops syms h]
    rfl
  | enum doc attrs compact unchecked name underlying es =>
    cases underlying with
    | some u => simp only [convDef, readSym, descDef]; rfl
    | none =>
      simp only [convDef, readSym, descDef]
      rw [convVariants_read t scope (scopedId name scope) _ syms h]
  | custom doc attrs name => rfl
  | alias doc attrs name ty =>
    simp only [convDef, readSym, descDef]
    rw [convTRef_shape t scope elabFuel ty syms h]

theorem readSym_anon (syms : Syms) (s : SymbolV) (h : s.isAnon = true) : readSym syms s = none := by
  cases s <;> simp [SymbolV.isAnon] at h <;> rfl

theorem filterMap_readSym_anon (syms new : Syms) (h : ∀ s ∈ new, s.isAnon = true) : new.filterMap (readSym syms) = [] := by
  induction new with
  | nil => rfl
  | cons s new ih =>
    simp only [List.filterMap_cons, readSym_anon syms s (h s (by simp))]
    exact ih (fun x hx => h x (by simp [hx]))

/-- `SliceFileContentsConverter::convert`: the vector only grows, and the symbols added, read in the final vector, are the
    descriptions of the definitions, in order -/
theorem convDefs_read (mode : DocMode) (t : Table) (scope : String) (ds : List Def) :
    ∀ syms, SymsOK syms → ∃ more, convDefs mode t scope ds syms = syms ++ more ∧
      more.filterMap (readSym (convDefs mode t scope ds syms)) = ds.map (descDef mode t scope) := by
  induction ds with
  | nil => intro syms _; exact ⟨[], by simp [convDefs], rfl⟩
  | cons d ds ih =>
    intro syms h
    simp only [convDefs]
    obtain ⟨g, i⟩ := convDef_inv mode t scope d syms h
    have hok1 := SymsOK_push _ _ g.ok i
    obtain ⟨more', hmore, hread⟩ := ih _ hok1
    obtain ⟨new, hnew, hanon⟩ := g.ext
    refine ⟨new ++ [(convDef mode t scope d syms).1] ++ more', ?_, ?_⟩
    · rw [hmore, hnew]; simp
    · simp only [List.filterMap_append, List.filterMap_cons, List.filterMap_nil, filterMap_readSym_anon _ new hanon,
        List.nil_append, hread, List.map_cons]
      have e1 : readSym (convDefs mode t scope ds ((convDef mode t scope d syms).2 ++ [(convDef mode t scope d syms).1]))
          (convDef mode t scope d syms).1 = some (descDef mode t scope d) := by
        rw [hmore, readSym_stable _ more' hok1 _ (fun r hr => (i r hr).mono (Nat.le_refl _) (by simp)),
          readSym_stable _ [_] g.ok _ i, convDef_read mode t scope d syms h]
      rw [e1]
      rfl

/-- `SliceFile::from`: a converted file reads back as the description of its source file -/
theorem convertFile_read (mode : DocMode) (t : Table) (rf : ReqFile) (v : SliceFileV)
    (h : convertFile mode t rf.path rf.file = some v) : describeFile mode t rf = some (readFile v) := by
  unfold convertFile at h
  unfold describeFile
  cases hm : rf.file.module with
  | none => rw [hm] at h; cases h
  | some m =>
    rw [hm] at h
    simp only [Option.some.injEq] at h
    subst h
    obtain ⟨more, hmore, hread⟩ := convDefs_read mode t m.path rf.file.defs [] SymsOK_nil
    simp only [readFile]
    rw [← hread]
    simp only [List.nil_append] at hmore
    rw [← hmore]

theorem convertAll_read (mode : DocMode) (t : Table) (fs : List ReqFile) :
    ∀ vs, convertAll mode t fs = some vs → ∀ b : Bool,
      ((vs.filter (fun q => q.1 == b)).map (·.2)).map readFile =
        (fs.filter (fun rf => rf.isSource == b)).filterMap (describeFile mode t) := by
  induction fs with
  | nil => intro vs h b; simp [convertAll] at h; subst h; rfl
  | cons rf rest ih =>
    intro vs h b
    simp only [convertAll] at h
    split at h
    · rename_i hskip
      have hnone : describeFile mode t rf = none := by
        simp only [Bool.and_eq_true, Option.isNone_iff_eq_none] at hskip
        simp only [describeFile, hskip.1]
      rw [ih vs h b]
      simp only [List.filter_cons]
      split
      · simp only [List.filterMap_cons, hnone]
      · rfl
    · split at h
      · rename_i v vs' hv hvs
        simp only [Option.some.injEq] at h
        subst h
        have hd := convertFile_read mode t rf v hv
        simp only [List.filter_cons]
        by_cases hb : (rf.isSource == b) = true
        · simp only [hb, if_true, List.map_cons, List.filterMap_cons, hd]
          rw [ih vs' hvs b]
        · simp only [hb, Bool.false_eq_true, if_false]
          exact ih vs' hvs b
      · cases h

/-- **the converted request reads back as the description of the program**: sources and references separately, files in
    compilation order, definitions in source order -/
theorem convert_read (mode : DocMode) (fs : List ReqFile) (srcs refs : List SliceFileV)
    (h : convert mode fs = some (srcs, refs)) :
    srcs.map readFile = describe mode fs true ∧ refs.map readFile = describe mode fs false := by
  unfold convert at h
  cases hvs : convertAll mode (buildTable (programOf fs)) fs with
  | none => rw [hvs] at h; cases h
  | some vs =>
    rw [hvs] at h
    simp only [Option.some.injEq, Prod.mk.injEq] at h
    obtain ⟨rfl, rfl⟩ := h
    have e1 : vs.filter (·.1) = vs.filter (fun q => q.1 == true) := by
      apply List.filter_congr; intro x _; simp
    have e2 : vs.filter (fun x => !x.1) = vs.filter (fun q => q.1 == false) := by
      apply List.filter_congr; intro x _; cases x.1 <;> rfl
    rw [e1, e2]
    exact ⟨convertAll_read mode _ fs vs hvs true, convertAll_read mode _ fs vs hvs false⟩

/-! ## part C: projections of the description, each against an observation written directly on the syntax -/

def RefShape.ty : RefShape → TyShape | .mk t _ _ => t
def RefShape.opt : RefShape → Bool | .mk _ o _ => o
def RefShape.attrs : RefShape → List AttributeV | .mk _ _ a => a

/-- the `?` of a member's type is the `?` written on it -/
theorem shapeOfTRef_opt (t : Table) (scope : String) (r : TRef) : (shapeOfTRef t scope elabFuel r).opt = r.opt := by
  obtain ⟨attrs, ty, opt⟩ := r
  show (shapeOfTRef t scope (63 + 1) (.mk attrs ty opt)).opt = opt
  cases ty with
  | named id =>
    simp only [shapeOfTRef]
    cases resolveNamed t .type id scope with
    | error e => rfl
    | ok res =>
      obtain ⟨tgt, extra⟩ := res
      cases tgt <;> rfl
  | prim p => rfl
  | seq e => rfl
  | dict k v => rfl
  | result s f => rfl

/-- the attributes of a type reference are the ones written on it, followed by the ones written on the underlying types of
    the aliases its name goes through (`extra = []` when the name is not an alias) -/
theorem shapeOfTRef_attrs (t : Table) (scope : String) (r : TRef) :
    (shapeOfTRef t scope elabFuel r).attrs =
      convAttrs (r.attrs ++ (match r.ty with
        | .named id => (match resolveNamed t .type id scope with | .ok (_, extra) => extra | .error _ => [])
        | _ => [])) := by
  obtain ⟨attrs, ty, opt⟩ := r
  show (shapeOfTRef t scope (63 + 1) (.mk attrs ty opt)).attrs = _
  cases ty with
  | named id =>
    simp only [shapeOfTRef, TRef.attrs, TRef.ty]
    cases resolveNamed t .type id scope with
    | error e => simp [RefShape.attrs]
    | ok res =>
      obtain ⟨tgt, extra⟩ := res
      cases tgt <;> rfl
  | prim p => simp [shapeOfTRef, RefShape.attrs, TRef.attrs, TRef.ty]
  | seq e => simp [shapeOfTRef, RefShape.attrs, TRef.attrs, TRef.ty]
  | dict k v => simp [shapeOfTRef, RefShape.attrs, TRef.attrs, TRef.ty]
  | result s f => simp [shapeOfTRef, RefShape.attrs, TRef.attrs, TRef.ty]

/-! ### (i) files: the split, the order, paths, modules, file attributes -/

def FileD.header (d : FileD) : Bytes × ModuleV × List AttributeV := (d.path, d.moduleDeclaration, d.attributes)

def SliceFileV.header (v : SliceFileV) : Bytes × ModuleV × List AttributeV := (v.path, v.moduleDeclaration, v.attributes)

/-- written on the syntax: of the files with the given source flag that have a module declaration, in compilation order —
    the path as given, the module's identifier and attributes, the file attributes -/
def obsHeaders (fs : List ReqFile) (isSource : Bool) : List (Bytes × ModuleV × List AttributeV) :=
  (fs.filter (fun rf => rf.isSource == isSource)).filterMap fun rf =>
    rf.file.module.map fun m => (sb rf.path, ⟨sb m.path, convAttrs m.attrs⟩, convAttrs rf.file.fileAttrs)

theorem filterMap_map_congr {α β γ : Type} (f : α → Option β) (g : β → γ) (h : α → Option γ) (l : List α)
    (hfg : ∀ a, (f a).map g = h a) : (l.filterMap f).map g = l.filterMap h := by
  induction l with
  | nil => rfl
  | cons a l ih =>
    simp only [List.filterMap_cons]
    rw [← hfg a]
    cases f a with
    | none => exact ih
    | some b => simp only [List.map_cons, Option.map_some, ih]

theorem describe_headers (mode : DocMode) (fs : List ReqFile) (b : Bool) :
    (describe mode fs b).map FileD.header = obsHeaders fs b := by
  unfold describe obsHeaders
  apply filterMap_map_congr
  intro rf
  unfold describeFile
  cases rf.file.module <;> rfl

/-! ### (ii) definitions: kinds and identifiers in source order -/

def DefD.head : DefD → String × Bytes
  | .struct i _ _ => ("struct", i.identifier)
  | .interface i _ _ => ("interface", i.identifier)
  | .basicEnum i _ _ _ => ("enum", i.identifier)
  | .variantEnum i _ _ _ => ("enum", i.identifier)
  | .customType i => ("custom", i.identifier)
  | .typeAlias i _ => ("typealias", i.identifier)

def DefD.info : DefD → EntityInfoV
  | .struct i _ _ => i
  | .interface i _ _ => i
  | .basicEnum i _ _ _ => i
  | .variantEnum i _ _ _ => i
  | .customType i => i
  | .typeAlias i _ => i

def obsDefHeads (fs : List ReqFile) (isSource : Bool) : List (List (String × Bytes)) :=
  (fs.filter (fun rf => rf.isSource == isSource)).filterMap fun rf =>
    rf.file.module.map fun _ => rf.file.defs.map fun d => (d.kind, sb d.name)

theorem descDef_head (mode : DocMode) (t : Table) (scope : String) (d : Def) :
    (descDef mode t scope d).head = (d.kind, sb d.name) := by
  cases d with
  | enum doc attrs compact unchecked name underlying es => cases underlying <;> rfl
  | _ => rfl

theorem describe_defHeads (mode : DocMode) (fs : List ReqFile) (b : Bool) :
    (describe mode fs b).map (fun d => d.definitions.map DefD.head) = obsDefHeads fs b := by
  unfold describe obsDefHeads
  apply filterMap_map_congr
  intro rf
  unfold describeFile
  cases rf.file.module with
  | none => rfl
  | some m =>
    simp only [Option.map_some, List.map_map]
    congr 1
    apply map_congr_mem
    intro d _
    exact descDef_head mode _ m.path d

theorem readSym_head (syms : Syms) (s : SymbolV) : (readSym syms s).map DefD.head = s.head := by
  cases s <;> rfl

theorem readFile_heads (v : SliceFileV) : (readFile v).definitions.map DefD.head = v.contents.filterMap SymbolV.head := by
  simp only [readFile]
  exact filterMap_map_congr _ _ _ _ (readSym_head v.contents)

/-! ### (iii) (iv) members: identifiers, tags, flags, values, in order -/

/-- a field / parameter / return member: identifier, tag, `?` -/
structure MemberObs where
  identifier : Bytes
  tag : Option Int
  optional : Bool
  deriving DecidableEq, Repr

structure OpObs where
  identifier : Bytes
  idempotent : Bool
  parameters : List MemberObs
  streamedParameter : Bool
  returns : List MemberObs
  streamedReturn : Bool
  deriving DecidableEq, Repr

/-- what a definition says besides attributes, comments and types -/
inductive DefObs where
  | struct (compact : Bool) (fields : List MemberObs)
  | interface (bases : List Bytes) (operations : List OpObs)
  /-- enumerators as (identifier, absolute value, sign) -/
  | basicEnum (unchecked : Bool) (underlying : Bytes) (enumerators : List (Bytes × Int × Bool))
  /-- variants as (identifier, discriminant, fields) -/
  | variantEnum (compact unchecked : Bool) (variants : List (Bytes × Int × List MemberObs))
  | custom
  | alias (optional : Bool)
  deriving DecidableEq, Repr

def FieldD.member (f : FieldD) : MemberObs := ⟨f.entityInfo.identifier, f.tag, f.dataType.opt⟩

def OperationD.obs (o : OperationD) : OpObs :=
  ⟨o.entityInfo.identifier, o.isIdempotent, o.parameters.map FieldD.member, o.hasStreamedParameter,
   o.returnType.map FieldD.member, o.hasStreamedReturn⟩

def DefD.obs : DefD → DefObs
  | .struct _ c fs => .struct c (fs.map FieldD.member)
  | .interface _ bs os => .interface bs (os.map OperationD.obs)
  | .basicEnum _ u ut es => .basicEnum u ut (es.map fun e => (e.entityInfo.identifier, e.absoluteValue, e.hasNegativeValue))
  | .variantEnum _ c u vs => .variantEnum c u (vs.map fun v => (v.entityInfo.identifier, v.discriminant, v.fields.map FieldD.member))
  | .customType _ => .custom
  | .typeAlias _ r => .alias r.opt

/-- on the syntax: a field as written (the tag is stored `as u32` and transmitted `as i32`: `tagI32`) -/
def fieldMember (f : Field) : MemberObs := ⟨sb f.name, f.tag.map tagI32, f.ty.opt⟩
def paramMember (p : Param) : MemberObs := ⟨sb p.name, p.tag.map tagI32, p.ty.opt⟩

/-- an operation as written: the streamed flags are the `stream` of the last parameter / return member; a single unnamed
    return value is the member `returnValue` -/
def opObs (o : Op) : OpObs :=
  ⟨sb o.name, o.idempotent, o.params.map paramMember, lastStream o.params, (retParams o.ret).map paramMember,
   lastStream (retParams o.ret)⟩

/-- a definition as written; enumerators carry `enumValues` (the literal, else previous + 1, from 0): as absolute value
    (mod 2^64) and sign for an enum with an underlying type, as the discriminant itself otherwise -/
def defObs (t : Table) (scope : String) : Def → DefObs
  | .struct _ _ compact _ fields => .struct compact (fields.map fieldMember)
  | .iface _ _ _ bases ops => .interface (bases.map (descBase t scope)) (ops.map opObs)
  | .enum _ _ compact unchecked _ underlying es =>
    match underlying with
    | some u =>
      .basicEnum unchecked (sb (underlyingString t scope u))
        ((es.zip (enumValues none es)).map fun e => (sb e.1.name, ((e.2.natAbs % 2 ^ 64 : Nat) : Int), decide (e.2 < 0)))
    | none =>
      .variantEnum compact unchecked
        ((es.zip (enumValues none es)).map fun e => (sb e.1.name, e.2, (e.1.fields.getD []).map fieldMember))
  | .custom .. => .custom
  | .alias _ _ _ ty => .alias ty.opt

theorem descField_member (t : Table) (scope ckey : String) (f : Field) : (descField t scope ckey f).member = fieldMember f := by
  simp only [descField, FieldD.member, fieldMember, shapeOfTRef_opt, entityInfoOf]

theorem descParam_member (mode : DocMode) (t : Table) (scope okey : String) (d : Option ReqDoc.ParsedDoc) (ir sg : Bool) (p : Param) :
    (descParam mode t scope okey d ir sg p).member = paramMember p := by
  simp only [descParam, FieldD.member, paramMember, shapeOfTRef_opt]

theorem descOp_obs (mode : DocMode) (t : Table) (scope ikey : String) (o : Op) : (descOp mode t scope ikey o).obs = opObs o := by
  simp only [descOp, OperationD.obs, opObs, List.map_map, entityInfoOf]
  congr 1
  · exact map_congr_mem _ _ _ (fun p _ => descParam_member mode t scope _ _ _ _ p)
  · exact map_congr_mem _ _ _ (fun p _ => descParam_member mode t scope _ _ _ _ p)

theorem descDef_obs (mode : DocMode) (t : Table) (scope : String) (d : Def) : (descDef mode t scope d).obs = defObs t scope d := by
  cases d with
  | struct doc attrs compact name fields =>
    simp only [descDef, DefD.obs, defObs, List.map_map]
    congr 1
    exact map_congr_mem _ _ _ (fun f _ => descField_member t scope _ f)
  | iface doc attrs name bases ops =>
    simp only [descDef, DefD.obs, defObs, List.map_map]
    congr 1
    exact map_congr_mem _ _ _ (fun o _ => descOp_obs mode t scope _ o)
  | enum doc attrs compact unchecked name underlying es =>
    cases underlying with
    | some u =>
      simp only [descDef, DefD.obs, defObs, List.map_map]
      congr 1
    | none =>
      simp only [descDef, DefD.obs, defObs, List.map_map]
      congr 1
      apply map_congr_mem
      intro e _
      simp only [Function.comp, descVariant, List.map_map, entityInfoOf]
      congr 2
      exact map_congr_mem _ _ _ (fun f _ => descField_member t scope _ f)
  | custom doc attrs name => rfl
  | alias doc attrs name ty => simp only [descDef, DefD.obs, defObs, shapeOfTRef_opt]

def obsDefs (fs : List ReqFile) (isSource : Bool) : List (List DefObs) :=
  (fs.filter (fun rf => rf.isSource == isSource)).filterMap fun rf =>
    rf.file.module.map fun m => rf.file.defs.map (defObs (buildTable (programOf fs)) m.path)

theorem describe_defObs (mode : DocMode) (fs : List ReqFile) (b : Bool) :
    (describe mode fs b).map (fun d => d.definitions.map DefD.obs) = obsDefs fs b := by
  unfold describe obsDefs
  apply filterMap_map_congr
  intro rf
  unfold describeFile
  cases rf.file.module with
  | none => rfl
  | some m =>
    simp only [Option.map_some, List.map_map]
    congr 1
    apply map_congr_mem
    intro d _
    exact descDef_obs mode _ m.path d

/-! ### (iv) enumerator values: the literal, else the previous value + 1, starting from 0 -/

theorem enumValues_length (prev : Option Int) (es : List Enumerator) : (enumValues prev es).length = es.length := by
  induction es generalizing prev with
  | nil => rfl
  | cons e es ih => simp only [enumValues, List.length_cons, ih]

/-- the value of the enumerator at position `i`: its literal when it has one; otherwise 0 for the first enumerator and the
    value of the enumerator before it plus one (wrapping in `i128`, as the compiler computes it) for the others -/
theorem enumValues_spec (es : List Enumerator) (i : Nat) (e : Enumerator) (he : es[i]? = some e) :
    (enumValues none es)[i]? = some (match e.value with
      | some l => l.value
      | none => if i = 0 then 0 else wrapI128 ((enumValues none es)[i - 1]?.getD 0)) := by
  have gen : ∀ (es : List Enumerator) (prev : Option Int) (i : Nat) (e : Enumerator), es[i]? = some e →
      (enumValues prev es)[i]? = some (match e.value with
        | some l => l.value
        | none => if i = 0 then (match prev with | some p => wrapI128 p | none => 0)
                  else wrapI128 ((enumValues prev es)[i - 1]?.getD 0)) := by
    intro es
    induction es with
    | nil => intro prev i e he; simp at he
    | cons x xs ih =>
      intro prev i e he
      cases i with
      | zero =>
        simp only [List.getElem?_cons_zero, Option.some.injEq] at he
        subst he
        simp only [enumValues, List.getElem?_cons_zero]
        cases x.value <;> rfl
      | succ j =>
        simp only [List.getElem?_cons_succ] at he
        simp only [enumValues, List.getElem?_cons_succ]
        rw [ih _ j e he]
        cases e.value with
        | some l => rfl
        | none =>
          cases j with
          | zero => simp
          | succ k => simp
  exact gen es none i e he

/-- absolute value and sign give the value back, for every value an enumerator of an integral underlying type can have -/
theorem enumerator_value_read_back (v : Int) (h : v.natAbs < 2 ^ 64) :
    (if decide (v < 0) then -(((v.natAbs % 2 ^ 64 : Nat) : Int)) else ((v.natAbs % 2 ^ 64 : Nat) : Int)) = v := by
  rw [Nat.mod_eq_of_lt h]
  by_cases hv : v < 0
  · simp only [hv, decide_true, if_true]; omega
  · simp only [hv, decide_false, Bool.false_eq_true, if_false]; omega

/-- a tag in the range the compiler accepts is transmitted as written -/
theorem tagI32_in_range (l : IntLit) (h0 : 0 ≤ l.value) (h1 : l.value < 2 ^ 31) : tagI32 l = l.value := by
  unfold tagI32
  have e : l.value % 2 ^ 32 = l.value := Int.emod_eq_of_lt h0 (by omega)
  rw [e]
  unfold toSigned
  have : (l.value.toNat) < 2 ^ 31 := by omega
  simp only [show (32 - 1 : Nat) = 31 by rfl]
  split
  · omega
  · omega

/-! ### (v) attributes -/

/-- an attribute other than the four the compiler parses itself is transmitted as written: directive and arguments in order -/
theorem convAttr_verbatim (a : Attr)
    (h : a.directive ≠ "compress" ∧ a.directive ≠ "slicedFormat" ∧ a.directive ≠ "deprecated" ∧ a.directive ≠ "oneway") :
    convAttr a = ⟨sb a.directive, a.args.map sb⟩ := by
  obtain ⟨h1, h2, h3, h4⟩ := h
  simp [convAttr, canonAttr, h1, h2, h3, h4]

/-- `deprecated` keeps its first argument (the message), `oneway` has none, `compress` / `slicedFormat` keep which of
    `Args`, `Return` were given (in that order) -/
theorem convAttr_builtin (a : Attr) :
    (a.directive = "deprecated" → convAttr a = ⟨sb a.directive, (a.args.take 1).map sb⟩) ∧
    (a.directive = "oneway" → convAttr a = ⟨sb a.directive, []⟩) ∧
    (a.directive = "compress" ∨ a.directive = "slicedFormat" → convAttr a = ⟨sb a.directive,
      ((if a.args.contains "Args" then ["Args"] else []) ++ (if a.args.contains "Return" then ["Return"] else [])).map sb⟩) := by
  refine ⟨?_, ?_, ?_⟩
  · intro h; simp [convAttr, canonAttr, h]
  · intro h; simp [convAttr, canonAttr, h]
  · intro h; rcases h with h | h <;> simp [convAttr, canonAttr, h]

/-! ### (v) (vi) entity information: identifier, attributes, documentation -/

def defAttrsOf : Def → List Attr
  | .struct _ a _ _ _ => a | .iface _ a _ _ _ => a | .enum _ a _ _ _ _ _ => a | .custom _ a _ => a | .alias _ a _ _ => a

def defDocOf : Def → List String
  | .struct d _ _ _ _ => d | .iface d _ _ _ _ => d | .enum d _ _ _ _ _ _ => d | .custom d _ _ => d | .alias d _ _ _ => d

/-- the entity information of a definition: its identifier, its attributes in order (each converted by `convAttr`), and its
    doc comment when it has a well-formed one — overview with every `{@link X}` replaced by the scoped identifier `X`
    resolves to from the definition, `@see` tags likewise -/
theorem descDef_info (mode : DocMode) (t : Table) (scope : String) (d : Def) :
    (descDef mode t scope d).info =
      { identifier := sb d.name, attributes := (defAttrsOf d).map convAttr,
        comment := (ReqDoc.parseDoc (defDocOf d)).map (convDoc t (scopedId d.name scope)) } := by
  cases d with
  | enum doc attrs compact unchecked name underlying es => cases underlying <;> rfl
  | _ => rfl

def obsDefInfos (fs : List ReqFile) (isSource : Bool) : List (List EntityInfoV) :=
  (fs.filter (fun rf => rf.isSource == isSource)).filterMap fun rf =>
    rf.file.module.map fun m => rf.file.defs.map fun d =>
      { identifier := sb d.name, attributes := (defAttrsOf d).map convAttr,
        comment := (ReqDoc.parseDoc (defDocOf d)).map (convDoc (buildTable (programOf fs)) (scopedId d.name m.path)) }

theorem describe_defInfos (mode : DocMode) (fs : List ReqFile) (b : Bool) :
    (describe mode fs b).map (fun d => d.definitions.map DefD.info) = obsDefInfos fs b := by
  unfold describe obsDefInfos
  apply filterMap_map_congr
  intro rf
  unfold describeFile
  cases rf.file.module with
  | none => rfl
  | some m =>
    simp only [Option.map_some, List.map_map]
    congr 1
    apply map_congr_mem
    intro d _
    exact descDef_info mode _ m.path d

/-- (vi) the documentation of a parameter is the text of the first `@param` tag with its identifier; that of a return member
    the text of the first `@returns` tag with its identifier — or without identifier when the operation has a single return
    value —, links resolved from the operation; no tag, or no (well-formed) comment on the operation: no documentation -/
theorem paramDoc_spec (t : Table) (opKey : String) (d : ReqDoc.ParsedDoc) (single : Bool) (name : String) :
    paramDoc .asDemanded t opKey (some d) false single name =
      (d.params.find? (fun p => p.1 == name)).map (fun p => { overview := convMsg t opKey p.2, seeTags := [] }) ∧
    paramDoc .asDemanded t opKey (some d) true single name =
      (d.returns.find? (fun r => r.1 == some name || (single && r.1 == none))).map
        (fun r => { overview := convMsg t opKey r.2, seeTags := [] }) ∧
    paramDoc .asDemanded t opKey none false single name = none ∧ paramDoc .asDemanded t opKey none true single name = none := by
  refine ⟨?_, ?_, rfl, rfl⟩
  · simp only [paramDoc]
    cases d.params.find? (fun p => p.1 == name) <;> simp
  · simp only [paramDoc]
    cases d.returns.find? (fun r => r.1 == some name || (single && r.1 == none)) <;> simp

/-! ## evaluating lookups on a concrete table (for the examples of Props/C08.lean)

`scopeLoop` is defined by well-founded recursion and does not reduce in the kernel; this is the same loop with an
explicit bound, which does. -/

def scopeLoopN (t : Table) (id : String) : Nat → List String → Option NodeInfo
  | 0, _ => none
  | _ + 1, [] => none
  | n + 1, a :: m =>
    match t.find (joinSegs (a :: m) ++ "::" ++ id) with
    | some x => some x
    | none => scopeLoopN t id n (a :: m).dropLast

theorem scopeLoop_eq_N (t : Table) (id : String) :
    ∀ (n : Nat) (l : List String), l.length ≤ n → scopeLoop t id l = scopeLoopN t id n l := by
  intro n
  induction n with
  | zero =>
    intro l h
    cases l with
    | nil => simp [scopeLoop, scopeLoopN]
    | cons a m => simp at h
  | succ n ih =>
    intro l h
    cases l with
    | nil => simp [scopeLoop, scopeLoopN]
    | cons a m =>
      rw [scopeLoop, scopeLoopN, ih _ (by simp at h ⊢; omega)]
      cases t.find (joinSegs (a :: m) ++ "::" ++ id) <;> rfl

def findNodeWithScopeN (t : Table) (id scope : String) : Option NodeInfo :=
  match stripGlobal id with
  | some rest => t.find rest
  | none =>
    match scopeLoopN t id (splitSegs scope).length (splitSegs scope) with
    | some n => some n
    | none => t.find id

theorem findNodeWithScope_eq_N (t : Table) (id scope : String) :
    findNodeWithScope t id scope = findNodeWithScopeN t id scope := by
  unfold findNodeWithScope findNodeWithScopeN
  rw [scopeLoop_eq_N t id _ _ (Nat.le_refl _)]
  cases stripGlobal id with
  | some r => rfl
  | none => simp only; cases scopeLoopN t id (splitSegs scope).length (splitSegs scope) <;> rfl

end Slicec

/-! ## a small program for the examples of Props/C08.lean, evaluated -/
namespace Slicec.C08Demo
open Slicec

theorem sb_eq_data (s : String) : sb s = s.toByteArray.data.toList := by
  simp [sb, String.toUTF8, byteArray_toList]

/-- `a.slice` (source): `[[cs::ns("X")]] module M  compact struct S { x: bool }  typealias A = [cs::t] Sequence<S?>` -/
def fileA : SFile :=
  { fileAttrs := [⟨"cs::ns", ["X"]⟩], module := some ⟨[], "M"⟩,
    defs := [.struct [] [] true "S" [⟨[], [], none, "x", .mk [] (.prim .bool) false⟩],
             .alias [] [] "A" (.mk [⟨"cs::t", []⟩] (.seq (.mk [] (.named "S") true)) false)] }

/-- `b.slice` (reference): `module N`,
    `/// Holds {@link M::S}.` `/// @see M::S` `struct T { y: tag(3) [cs::u] M::A? }`,
    `unchecked enum E { P, Q(w: M::S) = 5, R }` -/
def fileB : SFile :=
  { fileAttrs := [], module := some ⟨[], "N"⟩,
    defs := [.struct ["Holds {@link M::S}.", "@see M::S"] [] false "T"
               [⟨[], [], some ⟨false, 10, 3, false⟩, "y", .mk [⟨"cs::u", []⟩] (.named "M::A") true⟩],
             .enum [] [] false true "E" none
               [⟨[], [], "P", none, none⟩,
                ⟨[], [], "Q", some [⟨[], [], none, "w", .mk [] (.named "M::S") false⟩], some ⟨false, 10, 5, false⟩⟩,
                ⟨[], [], "R", none, none⟩]] }

def files : List ReqFile := [⟨"a.slice", true, fileA⟩, ⟨"b.slice", false, fileB⟩]

def table : Table := buildTable (programOf files)

def nodeS : NodeInfo := { kind := .struct, key := "M::S", modScope := "M", ident := "S", attrs := [], file := 0 }
def nodeA : NodeInfo :=
  { kind := .alias, key := "M::A", modScope := "M", ident := "A",
    aliasOf := some (.mk [⟨"cs::t", []⟩] (.seq (.mk [] (.named "S") true)) false), attrs := [], file := 0 }

theorem find_S_in_M : findNodeWithScope table "S" "M" = some nodeS := by rw [findNodeWithScope_eq_N]; rfl
theorem find_A_in_N : findNodeWithScope table "M::A" "N" = some nodeA := by rw [findNodeWithScope_eq_N]; rfl
theorem find_S_in_N : findNodeWithScope table "M::S" "N" = some nodeS := by rw [findNodeWithScope_eq_N]; rfl
theorem find_S_in_T : findNodeWithScope table "M::S" "N::T" = some nodeS := by rw [findNodeWithScope_eq_N]; rfl

theorem resolve_S_in_M : resolveNamed table .type "S" "M" = .ok (.node nodeS, []) := by
  simp only [resolveNamed, find_S_in_M]; rfl
theorem resolve_S_in_N : resolveNamed table .type "M::S" "N" = .ok (.node nodeS, []) := by
  simp only [resolveNamed, find_S_in_N]; rfl
/-- the alias is flattened: its target (written in module `M`) and the attribute written on it -/
theorem resolve_A_in_N : resolveNamed table .type "M::A" "N" =
    .ok (.expr (.seq (.mk [] (.named "S") true)) "M", [⟨"cs::t", []⟩]) := by
  simp only [resolveNamed, find_A_in_N]; rfl

theorem parse_T_doc : ReqDoc.parseDoc ["Holds {@link M::S}.", "@see M::S"] =
    some { overview := some [.text "Holds ", .link "M::S", .text ".", .text "\n"], params := [], returns := [], sees := ["M::S"] } := by
  decide
theorem parse_no_doc : ReqDoc.parseDoc [] = none := by decide

theorem link_S_in_T : convLink table "N::T" "M::S" = sb "M::S" := by
  simp only [convLink, find_S_in_T]; rfl

theorem files_resolve : AllResolve files = true := by
  show (programOf files).all (fileResolves table) = true
  simp [programOf, files, fileA, fileB, fileResolves, defResolves, fieldsResolve, elabFuel, trefResolves, tyResolves,
    resolve_S_in_M, resolve_A_in_N, resolve_S_in_N]

/-- the description of the reference file -/
def describedB : FileD :=
  { path := sb "b.slice", moduleDeclaration := ⟨sb "N", []⟩, attributes := [],
    definitions :=
      [.struct ⟨sb "T", [], some ⟨[.text (sb "Holds "), .link (sb "M::S"), .text (sb "."), .text (sb "\n")], [sb "M::S"]⟩⟩ false
         [⟨⟨sb "y", [], none⟩, some 3,
           .mk (.seq (.mk (.named (sb "M::S")) true [])) true [⟨sb "cs::u", []⟩, ⟨sb "cs::t", []⟩]⟩],
       .variantEnum ⟨sb "E", [], none⟩ false true
         [⟨⟨sb "P", [], none⟩, 0, []⟩,
          ⟨⟨sb "Q", [], none⟩, 5, [⟨⟨sb "w", [], none⟩, none, .mk (.named (sb "M::S")) false []⟩]⟩,
          ⟨⟨sb "R", [], none⟩, 6, []⟩]] }

theorem describe_refs : describe .asDemanded files false = [describedB] := by
  show (files.filter (fun rf => rf.isSource == false)).filterMap (describeFile .asDemanded table) = _
  simp [files, fileB, describedB, describeFile, descDef, descField, descVariant, entityInfoOf, elabFuel, shapeOfTRef, shapeOfTy,
    resolve_S_in_M, resolve_A_in_N, resolve_S_in_N, parse_no_doc, parse_T_doc, link_S_in_T, convDoc, convMsg, convAttrs, convAttr,
    canonAttr, scopedId, enumValues, wrapI128, tagI32, toSigned, IntLit.value, nodeS]

/-- the reference file as converted: the anonymous `Sequence<M::S?>` is symbol 0 and `T::y` refers to it by index -/
def convertedB : SliceFileV :=
  { path := sb "b.slice", moduleDeclaration := ⟨sb "N", []⟩, attributes := [],
    contents :=
      [.sequenceType ⟨⟨.named (sb "M::S"), true, []⟩⟩,
       .struct ⟨⟨sb "T", [], some ⟨[.text (sb "Holds "), .link (sb "M::S"), .text (sb "."), .text (sb "\n")], [sb "M::S"]⟩⟩, false,
         [⟨⟨sb "y", [], none⟩, some 3, ⟨.anon 0, true, [⟨sb "cs::u", []⟩, ⟨sb "cs::t", []⟩]⟩⟩]⟩,
       .variantEnum ⟨⟨sb "E", [], none⟩, false, true,
         [⟨⟨sb "P", [], none⟩, 0, []⟩,
          ⟨⟨sb "Q", [], none⟩, 5, [⟨⟨sb "w", [], none⟩, none, ⟨.named (sb "M::S"), false, []⟩⟩]⟩,
          ⟨⟨sb "R", [], none⟩, 6, []⟩]⟩] }

def convertedA : SliceFileV :=
  { path := sb "a.slice", moduleDeclaration := ⟨sb "M", []⟩, attributes := [⟨sb "cs::ns", [sb "X"]⟩],
    contents :=
      [.struct ⟨⟨sb "S", [], none⟩, true, [⟨⟨sb "x", [], none⟩, none, ⟨.named (sb "bool"), false, []⟩⟩]⟩,
       .sequenceType ⟨⟨.named (sb "M::S"), true, []⟩⟩,
       .typeAlias ⟨⟨sb "A", [], none⟩, ⟨.anon 1, false, [⟨sb "cs::t", []⟩]⟩⟩] }

theorem convert_files : convert .asDemanded files = some ([convertedA], [convertedB]) := by
  unfold convert
  rw [show buildTable (programOf files) = table from rfl]
  simp [files, fileA, fileB, convertedA, convertedB, convertAll, convertFile, convDefs, convDef, convFields, convField, convVariants,
    convVariant, convTRef, convTy, elabFuel, entityInfoOf,
    resolve_S_in_M, resolve_A_in_N, resolve_S_in_N, parse_no_doc, parse_T_doc, link_S_in_T, convDoc, convMsg, convAttrs, convAttr,
    canonAttr, scopedId, enumValues, wrapI128, tagI32, toSigned, IntLit.value, nodeS, Prim.kw]

/-! ### the guard of `named_ids_exist` is needed -/

/-- `module M  struct S { x: Nope }` — the name `Nope` does not exist (the compiler reports E033); the converter still
    produces a request, with the identifier as written -/
def bad1File : SFile :=
  { fileAttrs := [], module := some ⟨[], "M"⟩,
    defs := [.struct [] [] false "S" [⟨[], [], none, "x", .mk [] (.named "Nope") false⟩]] }
def bad1 : List ReqFile := [⟨"a.slice", true, bad1File⟩]
def bad1T : Table := buildTable (programOf bad1)

theorem bad1_lookup : findNodeWithScope bad1T "Nope" "M" = none := by rw [findNodeWithScope_eq_N]; rfl

def bad1Sym : SymbolV := .struct ⟨⟨sb "S", [], none⟩, false, [⟨⟨sb "x", [], none⟩, none, ⟨.named (sb "Nope"), false, []⟩⟩]⟩
def bad1Out : SliceFileV := { path := sb "a.slice", moduleDeclaration := ⟨sb "M", []⟩, attributes := [], contents := [bad1Sym] }

theorem bad1_convert (mode : DocMode) : convert mode bad1 = some ([bad1Out], []) := by
  have hr : resolveNamed bad1T .type "Nope" "M" = .error (.doesNotExist "Nope") := by
    simp only [resolveNamed, bad1_lookup]
  unfold convert
  rw [show buildTable (programOf bad1) = bad1T from rfl]
  simp [bad1, bad1File, bad1Out, bad1Sym, convertAll, convertFile, convDefs, convDef, convFields, convField, convTRef, elabFuel, hr,
    entityInfoOf, parse_no_doc, convAttrs]

theorem bad1_not_resolved : AllResolve bad1 = false := by
  have hr : resolveNamed bad1T .type "Nope" "M" = .error (.doesNotExist "Nope") := by
    simp only [resolveNamed, bad1_lookup]
  show (programOf bad1).all (fileResolves bad1T) = false
  simp [programOf, bad1, bad1File, fileResolves, defResolves, fieldsResolve, elabFuel, trefResolves, hr]

/-- the conclusion of `named_ids_exist` fails on `bad1`: `Nope` is neither a keyword nor an entity of a transmitted file -/
theorem bad1_dangling (mode : DocMode) : ∃ srcs refs, convert mode bad1 = some (srcs, refs) ∧
    ∃ f ∈ srcs ++ refs, ∃ s ∈ f.contents, ∃ r ∈ s.trefs, ∃ id, r.typeId = .named id ∧
      ¬ ((∃ p ∈ Prim.all, id = sb p.kw) ∨ EntityIn (srcs ++ refs) ["struct", "enum", "custom"] id) := by
  refine ⟨[bad1Out], [], bad1_convert mode, bad1Out, by simp, bad1Sym, by simp [bad1Out],
    ⟨.named (sb "Nope"), false, []⟩, by simp [SymbolV.trefs, bad1Sym], sb "Nope", rfl, ?_⟩
  intro h
  rcases h with ⟨p, hp, he⟩ | ⟨f, hf, s, hs, k, n, hh, hk, hid⟩
  · revert p; simp only [sb_eq_data]; decide
  · simp only [List.append_nil, List.mem_singleton] at hf
    subst hf
    simp only [bad1Out, List.mem_singleton] at hs
    subst hs
    simp only [bad1Sym, SymbolV.head, Option.some.injEq, Prod.mk.injEq] at hh
    obtain ⟨_, rfl⟩ := hh
    revert hid; simp only [bad1Out, sb_eq_data]; decide

/-- `a.slice`: `custom C` without a module declaration (the compiler reports "module declaration is required");
    `b.slice`: `module M  struct S { x: C }`. The name resolves (to the key `C`), but the file that defines `C` is not
    transmitted -/
def bad2FileA : SFile := { fileAttrs := [], module := none, defs := [.custom [] [] "C"] }
def bad2FileB : SFile :=
  { fileAttrs := [], module := some ⟨[], "M"⟩,
    defs := [.struct [] [] false "S" [⟨[], [], none, "x", .mk [] (.named "C") false⟩]] }
def bad2 : List ReqFile := [⟨"a.slice", true, bad2FileA⟩, ⟨"b.slice", true, bad2FileB⟩]
def bad2T : Table := buildTable (programOf bad2)
def bad2NodeC : NodeInfo := { kind := .custom, key := "C", modScope := "", ident := "C", attrs := [], file := 0 }

theorem bad2_lookup : findNodeWithScope bad2T "C" "M" = some bad2NodeC := by rw [findNodeWithScope_eq_N]; rfl

def bad2Sym : SymbolV := .struct ⟨⟨sb "S", [], none⟩, false, [⟨⟨sb "x", [], none⟩, none, ⟨.named (sb "C"), false, []⟩⟩]⟩
def bad2Out : SliceFileV := { path := sb "b.slice", moduleDeclaration := ⟨sb "M", []⟩, attributes := [], contents := [bad2Sym] }

theorem bad2_convert (mode : DocMode) (hs : Gen.requestSkipsModuleless = true) : convert mode bad2 = some ([bad2Out], []) := by
  have hr : resolveNamed bad2T .type "C" "M" = .ok (.node bad2NodeC, []) := by
    simp only [resolveNamed, bad2_lookup]; rfl
  unfold convert
  rw [show buildTable (programOf bad2) = bad2T from rfl]
  simp [bad2, bad2FileA, bad2FileB, bad2Out, bad2Sym, convertAll, convertFile, convDefs, convDef, convFields, convField, convTRef,
    elabFuel, hr, entityInfoOf, parse_no_doc, convAttrs, hs, bad2NodeC]

theorem bad2_not_resolved : AllResolve bad2 = false := by
  show (programOf bad2).all (fileResolves bad2T) = false
  simp [programOf, bad2, bad2FileA, fileResolves]

/-- the conclusion of `named_ids_exist` fails on `bad2` -/
theorem bad2_dangling (mode : DocMode) (hs : Gen.requestSkipsModuleless = true) : ∃ srcs refs, convert mode bad2 = some (srcs, refs) ∧
    ∃ f ∈ srcs ++ refs, ∃ s ∈ f.contents, ∃ r ∈ s.trefs, ∃ id, r.typeId = .named id ∧
      ¬ ((∃ p ∈ Prim.all, id = sb p.kw) ∨ EntityIn (srcs ++ refs) ["struct", "enum", "custom"] id) := by
  refine ⟨[bad2Out], [], bad2_convert mode hs, bad2Out, by simp, bad2Sym, by simp [bad2Out],
    ⟨.named (sb "C"), false, []⟩, by simp [SymbolV.trefs, bad2Sym], sb "C", rfl, ?_⟩
  intro h
  rcases h with ⟨p, hp, he⟩ | ⟨f, hf, s, hs, k, n, hh, hk, hid⟩
  · revert p; simp only [sb_eq_data]; decide
  · simp only [List.append_nil, List.mem_singleton] at hf
    subst hf
    simp only [bad2Out, List.mem_singleton] at hs
    subst hs
    simp only [bad2Sym, SymbolV.head, Option.some.injEq, Prod.mk.injEq] at hh
    obtain ⟨_, rfl⟩ := hh
    revert hid; simp only [bad2Out, sb_eq_data]; decide

end Slicec.C08Demo
