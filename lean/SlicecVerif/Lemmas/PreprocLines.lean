/-
  C06, the character-level link: the token stream `lexPre f` of a file is the concatenation, line by line, of
  * nothing for a blank line,
  * the tokens of the directive (`dirLine`) followed by `DirectiveEnd` for a line whose first non-blank character is `#`,
  * one block token for every maximal run of other lines (from the first non-blank character of its first source line
    up to the `#` of the next directive line or the end of input),
  and a lexical error in any directive line is a lexical error of the file (`lexPre_decl`).
-/
import SlicecVerif.Lemmas.PreprocLex

namespace Slicec.Pp

/-! ## lines -/

/-- what follows the end of a line: the remaining lines, each preceded by its newline -/
def tailLines : List (List Char) → List Char
  | [] => []
  | l :: ls => '\n' :: (l ++ tailLines ls)

def joinLines : List (List Char) → List Char
  | [] => []
  | l :: ls => l ++ tailLines ls

theorem stopNl_tailLines (ls : List (List Char)) : stopNl (tailLines ls) := by
  cases ls <;> simp [tailLines, stopNl]

theorem splitLines_spec (f : List Char) :
    joinLines (splitLines f) = f ∧ (∀ l ∈ splitLines f, noNl l) ∧ splitLines f ≠ [] := by
  induction f with
  | nil => simp [splitLines, joinLines, tailLines, noNl]
  | cons c cs ih =>
    obtain ⟨h1, h2, h3⟩ := ih
    unfold splitLines
    cases hs : splitLines cs with
    | nil => exact absurd hs h3
    | cons l ls =>
      rw [hs] at h1 h2
      simp only
      by_cases hc : c = '\n'
      · simp only [hc, ↓reduceIte]
        refine ⟨?_, ?_, by simp⟩
        · simp only [joinLines, tailLines, List.nil_append] at h1 ⊢
          rw [h1]
        · intro l' hl'
          simp only [List.mem_cons] at hl'
          rcases hl' with rfl | hl'
          · intro x hx; cases hx
          · exact h2 l' (by simpa using hl')
      · simp only [hc, ↓reduceIte]
        refine ⟨?_, ?_, by simp⟩
        · simp only [joinLines, List.cons_append] at h1 ⊢
          rw [h1]
        · intro l' hl'
          simp only [List.mem_cons] at hl'
          rcases hl' with rfl | hl'
          · intro x hx
            simp only [List.mem_cons] at hx
            rcases hx with rfl | hx
            · exact hc
            · exact h2 l (by simp) x hx
          · exact h2 l' (by simp [hl'])

/-! ## the declarative token stream -/

/-- the pending source block (started at offset `p`), closed at offset `e` -/
def flushTok (f : List Char) (pend : Option Nat) (e : Nat) : List PTok :=
  match pend with
  | none => []
  | some p => [.block ⟨locAt f p, p, (f.drop p).take (e - p)⟩]

/-- one line, given as its text `d` after the leading inline whitespace and the input `tl` after the line;
    `pend` = start offset of the open source block, `k` = the token stream of the remaining lines -/
def declLine (f d tl : List Char) (pend : Option Nat) (k : Option Nat → Option (List PTok)) : Option (List PTok) :=
  match d with
  | [] => k pend
  | c :: d' =>
    if c = '#' then
      match dirLine (c :: d') with
      | none => none
      | some ts => (k none).map (fun rest => flushTok f pend (f.length - (c :: d' ++ tl).length) ++ ts ++ .dend :: rest)
    else k (some (pend.getD (f.length - (c :: d' ++ tl).length)))

/-- the declarative token stream of the lines `ls` (`none` = some directive line has a lexical error) -/
def declLines (f : List Char) : List (List Char) → Option Nat → Option (List PTok)
  | [], pend => some (flushTok f pend f.length)
  | l :: ls, pend => declLine f (l.dropWhile isInlineWs) (tailLines ls) pend (declLines f ls)

/-! ## the lexer computes the declarative token stream -/

/-- mode / block start of the lexer vs. the pending block of the declarative reading -/
def ModeOK (f : List Char) (m : Mode) (start : Option (Loc × Nat)) (pend : Option Nat) : Prop :=
  (m = .unknown ∧ start = none ∧ pend = none) ∨ (m = .sourceBlock ∧ ∃ p, start = some (locAt f p, p) ∧ pend = some p)

theorem dirTokK_hash (r : List Char) : dirTokK '#' r = kwK r := by
  unfold dirTokK
  rw [if_neg (by decide), if_neg (by decide), if_neg (by decide), if_neg (by decide), if_neg (by decide), if_pos rfl]

theorem kwK_cases (r : List Char) : (∃ k, (kwK r).1 = .tok (.kw k)) ∨ (kwK r).1 = .err := by
  unfold kwK
  dsimp only
  split
  · exact Or.inl ⟨_, rfl⟩
  · exact Or.inr rfl

theorem dirNextK_hash (d : List Char) :
    dirNextK ('#' :: d) = match kwK d with
      | (.tok t, r) => (some t, r)
      | (.err, r) => (none, r)
      | (.skip, r) => (some .dend, r) := by
  unfold dirNextK
  simp only [List.dropWhile_cons, show isInlineWs '#' = false by decide, Bool.false_eq_true, ↓reduceIte, dirTokK_hash]
  rfl

/-- the rest of a directive line in directive mode, then whatever the remaining lines give (`K`) -/
theorem lexAllS_dirline (f : List Char) (st : LexSt) (r tl : List Char) (K : Option (List PTok))
    (hm : st.mode = .directive) (hinv : CurInv f st.cur) (hrest : st.cur.rest = r ++ tl) (hr : noNl r) (htl : stopNl tl)
    (hK : CurInv f (curOf f tl) → toksOf (lexAllS f (stAt f tl .unknown)) = K) :
    toksOf (lexAllS f st) = (dirLexR (r.length + 1) r).bind fun x => K.map (fun ts => x.1 ++ .dend :: ts) := by
  obtain ⟨h1, h2⟩ := lexAllS_dir f (st.cur.rest.length + 1) st hm hinv (Nat.lt_succ_self _)
  rw [h2, hrest, dirLexR_append _ r tl hr htl,
    dirLexR_fuel ((r ++ tl).length + 1) (r.length + 1) r (by simp only [List.length_append]; omega) (Nat.lt_succ_self _)]
  rw [hrest, dirLexR_append _ r tl hr htl] at h1
  cases hx : dirLexR (r.length + 1) r with
  | none => rfl
  | some x =>
    have := h1 (x.1, tl) (by
      rw [dirLexR_fuel ((r ++ tl).length + 1) (r.length + 1) r (by simp only [List.length_append]; omega)
        (Nat.lt_succ_self _), hx]; rfl)
    simp only [Option.map, Option.bind]
    rw [hK this]

theorem mkBlock_some (f : List Char) (p e : Nat) (cursor : Loc) :
    mkBlock f (some (locAt f p, p)) e cursor = .ok ⟨locAt f p, .block ⟨locAt f p, p, (f.drop p).take (e - p)⟩, cursor⟩ := rfl

/-- one line: `st` is at the first non-blank character of the line (or at its end), `hk` describes the remaining lines -/
theorem nextLoop_line (f d tl : List Char) (k : Option Nat → Option (List PTok)) (hd : noNl d) (htl : stopNl tl)
    (hk : ∀ n st start pend, st.cur.rest = tl → CurInv f st.cur → tl.length + 1 ≤ n → ModeOK f st.mode start pend →
      cont f (nextLoop f n st start) = k pend) :
    ∀ n st start pend, st.cur.rest = d ++ tl → CurInv f st.cur → (d ++ tl).length + 1 ≤ n → ModeOK f st.mode start pend →
      cont f (nextLoop f n st start) = declLine f d tl pend k := by
  intro n st start pend hrest hinv hn hmode
  cases d with
  | nil => exact hk n st start pend hrest hinv (by simpa using hn) hmode
  | cons c d' =>
    have hc : c ≠ '\n' := hd c (by simp)
    have hd' : noNl d' := fun x hx => hd x (by simp [hx])
    have hmd : st.mode ≠ .directive := by
      rcases hmode with ⟨h, _⟩ | ⟨h, _⟩ <;> rw [h] <;> simp
    simp only [List.cons_append] at hrest
    simp only [List.cons_append, List.length_cons] at hn
    obtain ⟨n, rfl⟩ : ∃ m, n = m + 1 := ⟨n - 1, by omega⟩
    rw [nextLoop_cons f n st start c (d' ++ tl) hrest, if_neg hmd, if_neg hc]
    unfold declLine
    simp only
    have hoff : st.cur.off = f.length - (c :: d' ++ tl).length := by
      rw [hinv.off_eq, hrest]; rfl
    -- what the remaining lines give, from the canonical state at the end of this line
    have hK : CurInv f (curOf f tl) → toksOf (lexAllS f (stAt f tl .unknown)) = k none := by
      intro hci
      rw [toksOf_lexAllS]
      unfold lexNext
      have hr2 : ((stAt f tl .unknown).cur.skipWs).rest = tl := by
        rw [Cur.skipWs_rest]; exact dropWhile_stop _ isInlineWs_nl _ htl
      exact hk _ { stAt f tl .unknown with cur := (stAt f tl .unknown).cur.skipWs } none none hr2
        ((reach_skipWs f _) hci).1 (by simp [stAt, curOf]) (Or.inl ⟨rfl, rfl, rfl⟩)
    by_cases hh : c = '#'
    · subst hh
      rw [if_pos rfl, if_pos rfl]
      rcases hmode with ⟨hm, hs, hp⟩ | ⟨hm, p, hs, hp⟩
      · -- mode Unknown: the keyword is lexed at once
        subst hs hp
        simp only [hm]
        have hk2 := lexKeyword_kind' st.cur (d' ++ tl) hrest
        have hkf := lexKeyword_facts f st.cur
        rw [kwK_append d' tl htl] at hk2
        have hsuf : (kwK d').2 <:+ '#' :: d' := by
          have := dirTokK_suffix '#' d'; rwa [dirTokK_hash] at this
        have hnn : noNl (kwK d').2 := noNl_of_suffix hsuf hd
        have hlen := kwK_len d'
        unfold dirLine
        unfold dirLexR
        rw [dirNextK_hash]
        cases hd1 : lexKeyword st.cur with
        | mk ds cur' =>
          rw [hd1] at hk2 hkf
          obtain ⟨hk2a, hk2b⟩ := hk2
          simp only at hk2a hk2b
          have hinv' : CurInv f cur' := (hkf.1 hinv).1
          cases hKw : kwK d' with
          | mk kk r'' =>
            rw [hKw] at hk2a hk2b hnn hlen
            simp only at hk2a hk2b hnn hlen
            cases ds with
            | tok t =>
              simp only [DirStep.kind] at hk2a
              subst hk2a
              have hne : t.tok ≠ .dend := by
                intro e
                have := kwK_ne_dend d'
                rw [hKw, e] at this
                exact this rfl
              simp only [cont, hne, ↓reduceIte, flushTok, List.nil_append]
              rw [lexAllS_dirline f ⟨cur', .directive⟩ r'' tl (k none) rfl hinv' hk2b hnn htl hK,
                dirLexR_fuel (r''.length + 1) (d'.length + 1) r'' (Nat.lt_succ_self _) (by omega)]
              cases dirLexR (d'.length + 1) r'' with
              | none => rfl
              | some x => cases k none <;> simp
            | err e =>
              simp only [DirStep.kind] at hk2a
              subst hk2a
              simp [cont]
            | skip =>
              simp only [DirStep.kind] at hk2a
              subst hk2a
              rcases kwK_cases d' with ⟨k', h'⟩ | h' <;> rw [hKw] at h' <;> simp at h'
      · -- mode SourceBlock: the block ends in front of the `#`
        subst hs hp
        simp only [hm]
        rw [mkBlock_some]
        simp only [cont, flushTok]
        rw [lexAllS_dirline f { st with mode := .directive } ('#' :: d') tl (k none) rfl hinv hrest hd htl hK, hoff]
        unfold dirLine
        simp only [List.length_cons]
        cases dirLexR (d'.length + 1 + 1) ('#' :: d') with
        | none => rfl
        | some x => cases k none <;> simp
    · -- a source line
      rw [if_neg hh, if_neg hh]
      have hr3 : (st.cur.toEol.skipWs).rest = tl := by
        rw [Cur.skipWs_rest, Cur.toEol_rest, hrest]
        have := dropWhile_append_stop notNewline notNewline_nl (c :: d') tl htl
        rw [List.cons_append] at this
        rw [this, dropWhile_notNewline_noNl (c :: d') hd, List.nil_append]
        exact dropWhile_stop _ isInlineWs_nl _ htl
      have hinv3 : CurInv f (st.cur.toEol.skipWs) := (((reach_toEol f st.cur).trans (reach_skipWs f _)) hinv).1
      refine hk n ⟨st.cur.toEol.skipWs, .sourceBlock⟩ _ _ hr3 hinv3 (by simp only [List.length_append] at hn; omega) ?_
      rcases hmode with ⟨hm, hs, hp⟩ | ⟨hm, p, hs, hp⟩
      · subst hs hp
        refine Or.inr ⟨rfl, st.cur.off, ?_, ?_⟩
        · simp only [hm, ↓reduceIte]; rw [hinv.loc]
        · simp only [Option.getD]; rw [hoff]
      · subst hs hp
        refine Or.inr ⟨rfl, p, ?_, ?_⟩
        · simp [hm]
        · rfl

/-- the lexer state at the end of a line, the remaining lines being `ls` -/
theorem nextLoop_lines (f : List Char) : ∀ (ls : List (List Char)), (∀ l ∈ ls, noNl l) →
    ∀ n st start pend, st.cur.rest = tailLines ls → CurInv f st.cur → (tailLines ls).length + 1 ≤ n →
      ModeOK f st.mode start pend → cont f (nextLoop f n st start) = declLines f ls pend := by
  intro ls
  induction ls with
  | nil =>
    intro _ n st start pend hrest hinv hn hmode
    simp only [tailLines] at hrest
    obtain ⟨n, rfl⟩ : ∃ m, n = m + 1 := ⟨n - 1, by omega⟩
    rw [nextLoop_nil f n st start hrest]
    rcases hmode with ⟨hm, hs, hp⟩ | ⟨hm, p, hs, hp⟩
    · subst hs hp
      simp only [hm]
      rfl
    · subst hs hp
      simp only [hm]
      rw [mkBlock_some]
      simp only [cont, declLines, flushTok]
      -- at the end of input in mode Unknown the stream is over
      have : toksOf (lexAllS f { st with mode := .unknown }) = some [] := by
        rw [toksOf_lexAllS]
        unfold lexNext
        have hr2 : (st.cur.skipWs).rest = [] := by rw [Cur.skipWs_rest, hrest]; rfl
        rw [nextLoop_nil f _ _ none hr2]
        rfl
      rw [this]
      rfl
  | cons l ls ih =>
    intro hnl n st start pend hrest hinv hn hmode
    have hl : noNl l := hnl l (by simp)
    have hmd : st.mode ≠ .directive := by
      rcases hmode with ⟨h, _⟩ | ⟨h, _⟩ <;> rw [h] <;> simp
    simp only [tailLines] at hrest
    simp only [tailLines, List.length_cons] at hn
    obtain ⟨n, rfl⟩ : ∃ m, n = m + 1 := ⟨n - 1, by omega⟩
    rw [nextLoop_cons f n st start '\n' (l ++ tailLines ls) hrest, if_neg hmd, if_pos rfl]
    have htl := stopNl_tailLines ls
    have hr2 : (st.cur.adv.skipWs).rest = l.dropWhile isInlineWs ++ tailLines ls := by
      rw [Cur.skipWs_rest, Cur.adv_rest, hrest, List.tail_cons]
      exact dropWhile_append_stop _ isInlineWs_nl _ _ htl
    have hinv2 : CurInv f (st.cur.adv.skipWs) := (((reach_adv f st.cur).trans (reach_skipWs f _)) hinv).1
    have hlen : (l.dropWhile isInlineWs ++ tailLines ls).length + 1 ≤ n := by
      have := length_dropWhile_le isInlineWs l
      simp only [List.length_append] at hn ⊢
      omega
    exact nextLoop_line f (l.dropWhile isInlineWs) (tailLines ls) (declLines f ls)
      (noNl_of_suffix (List.dropWhile_suffix _) hl) htl
      (fun n st start pend h1 h2 h3 h4 => ih (fun l' hl' => hnl l' (by simp [hl'])) n st start pend h1 h2 h3 h4)
      n { st with cur := st.cur.adv.skipWs } start pend hr2 hinv2 hlen hmode

/-- THE CHARACTER-LEVEL LINK: the token stream of a file is the declarative line-by-line token stream -/
theorem lexPre_decl (f : List Char) : toksOf (lexPreL f) = declLines f (splitLines f) none := by
  obtain ⟨hj, hnl, hne⟩ := splitLines_spec f
  cases hs : splitLines f with
  | nil => exact absurd hs hne
  | cons l ls =>
    rw [hs] at hj hnl
    rw [lexPreL_eq_S, toksOf_lexAllS]
    unfold lexNext
    have hinv : CurInv f (lexInit f).cur := ⟨Nat.zero_le _, rfl, rfl⟩
    have htl := stopNl_tailLines ls
    have hr2 : ((lexInit f).cur.skipWs).rest = l.dropWhile isInlineWs ++ tailLines ls := by
      rw [Cur.skipWs_rest]
      show f.dropWhile isInlineWs = _
      rw [← hj]
      exact dropWhile_append_stop _ isInlineWs_nl _ _ htl
    have hinv2 : CurInv f ((lexInit f).cur.skipWs) := ((reach_skipWs f _) hinv).1
    have hlen : (l.dropWhile isInlineWs ++ tailLines ls).length + 1 ≤ (lexInit f).cur.rest.length + 1 := by
      have := length_dropWhile_le isInlineWs l
      show _ ≤ f.length + 1
      rw [← hj]
      simp only [joinLines, List.length_append] at *
      omega
    exact nextLoop_line f (l.dropWhile isInlineWs) (tailLines ls) (declLines f ls)
      (noNl_of_suffix (List.dropWhile_suffix _) (hnl l (by simp))) htl
      (fun n st start pend h1 h2 h3 h4 =>
        nextLoop_lines f ls (fun l' hl' => hnl l' (by simp [hl'])) n st start pend h1 h2 h3 h4)
      _ { lexInit f with cur := (lexInit f).cur.skipWs } none none hr2 hinv2 hlen (Or.inl ⟨rfl, rfl, rfl⟩)

theorem toksOf_lexPreL (f : List Char) : toksOf (lexPreL f) = (match lexPre f with | .ok t => some t | .error _ => none) := by
  unfold lexPre
  cases lexPreL f <;> rfl

/-- `lexPre f` succeeds with `toks` iff the declarative reading gives `toks` -/
theorem lexPre_ok_iff (f : List Char) (toks : List PTok) :
    lexPre f = .ok toks ↔ declLines f (splitLines f) none = some toks := by
  rw [← lexPre_decl, toksOf_lexPreL]
  cases lexPre f <;> simp

end Slicec.Pp
