/-
  C08 lemmas, part 1: the hand-mirrored encoders of Model/Request.lean agree with the schema-driven encoder of
  Model/SchemaCodec.lean on the untyped image `toVal*` of a request — for slice/Compiler's schema (`Gen.CompilerSchema`)
  and the Rust field orders / discriminants (`Gen.EncoderShapes`). Together with `decTy_encTy` this gives the
  round trip through the schema-driven *decoder*. (The per-struct lemmas are mechanical; their statements carry the
  schema's field lists literally, so a changed schema row re-opens them.)
  Part 2: the conversion's numeric type ids point backwards to anonymous-type symbols.
-/
import SlicecVerif.Model.Request
import SlicecVerif.Lemmas.SchemaCodec

namespace Slicec

open Gen (STy SField SStruct SVariant SEnum SAlias SOp)
open ReqDoc

abbrev CS : Schema := compilerSchema

/-! ### struct bodies as a flat concatenation -/

/-- bits and the encoded parts of a body, field by field (an unset optional field contributes a bit and no part) -/
def bodyParts (enc : STy → SVal → Option Bytes) : List SField → List SVal → Option (List Bool × List (Option Bytes))
  | [], [] => some ([], [])
  | f :: fs, v :: vs =>
    if f.tag.isSome || f.stream then none
    else if f.optional then
      match v with
      | .present x => match bodyParts enc fs vs with | some (b, p) => some (true :: b, enc f.ty x :: p) | none => none
      | .absent => match bodyParts enc fs vs with | some (b, p) => some (false :: b, p) | none => none
      | _ => none
    else match bodyParts enc fs vs with | some (b, p) => some (b, enc f.ty v :: p) | none => none
  | _, _ => none

theorem catOpt_cons (x : Option Bytes) (xs : List (Option Bytes)) :
    catOpt (x :: xs) = match x, catOpt xs with | some a, some b => some (a ++ b) | _, _ => none := by
  cases x <;> cases h : catOpt xs <;> simp [catOpt, h]

theorem catOpt_nil_head (xs : List (Option Bytes)) : catOpt (some [] :: xs) = catOpt xs := by
  rw [catOpt_cons]; cases catOpt xs <;> simp

theorem catOpt_append (ps qs : List (Option Bytes)) :
    catOpt (ps ++ qs) = match catOpt ps, catOpt qs with | some a, some b => some (a ++ b) | _, _ => none := by
  induction ps with
  | nil => simp [catOpt]; cases catOpt qs <;> simp
  | cons p ps ih =>
    simp only [List.cons_append, catOpt_cons, ih]
    cases p <;> cases catOpt ps <;> cases catOpt qs <;> simp

theorem catOpt_nest (a : Option Bytes) (xs : List (Option Bytes)) : catOpt [a, catOpt xs] = catOpt (a :: xs) := by
  simp only [catOpt_cons, catOpt]
  cases a <;> cases catOpt xs <;> simp

theorem encFields_parts (enc : STy → SVal → Option Bytes) (fs : List SField) : ∀ (vs : List SVal),
    encFields enc fs vs =
      match bodyParts enc fs vs with
      | none => none
      | some (bits, parts) => match catOpt parts with | some body => some (bits, body) | none => none := by
  induction fs with
  | nil => intro vs; cases vs <;> simp [encFields, bodyParts, catOpt]
  | cons f fs ih =>
    intro vs
    cases vs with
    | nil => simp [encFields, bodyParts]
    | cons v vs =>
      simp only [encFields, bodyParts]
      split
      · rfl
      · split
        · cases v with
          | present x =>
            simp only [ih vs]
            cases bodyParts enc fs vs with
            | none => simp
            | some bp =>
              obtain ⟨b, p⟩ := bp
              cases h1 : enc f.ty x <;> cases h2 : catOpt p <;> simp [catOpt_cons, h1, h2]
          | absent =>
            simp only [ih vs]
            cases bodyParts enc fs vs with
            | none => simp
            | some bp =>
              obtain ⟨b, p⟩ := bp
              cases h2 : catOpt p <;> simp [h2]
          | _ => rfl
        · simp only [ih vs]
          cases bodyParts enc fs vs with
          | none => simp
          | some bp =>
            obtain ⟨b, p⟩ := bp
            cases h1 : enc f.ty v <;> cases h2 : catOpt p <;> simp [catOpt_cons, h1, h2]

theorem encBody_parts (enc : STy → SVal → Option Bytes) (compact : Bool) (fs : List SField) (vs : List SVal) :
    encBody enc compact fs vs =
      match bodyParts enc fs vs with
      | none => none
      | some (bits, parts) =>
        catOpt (some (packBits ((optCount fs + 7) / 8) bits) :: (parts ++ [if compact then some [] else tagEndB])) := by
  simp only [encBody, encFields_parts]
  cases bodyParts enc fs vs with
  | none => rfl
  | some bp =>
    obtain ⟨bits, parts⟩ := bp
    cases h1 : catOpt parts <;> cases h2 : (if compact = true then some [] else tagEndB) <;>
      simp [catOpt_cons, catOpt_append, catOpt, h1, h2]

/-! ### leaves -/

theorem fuel_succ (F : Nat) (h : 1 ≤ F) : ∃ f, F = f + 1 := ⟨F - 1, by omega⟩

theorem enc_str (F : Nat) (h : 1 ≤ F) (s : Bytes) : encTy CS F (.prim "string") (.str s) = encStr s := by
  obtain ⟨f, rfl⟩ := fuel_succ F h; rfl
theorem enc_bool (F : Nat) (h : 1 ≤ F) (b : Bool) : encTy CS F (.prim "bool") (.bool b) = encBool b := by
  obtain ⟨f, rfl⟩ := fuel_succ F h; rfl
theorem enc_u64 (F : Nat) (h : 1 ≤ F) (v : Int) : encTy CS F (.prim "uint64") (.int v) = encU64 v := by
  obtain ⟨f, rfl⟩ := fuel_succ F h; rfl
theorem enc_i32 (F : Nat) (h : 1 ≤ F) (v : Int) : encTy CS F (.prim "int32") (.int v) = encI32 v := by
  obtain ⟨f, rfl⟩ := fuel_succ F h; rfl
theorem enc_varint32 (F : Nat) (h : 1 ≤ F) (v : Int) : encTy CS F (.prim "varint32") (.int v) = encTagValue v := by
  obtain ⟨f, rfl⟩ := fuel_succ F h; rfl
theorem enc_TypeId (F : Nat) (h : 2 ≤ F) (s : Bytes) : encTy CS F (.named "TypeId") (.str s) = encStr s := by
  obtain ⟨f, rfl⟩ : ∃ f, F = f + 2 := ⟨F - 2, by omega⟩; rfl
theorem enc_EntityId (F : Nat) (h : 2 ≤ F) (s : Bytes) : encTy CS F (.named "EntityId") (.str s) = encStr s := by
  obtain ⟨f, rfl⟩ : ∃ f, F = f + 2 := ⟨F - 2, by omega⟩; rfl

theorem encList_map_congr {α} (g : α → SVal) (e1 : SVal → Option Bytes) (e2 : α → Option Bytes) (xs : List α)
    (h : ∀ x, e1 (g x) = e2 x) : encList e1 (xs.map g) = encList e2 xs := by
  induction xs with
  | nil => rfl
  | cons x xs ih => simp only [List.map_cons, encList, h x, ih]

theorem enc_seq_map {α} (S : Schema) (F : Nat) (h : 1 ≤ F) (t : STy) (g : α → SVal) (e : α → Option Bytes) (xs : List α)
    (hg : ∀ x, encTy S (F - 1) t (g x) = e x) : encTy S F (.seq t false) (.list (xs.map g)) = encSeqOf e xs := by
  obtain ⟨f, rfl⟩ := fuel_succ F h
  simp only [Nat.add_sub_cancel] at hg
  simp only [encTy, Bool.false_eq_true, if_false, List.length_map, encSeqOf]
  rw [encList_map_congr g _ e xs hg]

theorem enc_seq_str (F : Nat) (h : 2 ≤ F) (xs : List Bytes) :
    encTy CS F (.seq (.prim "string") false) (.list (xs.map .str)) = encSeqOf encStr xs :=
  enc_seq_map CS F (by omega) _ _ _ xs (fun x => enc_str _ (by omega) x)

theorem enc_seq_EntityId (F : Nat) (h : 3 ≤ F) (xs : List Bytes) :
    encTy CS F (.seq (.named "EntityId") false) (.list (xs.map .str)) = encSeqOf encStr xs :=
  enc_seq_map CS F (by omega) _ _ _ xs (fun x => enc_EntityId _ (by omega) x)

/-! ### the types of the schema, bottom up -/

theorem enc_struct_Attribute (F : Nat) (h : 1 ≤ F) (v1 v2 : SVal) :
    encTy CS F (.named "Attribute") (.struct [v1, v2]) =
      catOpt [some [], encTy CS (F - 1) (.prim "string") v1, encTy CS (F - 1) (.seq (.prim "string") false) v2, tagEndB] := by
  obtain ⟨f, rfl⟩ : ∃ f, F = f + 1 := ⟨F - 1, by omega⟩
  show encBody (encTy CS f) false [⟨"directive", (.prim "string"), false, none, false⟩, ⟨"args", (.seq (.prim "string") false), false, none, false⟩] _ = _
  rw [encBody_parts]; rfl

theorem mirror_Attribute (F : Nat) (h : 3 ≤ F) (x : AttributeV) :
    encTy CS F (.named "Attribute") (toValAttribute x) = encodeAttribute x := by
  have e : encodeAttribute x = catOpt [encStr x.directive, encSeqOf encStr x.args, tagEndB] := rfl
  rw [e, toValAttribute, enc_struct_Attribute F (by omega)]
  simp (disch := omega) only [enc_str, enc_seq_str, catOpt_nil_head]

theorem mirror_seq_Attribute (F : Nat) (h : 4 ≤ F) (xs : List AttributeV) :
    encTy CS F (.seq (.named "Attribute") false) (.list (xs.map toValAttribute)) = encSeqOf encodeAttribute xs :=
  enc_seq_map CS F (by omega) _ _ _ xs (fun x => mirror_Attribute _ (by omega) x)

theorem enc_struct_TypeRef (F : Nat) (h : 1 ≤ F) (v1 v2 v3 : SVal) :
    encTy CS F (.named "TypeRef") (.struct [v1, v2, v3]) =
      catOpt [some [], encTy CS (F - 1) (.named "TypeId") v1, encTy CS (F - 1) (.prim "bool") v2, encTy CS (F - 1) (.seq (.named "Attribute") false) v3, tagEndB] := by
  obtain ⟨f, rfl⟩ : ∃ f, F = f + 1 := ⟨F - 1, by omega⟩
  show encBody (encTy CS f) false [⟨"typeId", (.named "TypeId"), false, none, false⟩, ⟨"isOptional", (.prim "bool"), false, none, false⟩, ⟨"typeAttributes", (.seq (.named "Attribute") false), false, none, false⟩] _ = _
  rw [encBody_parts]; rfl

theorem mirror_TypeRef (F : Nat) (h : 5 ≤ F) (x : TypeRefV) :
    encTy CS F (.named "TypeRef") (toValTypeRef x) = encodeTypeRef x := by
  have e : encodeTypeRef x = catOpt [encStr x.typeId.render, encBool x.isOptional, encSeqOf encodeAttribute x.typeAttributes, tagEndB] := rfl
  rw [e, toValTypeRef, enc_struct_TypeRef F (by omega)]
  simp (disch := omega) only [enc_TypeId, enc_bool, mirror_seq_Attribute, catOpt_nil_head]

theorem mirror_seq_TypeRef (F : Nat) (h : 6 ≤ F) (xs : List TypeRefV) :
    encTy CS F (.seq (.named "TypeRef") false) (.list (xs.map toValTypeRef)) = encSeqOf encodeTypeRef xs :=
  enc_seq_map CS F (by omega) _ _ _ xs (fun x => mirror_TypeRef _ (by omega) x)

theorem enc_enum_MsgComp_0 (F : Nat) (h : 1 ≤ F) (v : SVal) :
    encTy CS F (.named "MessageComponent") (.variant 0 [v]) =
      catOpt [encVarintI (-(2 ^ 31)) (2 ^ 31) 0, catOpt [some [], encTy CS (F - 1) (.prim "string") v, tagEndB]] := by
  obtain ⟨f, rfl⟩ := fuel_succ F h
  show catOpt [encVarintI (-(2 ^ 31)) (2 ^ 31) 0, encBody (encTy CS f) false [⟨"v", .prim "string", false, none, false⟩] [v]] = _
  rw [encBody_parts]; rfl

theorem enc_enum_MsgComp_1 (F : Nat) (h : 1 ≤ F) (v : SVal) :
    encTy CS F (.named "MessageComponent") (.variant 1 [v]) =
      catOpt [encVarintI (-(2 ^ 31)) (2 ^ 31) 1, catOpt [some [], encTy CS (F - 1) (.named "EntityId") v, tagEndB]] := by
  obtain ⟨f, rfl⟩ := fuel_succ F h
  show catOpt [encVarintI (-(2 ^ 31)) (2 ^ 31) 1, encBody (encTy CS f) false [⟨"v", .named "EntityId", false, none, false⟩] [v]] = _
  rw [encBody_parts]; rfl

theorem mirror_MsgComp (F : Nat) (h : 3 ≤ F) (x : MsgCompV) :
    encTy CS F (.named "MessageComponent") (toValMsgComp x) = encodeMsgComp x := by
  cases x with
  | text s =>
    have e : encodeMsgComp (.text s) = catOpt [encDisc "MessageComponent" "Text", encStr s, tagEndB] := rfl
    rw [e, toValMsgComp, enc_enum_MsgComp_0 F (by omega)]
    simp (disch := omega) only [enc_str, catOpt_nil_head, catOpt_nest]
    rw [show encVarintI (-(2 ^ 31)) (2 ^ 31) 0 = encDisc "MessageComponent" "Text" by decide]
  | link s =>
    have e : encodeMsgComp (.link s) = catOpt [encDisc "MessageComponent" "Link", encStr s, tagEndB] := rfl
    rw [e, toValMsgComp, enc_enum_MsgComp_1 F (by omega)]
    simp (disch := omega) only [enc_EntityId, catOpt_nil_head, catOpt_nest]
    rw [show encVarintI (-(2 ^ 31)) (2 ^ 31) 1 = encDisc "MessageComponent" "Link" by decide]

theorem mirror_seq_MsgComp (F : Nat) (h : 4 ≤ F) (xs : List MsgCompV) :
    encTy CS F (.seq (.named "MessageComponent") false) (.list (xs.map toValMsgComp)) = encSeqOf encodeMsgComp xs :=
  enc_seq_map CS F (by omega) _ _ _ xs (fun x => mirror_MsgComp _ (by omega) x)

theorem enc_struct_DocComment (F : Nat) (h : 1 ≤ F) (v1 v2 : SVal) :
    encTy CS F (.named "DocComment") (.struct [v1, v2]) =
      catOpt [some [], encTy CS (F - 1) (.seq (.named "MessageComponent") false) v1, encTy CS (F - 1) (.seq (.named "EntityId") false) v2, tagEndB] := by
  obtain ⟨f, rfl⟩ : ∃ f, F = f + 1 := ⟨F - 1, by omega⟩
  show encBody (encTy CS f) false [⟨"overview", (.seq (.named "MessageComponent") false), false, none, false⟩, ⟨"seeTags", (.seq (.named "EntityId") false), false, none, false⟩] _ = _
  rw [encBody_parts]; rfl

theorem mirror_DocComment (F : Nat) (h : 5 ≤ F) (x : DocCommentV) :
    encTy CS F (.named "DocComment") (toValDocComment x) = encodeDocComment x := by
  have e : encodeDocComment x = catOpt [encSeqOf encodeMsgComp x.overview, encSeqOf encStr x.seeTags, tagEndB] := rfl
  rw [e, toValDocComment, enc_struct_DocComment F (by omega)]
  simp (disch := omega) only [mirror_seq_MsgComp, enc_seq_EntityId, catOpt_nil_head]

theorem mirror_seq_DocComment (F : Nat) (h : 6 ≤ F) (xs : List DocCommentV) :
    encTy CS F (.seq (.named "DocComment") false) (.list (xs.map toValDocComment)) = encSeqOf encodeDocComment xs :=
  enc_seq_map CS F (by omega) _ _ _ xs (fun x => mirror_DocComment _ (by omega) x)

theorem enc_struct_EntityInfo_present (F : Nat) (h : 1 ≤ F) (v1 v2 c : SVal) :
    encTy CS F (.named "EntityInfo") (.struct [v1, v2, .present c]) =
      catOpt [some [1], encTy CS (F - 1) (.prim "string") v1, encTy CS (F - 1) (.seq (.named "Attribute") false) v2,
              encTy CS (F - 1) (.named "DocComment") c, tagEndB] := by
  obtain ⟨f, rfl⟩ := fuel_succ F h
  show encBody (encTy CS f) false [⟨"identifier", (.prim "string"), false, none, false⟩, ⟨"attributes", (.seq (.named "Attribute") false), false, none, false⟩, ⟨"comment", (.named "DocComment"), true, none, false⟩] _ = _
  rw [encBody_parts]; rfl

theorem enc_struct_EntityInfo_absent (F : Nat) (h : 1 ≤ F) (v1 v2 : SVal) :
    encTy CS F (.named "EntityInfo") (.struct [v1, v2, .absent]) =
      catOpt [some [0], encTy CS (F - 1) (.prim "string") v1, encTy CS (F - 1) (.seq (.named "Attribute") false) v2, tagEndB] := by
  obtain ⟨f, rfl⟩ := fuel_succ F h
  show encBody (encTy CS f) false [⟨"identifier", (.prim "string"), false, none, false⟩, ⟨"attributes", (.seq (.named "Attribute") false), false, none, false⟩, ⟨"comment", (.named "DocComment"), true, none, false⟩] _ = _
  rw [encBody_parts]; rfl

theorem catOpt_mid_nil (ps qs : List (Option Bytes)) : catOpt (ps ++ some [] :: qs) = catOpt (ps ++ qs) := by
  rw [catOpt_append, catOpt_append, catOpt_nil_head]

theorem mirror_EntityInfo (F : Nat) (h : 6 ≤ F) (x : EntityInfoV) :
    encTy CS F (.named "EntityInfo") (toValEntityInfo x) = encodeEntityInfo x := by
  obtain ⟨ident, attrs, c⟩ := x
  cases c with
  | some c =>
    have e : encodeEntityInfo ⟨ident, attrs, some c⟩ =
        catOpt [some [1], encStr ident, encSeqOf encodeAttribute attrs, encodeDocComment c, tagEndB] := rfl
    rw [e]
    show encTy CS F (.named "EntityInfo") (.struct [.str ident, .list (attrs.map toValAttribute), .present (toValDocComment c)]) = _
    rw [enc_struct_EntityInfo_present F (by omega)]
    simp (disch := omega) only [enc_str, mirror_seq_Attribute, mirror_DocComment]
  | none =>
    have e : encodeEntityInfo ⟨ident, attrs, none⟩ =
        catOpt ([some [0], encStr ident, encSeqOf encodeAttribute attrs] ++ some [] :: [tagEndB]) := rfl
    rw [e, catOpt_mid_nil]
    show encTy CS F (.named "EntityInfo") (.struct [.str ident, .list (attrs.map toValAttribute), .absent]) = _
    rw [enc_struct_EntityInfo_absent F (by omega)]
    simp (disch := omega) only [enc_str, mirror_seq_Attribute, List.cons_append, List.nil_append]

theorem mirror_seq_EntityInfo (F : Nat) (h : 7 ≤ F) (xs : List EntityInfoV) :
    encTy CS F (.seq (.named "EntityInfo") false) (.list (xs.map toValEntityInfo)) = encSeqOf encodeEntityInfo xs :=
  enc_seq_map CS F (by omega) _ _ _ xs (fun x => mirror_EntityInfo _ (by omega) x)

theorem enc_struct_Module (F : Nat) (h : 1 ≤ F) (v1 v2 : SVal) :
    encTy CS F (.named "Module") (.struct [v1, v2]) =
      catOpt [some [], encTy CS (F - 1) (.prim "string") v1, encTy CS (F - 1) (.seq (.named "Attribute") false) v2, tagEndB] := by
  obtain ⟨f, rfl⟩ : ∃ f, F = f + 1 := ⟨F - 1, by omega⟩
  show encBody (encTy CS f) false [⟨"identifier", (.prim "string"), false, none, false⟩, ⟨"attributes", (.seq (.named "Attribute") false), false, none, false⟩] _ = _
  rw [encBody_parts]; rfl

theorem mirror_Module (F : Nat) (h : 5 ≤ F) (x : ModuleV) :
    encTy CS F (.named "Module") (toValModule x) = encodeModule x := by
  have e : encodeModule x = catOpt [encStr x.identifier, encSeqOf encodeAttribute x.attributes, tagEndB] := rfl
  rw [e, toValModule, enc_struct_Module F (by omega)]
  simp (disch := omega) only [enc_str, mirror_seq_Attribute, catOpt_nil_head]

theorem mirror_seq_Module (F : Nat) (h : 6 ≤ F) (xs : List ModuleV) :
    encTy CS F (.seq (.named "Module") false) (.list (xs.map toValModule)) = encSeqOf encodeModule xs :=
  enc_seq_map CS F (by omega) _ _ _ xs (fun x => mirror_Module _ (by omega) x)

theorem enc_struct_Field_present (F : Nat) (h : 1 ≤ F) (v1 t v3 : SVal) :
    encTy CS F (.named "Field") (.struct [v1, .present t, v3]) =
      catOpt [some [1], encTy CS (F - 1) (.named "EntityInfo") v1, encTy CS (F - 1) (.prim "varint32") t,
              encTy CS (F - 1) (.named "TypeRef") v3, tagEndB] := by
  obtain ⟨f, rfl⟩ := fuel_succ F h
  show encBody (encTy CS f) false [⟨"entityInfo", (.named "EntityInfo"), false, none, false⟩, ⟨"tag", (.prim "varint32"), true, none, false⟩, ⟨"dataType", (.named "TypeRef"), false, none, false⟩] _ = _
  rw [encBody_parts]; rfl

theorem enc_struct_Field_absent (F : Nat) (h : 1 ≤ F) (v1 v3 : SVal) :
    encTy CS F (.named "Field") (.struct [v1, .absent, v3]) =
      catOpt [some [0], encTy CS (F - 1) (.named "EntityInfo") v1, encTy CS (F - 1) (.named "TypeRef") v3, tagEndB] := by
  obtain ⟨f, rfl⟩ := fuel_succ F h
  show encBody (encTy CS f) false [⟨"entityInfo", (.named "EntityInfo"), false, none, false⟩, ⟨"tag", (.prim "varint32"), true, none, false⟩, ⟨"dataType", (.named "TypeRef"), false, none, false⟩] _ = _
  rw [encBody_parts]; rfl

theorem mirror_Field (F : Nat) (h : 7 ≤ F) (x : FieldV) :
    encTy CS F (.named "Field") (toValField x) = encodeField x := by
  obtain ⟨ei, tag, dt⟩ := x
  cases tag with
  | some t =>
    have e : encodeField ⟨ei, some t, dt⟩ =
        catOpt [some [1], encodeEntityInfo ei, encTagValue t, encodeTypeRef dt, tagEndB] := rfl
    rw [e]
    show encTy CS F (.named "Field") (.struct [toValEntityInfo ei, .present (.int t), toValTypeRef dt]) = _
    rw [enc_struct_Field_present F (by omega)]
    simp (disch := omega) only [mirror_EntityInfo, enc_varint32, mirror_TypeRef]
  | none =>
    have e : encodeField ⟨ei, none, dt⟩ =
        catOpt ([some [0], encodeEntityInfo ei] ++ some [] :: [encodeTypeRef dt, tagEndB]) := rfl
    rw [e, catOpt_mid_nil]
    show encTy CS F (.named "Field") (.struct [toValEntityInfo ei, .absent, toValTypeRef dt]) = _
    rw [enc_struct_Field_absent F (by omega)]
    simp (disch := omega) only [mirror_EntityInfo, mirror_TypeRef, List.cons_append, List.nil_append]

theorem mirror_seq_Field (F : Nat) (h : 8 ≤ F) (xs : List FieldV) :
    encTy CS F (.seq (.named "Field") false) (.list (xs.map toValField)) = encSeqOf encodeField xs :=
  enc_seq_map CS F (by omega) _ _ _ xs (fun x => mirror_Field _ (by omega) x)

theorem enc_struct_Struct (F : Nat) (h : 1 ≤ F) (v1 v2 v3 : SVal) :
    encTy CS F (.named "Struct") (.struct [v1, v2, v3]) =
      catOpt [some [], encTy CS (F - 1) (.named "EntityInfo") v1, encTy CS (F - 1) (.prim "bool") v2, encTy CS (F - 1) (.seq (.named "Field") false) v3, tagEndB] := by
  obtain ⟨f, rfl⟩ : ∃ f, F = f + 1 := ⟨F - 1, by omega⟩
  show encBody (encTy CS f) false [⟨"entityInfo", (.named "EntityInfo"), false, none, false⟩, ⟨"isCompact", (.prim "bool"), false, none, false⟩, ⟨"fields", (.seq (.named "Field") false), false, none, false⟩] _ = _
  rw [encBody_parts]; rfl

theorem mirror_Struct (F : Nat) (h : 9 ≤ F) (x : StructV) :
    encTy CS F (.named "Struct") (toValStruct x) = encodeStruct x := by
  have e : encodeStruct x = catOpt [encodeEntityInfo x.entityInfo, encBool x.isCompact, encSeqOf encodeField x.fields, tagEndB] := rfl
  rw [e, toValStruct, enc_struct_Struct F (by omega)]
  simp (disch := omega) only [mirror_EntityInfo, enc_bool, mirror_seq_Field, catOpt_nil_head]

theorem mirror_seq_Struct (F : Nat) (h : 10 ≤ F) (xs : List StructV) :
    encTy CS F (.seq (.named "Struct") false) (.list (xs.map toValStruct)) = encSeqOf encodeStruct xs :=
  enc_seq_map CS F (by omega) _ _ _ xs (fun x => mirror_Struct _ (by omega) x)

theorem enc_struct_Operation (F : Nat) (h : 1 ≤ F) (v1 v2 v3 v4 v5 v6 : SVal) :
    encTy CS F (.named "Operation") (.struct [v1, v2, v3, v4, v5, v6]) =
      catOpt [some [], encTy CS (F - 1) (.named "EntityInfo") v1, encTy CS (F - 1) (.prim "bool") v2, encTy CS (F - 1) (.seq (.named "Field") false) v3, encTy CS (F - 1) (.prim "bool") v4, encTy CS (F - 1) (.seq (.named "Field") false) v5, encTy CS (F - 1) (.prim "bool") v6, tagEndB] := by
  obtain ⟨f, rfl⟩ : ∃ f, F = f + 1 := ⟨F - 1, by omega⟩
  show encBody (encTy CS f) false [⟨"entityInfo", (.named "EntityInfo"), false, none, false⟩, ⟨"isIdempotent", (.prim "bool"), false, none, false⟩, ⟨"parameters", (.seq (.named "Field") false), false, none, false⟩, ⟨"hasStreamedParameter", (.prim "bool"), false, none, false⟩, ⟨"returnType", (.seq (.named "Field") false), false, none, false⟩, ⟨"hasStreamedReturn", (.prim "bool"), false, none, false⟩] _ = _
  rw [encBody_parts]; rfl

theorem mirror_Operation (F : Nat) (h : 9 ≤ F) (x : OperationV) :
    encTy CS F (.named "Operation") (toValOperation x) = encodeOperation x := by
  have e : encodeOperation x = catOpt [encodeEntityInfo x.entityInfo, encBool x.isIdempotent, encSeqOf encodeField x.parameters, encBool x.hasStreamedParameter, encSeqOf encodeField x.returnType, encBool x.hasStreamedReturn, tagEndB] := rfl
  rw [e, toValOperation, enc_struct_Operation F (by omega)]
  simp (disch := omega) only [mirror_EntityInfo, enc_bool, mirror_seq_Field, catOpt_nil_head]

theorem mirror_seq_Operation (F : Nat) (h : 10 ≤ F) (xs : List OperationV) :
    encTy CS F (.seq (.named "Operation") false) (.list (xs.map toValOperation)) = encSeqOf encodeOperation xs :=
  enc_seq_map CS F (by omega) _ _ _ xs (fun x => mirror_Operation _ (by omega) x)

theorem enc_struct_Interface (F : Nat) (h : 1 ≤ F) (v1 v2 v3 : SVal) :
    encTy CS F (.named "Interface") (.struct [v1, v2, v3]) =
      catOpt [some [], encTy CS (F - 1) (.named "EntityInfo") v1, encTy CS (F - 1) (.seq (.named "EntityId") false) v2, encTy CS (F - 1) (.seq (.named "Operation") false) v3, tagEndB] := by
  obtain ⟨f, rfl⟩ : ∃ f, F = f + 1 := ⟨F - 1, by omega⟩
  show encBody (encTy CS f) false [⟨"entityInfo", (.named "EntityInfo"), false, none, false⟩, ⟨"bases", (.seq (.named "EntityId") false), false, none, false⟩, ⟨"operations", (.seq (.named "Operation") false), false, none, false⟩] _ = _
  rw [encBody_parts]; rfl

theorem mirror_Interface (F : Nat) (h : 11 ≤ F) (x : InterfaceV) :
    encTy CS F (.named "Interface") (toValInterface x) = encodeInterface x := by
  have e : encodeInterface x = catOpt [encodeEntityInfo x.entityInfo, encSeqOf encStr x.bases, encSeqOf encodeOperation x.operations, tagEndB] := rfl
  rw [e, toValInterface, enc_struct_Interface F (by omega)]
  simp (disch := omega) only [mirror_EntityInfo, enc_seq_EntityId, mirror_seq_Operation, catOpt_nil_head]

theorem mirror_seq_Interface (F : Nat) (h : 12 ≤ F) (xs : List InterfaceV) :
    encTy CS F (.seq (.named "Interface") false) (.list (xs.map toValInterface)) = encSeqOf encodeInterface xs :=
  enc_seq_map CS F (by omega) _ _ _ xs (fun x => mirror_Interface _ (by omega) x)

theorem enc_struct_Enumerator (F : Nat) (h : 1 ≤ F) (v1 v2 v3 : SVal) :
    encTy CS F (.named "Enumerator") (.struct [v1, v2, v3]) =
      catOpt [some [], encTy CS (F - 1) (.named "EntityInfo") v1, encTy CS (F - 1) (.prim "uint64") v2, encTy CS (F - 1) (.prim "bool") v3, tagEndB] := by
  obtain ⟨f, rfl⟩ : ∃ f, F = f + 1 := ⟨F - 1, by omega⟩
  show encBody (encTy CS f) false [⟨"entityInfo", (.named "EntityInfo"), false, none, false⟩, ⟨"absoluteValue", (.prim "uint64"), false, none, false⟩, ⟨"hasNegativeValue", (.prim "bool"), false, none, false⟩] _ = _
  rw [encBody_parts]; rfl

theorem mirror_Enumerator (F : Nat) (h : 7 ≤ F) (x : EnumeratorV) :
    encTy CS F (.named "Enumerator") (toValEnumerator x) = encodeEnumerator x := by
  have e : encodeEnumerator x = catOpt [encodeEntityInfo x.entityInfo, encU64 x.absoluteValue, encBool x.hasNegativeValue, tagEndB] := rfl
  rw [e, toValEnumerator, enc_struct_Enumerator F (by omega)]
  simp (disch := omega) only [mirror_EntityInfo, enc_u64, enc_bool, catOpt_nil_head]

theorem mirror_seq_Enumerator (F : Nat) (h : 8 ≤ F) (xs : List EnumeratorV) :
    encTy CS F (.seq (.named "Enumerator") false) (.list (xs.map toValEnumerator)) = encSeqOf encodeEnumerator xs :=
  enc_seq_map CS F (by omega) _ _ _ xs (fun x => mirror_Enumerator _ (by omega) x)

theorem enc_struct_BasicEnum (F : Nat) (h : 1 ≤ F) (v1 v2 v3 v4 : SVal) :
    encTy CS F (.named "BasicEnum") (.struct [v1, v2, v3, v4]) =
      catOpt [some [], encTy CS (F - 1) (.named "EntityInfo") v1, encTy CS (F - 1) (.prim "bool") v2, encTy CS (F - 1) (.named "TypeId") v3, encTy CS (F - 1) (.seq (.named "Enumerator") false) v4, tagEndB] := by
  obtain ⟨f, rfl⟩ : ∃ f, F = f + 1 := ⟨F - 1, by omega⟩
  show encBody (encTy CS f) false [⟨"entityInfo", (.named "EntityInfo"), false, none, false⟩, ⟨"isUnchecked", (.prim "bool"), false, none, false⟩, ⟨"underlying", (.named "TypeId"), false, none, false⟩, ⟨"enumerators", (.seq (.named "Enumerator") false), false, none, false⟩] _ = _
  rw [encBody_parts]; rfl

theorem mirror_BasicEnum (F : Nat) (h : 9 ≤ F) (x : BasicEnumV) :
    encTy CS F (.named "BasicEnum") (toValBasicEnum x) = encodeBasicEnum x := by
  have e : encodeBasicEnum x = catOpt [encodeEntityInfo x.entityInfo, encBool x.isUnchecked, encStr x.underlying, encSeqOf encodeEnumerator x.enumerators, tagEndB] := rfl
  rw [e, toValBasicEnum, enc_struct_BasicEnum F (by omega)]
  simp (disch := omega) only [mirror_EntityInfo, enc_bool, enc_TypeId, mirror_seq_Enumerator, catOpt_nil_head]

theorem mirror_seq_BasicEnum (F : Nat) (h : 10 ≤ F) (xs : List BasicEnumV) :
    encTy CS F (.seq (.named "BasicEnum") false) (.list (xs.map toValBasicEnum)) = encSeqOf encodeBasicEnum xs :=
  enc_seq_map CS F (by omega) _ _ _ xs (fun x => mirror_BasicEnum _ (by omega) x)

theorem enc_struct_Variant (F : Nat) (h : 1 ≤ F) (v1 v2 v3 : SVal) :
    encTy CS F (.named "Variant") (.struct [v1, v2, v3]) =
      catOpt [some [], encTy CS (F - 1) (.named "EntityInfo") v1, encTy CS (F - 1) (.prim "int32") v2, encTy CS (F - 1) (.seq (.named "Field") false) v3, tagEndB] := by
  obtain ⟨f, rfl⟩ : ∃ f, F = f + 1 := ⟨F - 1, by omega⟩
  show encBody (encTy CS f) false [⟨"entityInfo", (.named "EntityInfo"), false, none, false⟩, ⟨"discriminant", (.prim "int32"), false, none, false⟩, ⟨"fields", (.seq (.named "Field") false), false, none, false⟩] _ = _
  rw [encBody_parts]; rfl

theorem mirror_Variant (F : Nat) (h : 9 ≤ F) (x : VariantV) :
    encTy CS F (.named "Variant") (toValVariant x) = encodeVariant x := by
  have e : encodeVariant x = catOpt [encodeEntityInfo x.entityInfo, encI32 x.discriminant, encSeqOf encodeField x.fields, tagEndB] := rfl
  rw [e, toValVariant, enc_struct_Variant F (by omega)]
  simp (disch := omega) only [mirror_EntityInfo, enc_i32, mirror_seq_Field, catOpt_nil_head]

theorem mirror_seq_Variant (F : Nat) (h : 10 ≤ F) (xs : List VariantV) :
    encTy CS F (.seq (.named "Variant") false) (.list (xs.map toValVariant)) = encSeqOf encodeVariant xs :=
  enc_seq_map CS F (by omega) _ _ _ xs (fun x => mirror_Variant _ (by omega) x)

theorem enc_struct_VariantEnum (F : Nat) (h : 1 ≤ F) (v1 v2 v3 v4 : SVal) :
    encTy CS F (.named "VariantEnum") (.struct [v1, v2, v3, v4]) =
      catOpt [some [], encTy CS (F - 1) (.named "EntityInfo") v1, encTy CS (F - 1) (.prim "bool") v2, encTy CS (F - 1) (.prim "bool") v3, encTy CS (F - 1) (.seq (.named "Variant") false) v4, tagEndB] := by
  obtain ⟨f, rfl⟩ : ∃ f, F = f + 1 := ⟨F - 1, by omega⟩
  show encBody (encTy CS f) false [⟨"entityInfo", (.named "EntityInfo"), false, none, false⟩, ⟨"isCompact", (.prim "bool"), false, none, false⟩, ⟨"isUnchecked", (.prim "bool"), false, none, false⟩, ⟨"variants", (.seq (.named "Variant") false), false, none, false⟩] _ = _
  rw [encBody_parts]; rfl

theorem mirror_VariantEnum (F : Nat) (h : 11 ≤ F) (x : VariantEnumV) :
    encTy CS F (.named "VariantEnum") (toValVariantEnum x) = encodeVariantEnum x := by
  have e : encodeVariantEnum x = catOpt [encodeEntityInfo x.entityInfo, encBool x.isCompact, encBool x.isUnchecked, encSeqOf encodeVariant x.variants, tagEndB] := rfl
  rw [e, toValVariantEnum, enc_struct_VariantEnum F (by omega)]
  simp (disch := omega) only [mirror_EntityInfo, enc_bool, mirror_seq_Variant, catOpt_nil_head]

theorem mirror_seq_VariantEnum (F : Nat) (h : 12 ≤ F) (xs : List VariantEnumV) :
    encTy CS F (.seq (.named "VariantEnum") false) (.list (xs.map toValVariantEnum)) = encSeqOf encodeVariantEnum xs :=
  enc_seq_map CS F (by omega) _ _ _ xs (fun x => mirror_VariantEnum _ (by omega) x)

theorem enc_struct_CustomType (F : Nat) (h : 1 ≤ F) (v1 : SVal) :
    encTy CS F (.named "CustomType") (.struct [v1]) =
      catOpt [some [], encTy CS (F - 1) (.named "EntityInfo") v1, tagEndB] := by
  obtain ⟨f, rfl⟩ : ∃ f, F = f + 1 := ⟨F - 1, by omega⟩
  show encBody (encTy CS f) false [⟨"entityInfo", (.named "EntityInfo"), false, none, false⟩] _ = _
  rw [encBody_parts]; rfl

theorem mirror_CustomType (F : Nat) (h : 7 ≤ F) (x : CustomTypeV) :
    encTy CS F (.named "CustomType") (toValCustomType x) = encodeCustomType x := by
  have e : encodeCustomType x = catOpt [encodeEntityInfo x.entityInfo, tagEndB] := rfl
  rw [e, toValCustomType, enc_struct_CustomType F (by omega)]
  simp (disch := omega) only [mirror_EntityInfo, catOpt_nil_head]

theorem mirror_seq_CustomType (F : Nat) (h : 8 ≤ F) (xs : List CustomTypeV) :
    encTy CS F (.seq (.named "CustomType") false) (.list (xs.map toValCustomType)) = encSeqOf encodeCustomType xs :=
  enc_seq_map CS F (by omega) _ _ _ xs (fun x => mirror_CustomType _ (by omega) x)

theorem enc_struct_TypeAlias (F : Nat) (h : 1 ≤ F) (v1 v2 : SVal) :
    encTy CS F (.named "TypeAlias") (.struct [v1, v2]) =
      catOpt [some [], encTy CS (F - 1) (.named "EntityInfo") v1, encTy CS (F - 1) (.named "TypeRef") v2, tagEndB] := by
  obtain ⟨f, rfl⟩ : ∃ f, F = f + 1 := ⟨F - 1, by omega⟩
  show encBody (encTy CS f) false [⟨"entityInfo", (.named "EntityInfo"), false, none, false⟩, ⟨"underlyingType", (.named "TypeRef"), false, none, false⟩] _ = _
  rw [encBody_parts]; rfl

theorem mirror_TypeAlias (F : Nat) (h : 7 ≤ F) (x : TypeAliasV) :
    encTy CS F (.named "TypeAlias") (toValTypeAlias x) = encodeTypeAlias x := by
  have e : encodeTypeAlias x = catOpt [encodeEntityInfo x.entityInfo, encodeTypeRef x.underlyingType, tagEndB] := rfl
  rw [e, toValTypeAlias, enc_struct_TypeAlias F (by omega)]
  simp (disch := omega) only [mirror_EntityInfo, mirror_TypeRef, catOpt_nil_head]

theorem mirror_seq_TypeAlias (F : Nat) (h : 8 ≤ F) (xs : List TypeAliasV) :
    encTy CS F (.seq (.named "TypeAlias") false) (.list (xs.map toValTypeAlias)) = encSeqOf encodeTypeAlias xs :=
  enc_seq_map CS F (by omega) _ _ _ xs (fun x => mirror_TypeAlias _ (by omega) x)

theorem enc_struct_SequenceType (F : Nat) (h : 1 ≤ F) (v1 : SVal) :
    encTy CS F (.named "SequenceType") (.struct [v1]) =
      catOpt [some [], encTy CS (F - 1) (.named "TypeRef") v1, tagEndB] := by
  obtain ⟨f, rfl⟩ : ∃ f, F = f + 1 := ⟨F - 1, by omega⟩
  show encBody (encTy CS f) false [⟨"elementType", (.named "TypeRef"), false, none, false⟩] _ = _
  rw [encBody_parts]; rfl

theorem mirror_SequenceType (F : Nat) (h : 6 ≤ F) (x : SequenceTypeV) :
    encTy CS F (.named "SequenceType") (toValSequenceType x) = encodeSequenceType x := by
  have e : encodeSequenceType x = catOpt [encodeTypeRef x.elementType, tagEndB] := rfl
  rw [e, toValSequenceType, enc_struct_SequenceType F (by omega)]
  simp (disch := omega) only [mirror_TypeRef, catOpt_nil_head]

theorem mirror_seq_SequenceType (F : Nat) (h : 7 ≤ F) (xs : List SequenceTypeV) :
    encTy CS F (.seq (.named "SequenceType") false) (.list (xs.map toValSequenceType)) = encSeqOf encodeSequenceType xs :=
  enc_seq_map CS F (by omega) _ _ _ xs (fun x => mirror_SequenceType _ (by omega) x)

theorem enc_struct_DictionaryType (F : Nat) (h : 1 ≤ F) (v1 v2 : SVal) :
    encTy CS F (.named "DictionaryType") (.struct [v1, v2]) =
      catOpt [some [], encTy CS (F - 1) (.named "TypeRef") v1, encTy CS (F - 1) (.named "TypeRef") v2, tagEndB] := by
  obtain ⟨f, rfl⟩ : ∃ f, F = f + 1 := ⟨F - 1, by omega⟩
  show encBody (encTy CS f) false [⟨"keyType", (.named "TypeRef"), false, none, false⟩, ⟨"valueType", (.named "TypeRef"), false, none, false⟩] _ = _
  rw [encBody_parts]; rfl

theorem mirror_DictionaryType (F : Nat) (h : 6 ≤ F) (x : DictionaryTypeV) :
    encTy CS F (.named "DictionaryType") (toValDictionaryType x) = encodeDictionaryType x := by
  have e : encodeDictionaryType x = catOpt [encodeTypeRef x.keyType, encodeTypeRef x.valueType, tagEndB] := rfl
  rw [e, toValDictionaryType, enc_struct_DictionaryType F (by omega)]
  simp (disch := omega) only [mirror_TypeRef, catOpt_nil_head]

theorem mirror_seq_DictionaryType (F : Nat) (h : 7 ≤ F) (xs : List DictionaryTypeV) :
    encTy CS F (.seq (.named "DictionaryType") false) (.list (xs.map toValDictionaryType)) = encSeqOf encodeDictionaryType xs :=
  enc_seq_map CS F (by omega) _ _ _ xs (fun x => mirror_DictionaryType _ (by omega) x)

theorem enc_struct_ResultType (F : Nat) (h : 1 ≤ F) (v1 v2 : SVal) :
    encTy CS F (.named "ResultType") (.struct [v1, v2]) =
      catOpt [some [], encTy CS (F - 1) (.named "TypeRef") v1, encTy CS (F - 1) (.named "TypeRef") v2, tagEndB] := by
  obtain ⟨f, rfl⟩ : ∃ f, F = f + 1 := ⟨F - 1, by omega⟩
  show encBody (encTy CS f) false [⟨"successType", (.named "TypeRef"), false, none, false⟩, ⟨"failureType", (.named "TypeRef"), false, none, false⟩] _ = _
  rw [encBody_parts]; rfl

theorem mirror_ResultType (F : Nat) (h : 6 ≤ F) (x : ResultTypeV) :
    encTy CS F (.named "ResultType") (toValResultType x) = encodeResultType x := by
  have e : encodeResultType x = catOpt [encodeTypeRef x.successType, encodeTypeRef x.failureType, tagEndB] := rfl
  rw [e, toValResultType, enc_struct_ResultType F (by omega)]
  simp (disch := omega) only [mirror_TypeRef, catOpt_nil_head]

theorem mirror_seq_ResultType (F : Nat) (h : 7 ≤ F) (xs : List ResultTypeV) :
    encTy CS F (.seq (.named "ResultType") false) (.list (xs.map toValResultType)) = encSeqOf encodeResultType xs :=
  enc_seq_map CS F (by omega) _ _ _ xs (fun x => mirror_ResultType _ (by omega) x)

theorem enc_enum_Symbol_0 (F : Nat) (h : 1 ≤ F) (v : SVal) :
    encTy CS F (.named "Symbol") (.variant 0 [v]) =
      catOpt [encVarintI (-(2 ^ 31)) (2 ^ 31) 0, catOpt [some [], encTy CS (F - 1) (.named "Interface") v, tagEndB]] := by
  obtain ⟨f, rfl⟩ := fuel_succ F h
  show catOpt [encVarintI (-(2 ^ 31)) (2 ^ 31) 0, encBody (encTy CS f) false [⟨"v", .named "Interface", false, none, false⟩] [v]] = _
  rw [encBody_parts]; rfl

theorem enc_enum_Symbol_1 (F : Nat) (h : 1 ≤ F) (v : SVal) :
    encTy CS F (.named "Symbol") (.variant 1 [v]) =
      catOpt [encVarintI (-(2 ^ 31)) (2 ^ 31) 1, catOpt [some [], encTy CS (F - 1) (.named "BasicEnum") v, tagEndB]] := by
  obtain ⟨f, rfl⟩ := fuel_succ F h
  show catOpt [encVarintI (-(2 ^ 31)) (2 ^ 31) 1, encBody (encTy CS f) false [⟨"v", .named "BasicEnum", false, none, false⟩] [v]] = _
  rw [encBody_parts]; rfl

theorem enc_enum_Symbol_2 (F : Nat) (h : 1 ≤ F) (v : SVal) :
    encTy CS F (.named "Symbol") (.variant 2 [v]) =
      catOpt [encVarintI (-(2 ^ 31)) (2 ^ 31) 2, catOpt [some [], encTy CS (F - 1) (.named "VariantEnum") v, tagEndB]] := by
  obtain ⟨f, rfl⟩ := fuel_succ F h
  show catOpt [encVarintI (-(2 ^ 31)) (2 ^ 31) 2, encBody (encTy CS f) false [⟨"v", .named "VariantEnum", false, none, false⟩] [v]] = _
  rw [encBody_parts]; rfl

theorem enc_enum_Symbol_3 (F : Nat) (h : 1 ≤ F) (v : SVal) :
    encTy CS F (.named "Symbol") (.variant 3 [v]) =
      catOpt [encVarintI (-(2 ^ 31)) (2 ^ 31) 3, catOpt [some [], encTy CS (F - 1) (.named "Struct") v, tagEndB]] := by
  obtain ⟨f, rfl⟩ := fuel_succ F h
  show catOpt [encVarintI (-(2 ^ 31)) (2 ^ 31) 3, encBody (encTy CS f) false [⟨"v", .named "Struct", false, none, false⟩] [v]] = _
  rw [encBody_parts]; rfl

theorem enc_enum_Symbol_4 (F : Nat) (h : 1 ≤ F) (v : SVal) :
    encTy CS F (.named "Symbol") (.variant 4 [v]) =
      catOpt [encVarintI (-(2 ^ 31)) (2 ^ 31) 4, catOpt [some [], encTy CS (F - 1) (.named "CustomType") v, tagEndB]] := by
  obtain ⟨f, rfl⟩ := fuel_succ F h
  show catOpt [encVarintI (-(2 ^ 31)) (2 ^ 31) 4, encBody (encTy CS f) false [⟨"v", .named "CustomType", false, none, false⟩] [v]] = _
  rw [encBody_parts]; rfl

theorem enc_enum_Symbol_5 (F : Nat) (h : 1 ≤ F) (v : SVal) :
    encTy CS F (.named "Symbol") (.variant 5 [v]) =
      catOpt [encVarintI (-(2 ^ 31)) (2 ^ 31) 5, catOpt [some [], encTy CS (F - 1) (.named "SequenceType") v, tagEndB]] := by
  obtain ⟨f, rfl⟩ := fuel_succ F h
  show catOpt [encVarintI (-(2 ^ 31)) (2 ^ 31) 5, encBody (encTy CS f) false [⟨"v", .named "SequenceType", false, none, false⟩] [v]] = _
  rw [encBody_parts]; rfl

theorem enc_enum_Symbol_6 (F : Nat) (h : 1 ≤ F) (v : SVal) :
    encTy CS F (.named "Symbol") (.variant 6 [v]) =
      catOpt [encVarintI (-(2 ^ 31)) (2 ^ 31) 6, catOpt [some [], encTy CS (F - 1) (.named "DictionaryType") v, tagEndB]] := by
  obtain ⟨f, rfl⟩ := fuel_succ F h
  show catOpt [encVarintI (-(2 ^ 31)) (2 ^ 31) 6, encBody (encTy CS f) false [⟨"v", .named "DictionaryType", false, none, false⟩] [v]] = _
  rw [encBody_parts]; rfl

theorem enc_enum_Symbol_7 (F : Nat) (h : 1 ≤ F) (v : SVal) :
    encTy CS F (.named "Symbol") (.variant 7 [v]) =
      catOpt [encVarintI (-(2 ^ 31)) (2 ^ 31) 7, catOpt [some [], encTy CS (F - 1) (.named "ResultType") v, tagEndB]] := by
  obtain ⟨f, rfl⟩ := fuel_succ F h
  show catOpt [encVarintI (-(2 ^ 31)) (2 ^ 31) 7, encBody (encTy CS f) false [⟨"v", .named "ResultType", false, none, false⟩] [v]] = _
  rw [encBody_parts]; rfl

theorem enc_enum_Symbol_8 (F : Nat) (h : 1 ≤ F) (v : SVal) :
    encTy CS F (.named "Symbol") (.variant 8 [v]) =
      catOpt [encVarintI (-(2 ^ 31)) (2 ^ 31) 8, catOpt [some [], encTy CS (F - 1) (.named "TypeAlias") v, tagEndB]] := by
  obtain ⟨f, rfl⟩ := fuel_succ F h
  show catOpt [encVarintI (-(2 ^ 31)) (2 ^ 31) 8, encBody (encTy CS f) false [⟨"v", .named "TypeAlias", false, none, false⟩] [v]] = _
  rw [encBody_parts]; rfl

theorem mirror_Symbol (F : Nat) (h : 12 ≤ F) (x : SymbolV) :
    encTy CS F (.named "Symbol") (toValSymbol x) = encodeSymbol x := by
  cases x with
  | interface v =>
    have e : encodeSymbol (.interface v) = catOpt [encDisc "Symbol" "Interface", encodeInterface v, tagEndB] := rfl
    rw [e, toValSymbol, enc_enum_Symbol_0 F (by omega)]
    simp (disch := omega) only [mirror_Interface, catOpt_nil_head, catOpt_nest]
    rw [show encVarintI (-(2 ^ 31)) (2 ^ 31) 0 = encDisc "Symbol" "Interface" by decide]
  | basicEnum v =>
    have e : encodeSymbol (.basicEnum v) = catOpt [encDisc "Symbol" "BasicEnum", encodeBasicEnum v, tagEndB] := rfl
    rw [e, toValSymbol, enc_enum_Symbol_1 F (by omega)]
    simp (disch := omega) only [mirror_BasicEnum, catOpt_nil_head, catOpt_nest]
    rw [show encVarintI (-(2 ^ 31)) (2 ^ 31) 1 = encDisc "Symbol" "BasicEnum" by decide]
  | variantEnum v =>
    have e : encodeSymbol (.variantEnum v) = catOpt [encDisc "Symbol" "VariantEnum", encodeVariantEnum v, tagEndB] := rfl
    rw [e, toValSymbol, enc_enum_Symbol_2 F (by omega)]
    simp (disch := omega) only [mirror_VariantEnum, catOpt_nil_head, catOpt_nest]
    rw [show encVarintI (-(2 ^ 31)) (2 ^ 31) 2 = encDisc "Symbol" "VariantEnum" by decide]
  | struct v =>
    have e : encodeSymbol (.struct v) = catOpt [encDisc "Symbol" "Struct", encodeStruct v, tagEndB] := rfl
    rw [e, toValSymbol, enc_enum_Symbol_3 F (by omega)]
    simp (disch := omega) only [mirror_Struct, catOpt_nil_head, catOpt_nest]
    rw [show encVarintI (-(2 ^ 31)) (2 ^ 31) 3 = encDisc "Symbol" "Struct" by decide]
  | customType v =>
    have e : encodeSymbol (.customType v) = catOpt [encDisc "Symbol" "CustomType", encodeCustomType v, tagEndB] := rfl
    rw [e, toValSymbol, enc_enum_Symbol_4 F (by omega)]
    simp (disch := omega) only [mirror_CustomType, catOpt_nil_head, catOpt_nest]
    rw [show encVarintI (-(2 ^ 31)) (2 ^ 31) 4 = encDisc "Symbol" "CustomType" by decide]
  | sequenceType v =>
    have e : encodeSymbol (.sequenceType v) = catOpt [encDisc "Symbol" "SequenceType", encodeSequenceType v, tagEndB] := rfl
    rw [e, toValSymbol, enc_enum_Symbol_5 F (by omega)]
    simp (disch := omega) only [mirror_SequenceType, catOpt_nil_head, catOpt_nest]
    rw [show encVarintI (-(2 ^ 31)) (2 ^ 31) 5 = encDisc "Symbol" "SequenceType" by decide]
  | dictionaryType v =>
    have e : encodeSymbol (.dictionaryType v) = catOpt [encDisc "Symbol" "DictionaryType", encodeDictionaryType v, tagEndB] := rfl
    rw [e, toValSymbol, enc_enum_Symbol_6 F (by omega)]
    simp (disch := omega) only [mirror_DictionaryType, catOpt_nil_head, catOpt_nest]
    rw [show encVarintI (-(2 ^ 31)) (2 ^ 31) 6 = encDisc "Symbol" "DictionaryType" by decide]
  | resultType v =>
    have e : encodeSymbol (.resultType v) = catOpt [encDisc "Symbol" "ResultType", encodeResultType v, tagEndB] := rfl
    rw [e, toValSymbol, enc_enum_Symbol_7 F (by omega)]
    simp (disch := omega) only [mirror_ResultType, catOpt_nil_head, catOpt_nest]
    rw [show encVarintI (-(2 ^ 31)) (2 ^ 31) 7 = encDisc "Symbol" "ResultType" by decide]
  | typeAlias v =>
    have e : encodeSymbol (.typeAlias v) = catOpt [encDisc "Symbol" "TypeAlias", encodeTypeAlias v, tagEndB] := rfl
    rw [e, toValSymbol, enc_enum_Symbol_8 F (by omega)]
    simp (disch := omega) only [mirror_TypeAlias, catOpt_nil_head, catOpt_nest]
    rw [show encVarintI (-(2 ^ 31)) (2 ^ 31) 8 = encDisc "Symbol" "TypeAlias" by decide]

theorem mirror_seq_Symbol (F : Nat) (h : 13 ≤ F) (xs : List SymbolV) :
    encTy CS F (.seq (.named "Symbol") false) (.list (xs.map toValSymbol)) = encSeqOf encodeSymbol xs :=
  enc_seq_map CS F (by omega) _ _ _ xs (fun x => mirror_Symbol _ (by omega) x)

theorem enc_struct_SliceFile (F : Nat) (h : 1 ≤ F) (v1 v2 v3 v4 : SVal) :
    encTy CS F (.named "SliceFile") (.struct [v1, v2, v3, v4]) =
      catOpt [some [], encTy CS (F - 1) (.prim "string") v1, encTy CS (F - 1) (.named "Module") v2, encTy CS (F - 1) (.seq (.named "Attribute") false) v3, encTy CS (F - 1) (.seq (.named "Symbol") false) v4, tagEndB] := by
  obtain ⟨f, rfl⟩ : ∃ f, F = f + 1 := ⟨F - 1, by omega⟩
  show encBody (encTy CS f) false [⟨"path", (.prim "string"), false, none, false⟩, ⟨"moduleDeclaration", (.named "Module"), false, none, false⟩, ⟨"attributes", (.seq (.named "Attribute") false), false, none, false⟩, ⟨"contents", (.seq (.named "Symbol") false), false, none, false⟩] _ = _
  rw [encBody_parts]; rfl

theorem mirror_SliceFile (F : Nat) (h : 14 ≤ F) (x : SliceFileV) :
    encTy CS F (.named "SliceFile") (toValSliceFile x) = encodeSliceFile x := by
  have e : encodeSliceFile x = catOpt [encStr x.path, encodeModule x.moduleDeclaration, encSeqOf encodeAttribute x.attributes, encSeqOf encodeSymbol x.contents, tagEndB] := rfl
  rw [e, toValSliceFile, enc_struct_SliceFile F (by omega)]
  simp (disch := omega) only [enc_str, mirror_Module, mirror_seq_Attribute, mirror_seq_Symbol, catOpt_nil_head]

theorem mirror_seq_SliceFile (F : Nat) (h : 15 ≤ F) (xs : List SliceFileV) :
    encTy CS F (.seq (.named "SliceFile") false) (.list (xs.map toValSliceFile)) = encSeqOf encodeSliceFile xs :=
  enc_seq_map CS F (by omega) _ _ _ xs (fun x => mirror_SliceFile _ (by omega) x)

/-! ### the whole request -/

theorem request_roundtrip (srcs refs : List SliceFileV) (bs rest : Bytes) (h : encodeRequest srcs refs = some bs) :
    decodeCall CS "generateCode" 2 (bs ++ rest) = .ok (toValRequest srcs refs, rest) := by
  have e : encodeRequest srcs refs =
      catOpt [encStr (sb "generateCode"), encSeqOf encodeSliceFile srcs, encSeqOf encodeSliceFile refs] := rfl
  rw [e] at h
  obtain ⟨a, r1, ha, h1, rfl⟩ := catOpt_cons_some _ _ _ h
  obtain ⟨b, r2, hb, h2, rfl⟩ := catOpt_cons_some _ _ _ h1
  obtain ⟨c, r3, hc, h3, rfl⟩ := catOpt_cons_some _ _ _ h2
  have := catOpt_nil_some _ h3; subst this
  rw [← mirror_seq_SliceFile schemaFuel (by decide)] at hb hc
  have db := decTy_encTy CS _ _ _ _ (c ++ rest) hb
  have dc := decTy_encTy CS _ _ _ _ rest hc
  obtain ⟨o, ho, hany, htake⟩ : ∃ o, CS.ops.find? (fun o => o.name == "generateCode") = some o ∧
      o.params.any (fun p => p.optional || p.tag.isSome || p.stream) = false ∧
      o.params.take 2 = [⟨"sourceFiles", .seq (.named "SliceFile") false, false, none, false⟩,
                         ⟨"referenceFiles", .seq (.named "SliceFile") false, false, none, false⟩] := ⟨_, rfl, rfl, rfl⟩
  simp only [decodeCall, List.append_assoc, List.append_nil, str_rt _ _ _ ha, ho, hany, htake, sb]
  simp only [ne_eq, not_true_eq_false, if_false, Bool.false_eq_true, decFields, Option.isSome_none, db, dc, toValRequest]

/-! ## part 2: numeric type ids point backwards, to anonymous-type symbols -/

/-- the type references a symbol carries: data types of fields / parameters / return members / enumerator fields,
    the target of an alias, the element types of an anonymous type -/
def SymbolV.trefs : SymbolV → List TypeRefV
  | .interface v => v.operations.flatMap fun o => (o.parameters ++ o.returnType).map (·.dataType)
  | .basicEnum _ => []
  | .variantEnum v => v.variants.flatMap fun x => x.fields.map (·.dataType)
  | .struct v => v.fields.map (·.dataType)
  | .customType _ => []
  | .sequenceType v => [v.elementType]
  | .dictionaryType v => [v.keyType, v.valueType]
  | .resultType v => [v.successType, v.failureType]
  | .typeAlias v => [v.underlyingType]

/-- a type id used at position `n` of the vector `syms`: when numeric it is `< n` and names an anonymous-type symbol -/
def IdOK (syms : Syms) (n : Nat) (id : TypeIdV) : Prop :=
  ∀ j, id = .anon j → j < n ∧ ∃ s, syms[j]? = some s ∧ s.isAnon = true

/-- every symbol of the vector only uses numeric ids of earlier anonymous-type symbols -/
def SymsOK (syms : Syms) : Prop :=
  ∀ i s, syms[i]? = some s → ∀ r ∈ s.trefs, IdOK syms i r.typeId

theorem IdOK.mono {syms more : Syms} {n n' : Nat} {id : TypeIdV} (h : IdOK syms n id) (hn : n ≤ syms.length) (hn' : n ≤ n') :
    IdOK (syms ++ more) n' id := by
  intro j hj
  obtain ⟨hlt, s, hs, ha⟩ := h j hj
  exact ⟨by omega, s, by rw [List.getElem?_append_left (by omega)]; exact hs, ha⟩

theorem IdOK_named (syms : Syms) (n : Nat) (s : Bytes) : IdOK syms n (.named s) := by
  intro j hj; cases hj

theorem SymsOK_nil : SymsOK [] := by intro i s h; simp at h

theorem SymsOK_push (syms : Syms) (sym : SymbolV) (hok : SymsOK syms)
    (hr : ∀ r ∈ sym.trefs, IdOK syms syms.length r.typeId) : SymsOK (syms ++ [sym]) := by
  intro i s hi r hrm
  by_cases hlt : i < syms.length
  · rw [List.getElem?_append_left hlt] at hi
    exact (hok i s hi r hrm).mono (by omega) (Nat.le_refl _)
  · have hlen : (syms ++ [sym])[i]? = some s := hi
    have hi' : i < (syms ++ [sym]).length := by
      rcases Nat.lt_or_ge i (syms ++ [sym]).length with h | h
      · exact h
      · rw [List.getElem?_eq_none h] at hlen; cases hlen
    simp at hi'
    have heq : i = syms.length := by omega
    subst heq
    simp at hi
    subst hi
    exact (hr r hrm).mono (Nat.le_refl _) (Nat.le_refl _)

/-- one conversion step: the vector only grows, and stays well-formed -/
structure Grows (syms syms' : Syms) : Prop where
  ext : ∃ new, syms' = syms ++ new ∧ ∀ s ∈ new, s.isAnon = true
  ok : SymsOK syms'

theorem Grows.refl {syms : Syms} (h : SymsOK syms) : Grows syms syms := ⟨⟨[], by simp, by simp⟩, h⟩

theorem Grows.trans {a b c : Syms} (h1 : Grows a b) (h2 : Grows b c) : Grows a c := by
  obtain ⟨n1, rfl, a1⟩ := h1.ext
  obtain ⟨n2, rfl, a2⟩ := h2.ext
  exact ⟨⟨n1 ++ n2, by simp, by
    intro s hs
    simp only [List.mem_append] at hs
    rcases hs with hs | hs
    · exact a1 s hs
    · exact a2 s hs⟩, h2.ok⟩

theorem Grows.idOK {a b : Syms} (h : Grows a b) {id : TypeIdV} (hid : IdOK a a.length id) : IdOK b b.length id := by
  obtain ⟨n, rfl, _⟩ := h.ext
  exact hid.mono (Nat.le_refl _) (by simp)

theorem Grows.push {a b : Syms} (h : Grows a b) (sym : SymbolV) (ha : sym.isAnon = true)
    (hr : ∀ r ∈ sym.trefs, IdOK b b.length r.typeId) : Grows a (b ++ [sym]) := by
  obtain ⟨n, rfl, an⟩ := h.ext
  exact ⟨⟨n ++ [sym], by simp, by
    intro s hs
    simp only [List.mem_append, List.mem_singleton] at hs
    rcases hs with hs | rfl
    · exact an s hs
    · exact ha⟩, SymsOK_push _ _ h.ok hr⟩

theorem anon_last (b : Syms) (sym : SymbolV) (ha : sym.isAnon = true) : IdOK (b ++ [sym]) (b ++ [sym]).length (.anon b.length) := by
  intro j hj
  cases hj
  exact ⟨by simp, sym, by simp, ha⟩

/-- `convert_type_ref` / `get_type_id_for`: by induction on the descent bound -/
theorem convT_inv (t : Table) : ∀ fuel : Nat,
    (∀ (scope : String) (r : TRef) (syms : Syms), SymsOK syms →
      Grows syms (convTRef t scope fuel r syms).2 ∧
      IdOK (convTRef t scope fuel r syms).2 (convTRef t scope fuel r syms).2.length (convTRef t scope fuel r syms).1.typeId) ∧
    (∀ (scope : String) (e : TyExpr) (syms : Syms), SymsOK syms →
      Grows syms (convTy t scope fuel e syms).2 ∧
      IdOK (convTy t scope fuel e syms).2 (convTy t scope fuel e syms).2.length (convTy t scope fuel e syms).1) := by
  intro fuel
  induction fuel with
  | zero =>
    refine ⟨fun scope r syms h => ?_, fun scope e syms h => ?_⟩
    · simp only [convTRef]; exact ⟨Grows.refl h, IdOK_named _ _ _⟩
    · simp only [convTy]; exact ⟨Grows.refl h, IdOK_named _ _ _⟩
  | succ fuel ih =>
    obtain ⟨ihR, ihT⟩ := ih
    refine ⟨fun scope r syms h => ?_, fun scope e syms h => ?_⟩
    · obtain ⟨attrs, ty, opt⟩ := r
      cases ty with
      | named id =>
        simp only [convTRef]
        split
        · exact ⟨Grows.refl h, IdOK_named _ _ _⟩
        · rename_i e s extra _
          exact ihT s e syms h
        · exact ⟨Grows.refl h, IdOK_named _ _ _⟩
      | prim p => simp only [convTRef]; exact ihT scope (.prim p) syms h
      | seq e => simp only [convTRef]; exact ihT scope (.seq e) syms h
      | dict k v => simp only [convTRef]; exact ihT scope (.dict k v) syms h
      | result s f => simp only [convTRef]; exact ihT scope (.result s f) syms h
    · cases e with
      | prim p => simp only [convTy]; exact ⟨Grows.refl h, IdOK_named _ _ _⟩
      | named id => simp only [convTy]; exact ⟨Grows.refl h, IdOK_named _ _ _⟩
      | seq e =>
        simp only [convTy]
        obtain ⟨g1, i1⟩ := ihR scope e syms h
        exact ⟨g1.push _ rfl (by intro r hr; simp [SymbolV.trefs] at hr; subst hr; exact i1), anon_last _ _ rfl⟩
      | dict k v =>
        simp only [convTy]
        obtain ⟨g1, i1⟩ := ihR scope k syms h
        obtain ⟨g2, i2⟩ := ihR scope v _ g1.ok
        exact ⟨(g1.trans g2).push _ rfl (by
          intro r hr; simp [SymbolV.trefs] at hr
          rcases hr with rfl | rfl
          · exact g2.idOK i1
          · exact i2), anon_last _ _ rfl⟩
      | result s f =>
        simp only [convTy]
        obtain ⟨g1, i1⟩ := ihR scope s syms h
        obtain ⟨g2, i2⟩ := ihR scope f _ g1.ok
        exact ⟨(g1.trans g2).push _ rfl (by
          intro r hr; simp [SymbolV.trefs] at hr
          rcases hr with rfl | rfl
          · exact g2.idOK i1
          · exact i2), anon_last _ _ rfl⟩

theorem convTRef_inv (t : Table) (scope : String) (fuel : Nat) (r : TRef) (syms : Syms) (h : SymsOK syms) :
    Grows syms (convTRef t scope fuel r syms).2 ∧
    IdOK (convTRef t scope fuel r syms).2 (convTRef t scope fuel r syms).2.length (convTRef t scope fuel r syms).1.typeId :=
  (convT_inv t fuel).1 scope r syms h

/-- threading a list through the converter keeps the invariant; `ids` = the type ids an output element carries -/
theorem thread_inv {α β : Type} (step : α → Syms → β × Syms) (ids : β → List TypeIdV)
    (hstep : ∀ a syms, SymsOK syms → Grows syms (step a syms).2 ∧
      ∀ id ∈ ids (step a syms).1, IdOK (step a syms).2 (step a syms).2.length id)
    (thread : List α → Syms → List β × Syms) (hnil : ∀ s, thread [] s = ([], s))
    (hcons : ∀ a as s, thread (a :: as) s = ((step a s).1 :: (thread as (step a s).2).1, (thread as (step a s).2).2)) :
    ∀ (as : List α) (syms : Syms), SymsOK syms → Grows syms (thread as syms).2 ∧
      ∀ x ∈ (thread as syms).1, ∀ id ∈ ids x, IdOK (thread as syms).2 (thread as syms).2.length id := by
  intro as
  induction as with
  | nil => intro syms h; rw [hnil]; exact ⟨Grows.refl h, by simp⟩
  | cons a as ih =>
    intro syms h
    rw [hcons]
    obtain ⟨g1, i1⟩ := hstep a syms h
    obtain ⟨g2, i2⟩ := ih _ g1.ok
    refine ⟨g1.trans g2, ?_⟩
    intro x hx id hid
    simp only [List.mem_cons] at hx
    rcases hx with rfl | hx
    · exact g2.idOK (i1 id hid)
    · exact i2 x hx id hid

def fieldIds (f : FieldV) : List TypeIdV := [f.dataType.typeId]

theorem convFields_inv (t : Table) (scope ckey : String) (fs : List Field) (syms : Syms) (h : SymsOK syms) :
    Grows syms (convFields t scope ckey fs syms).2 ∧
    ∀ x ∈ (convFields t scope ckey fs syms).1, ∀ id ∈ fieldIds x,
      IdOK (convFields t scope ckey fs syms).2 (convFields t scope ckey fs syms).2.length id :=
  thread_inv (convField t scope ckey) fieldIds
    (fun a s hs => by
      obtain ⟨g, i⟩ := convTRef_inv t scope elabFuel a.ty s hs
      exact ⟨g, by intro id hid; simp [fieldIds, convField] at hid; subst hid; exact i⟩)
    (convFields t scope ckey) (fun s => rfl) (fun a as s => rfl) fs syms h

theorem convParams_inv (mode : DocMode) (t : Table) (scope okey : String) (d : Option ParsedDoc) (ir sg : Bool)
    (ps : List Param) (syms : Syms) (h : SymsOK syms) :
    Grows syms (convParams mode t scope okey d ir sg ps syms).2 ∧
    ∀ x ∈ (convParams mode t scope okey d ir sg ps syms).1, ∀ id ∈ fieldIds x,
      IdOK (convParams mode t scope okey d ir sg ps syms).2 (convParams mode t scope okey d ir sg ps syms).2.length id :=
  thread_inv (convParam mode t scope okey d ir sg) fieldIds
    (fun a s hs => by
      obtain ⟨g, i⟩ := convTRef_inv t scope elabFuel a.ty s hs
      exact ⟨g, by intro id hid; simp [fieldIds, convParam] at hid; subst hid; exact i⟩)
    (convParams mode t scope okey d ir sg) (fun s => rfl) (fun a as s => rfl) ps syms h

def opIds (o : OperationV) : List TypeIdV := (o.parameters ++ o.returnType).map (·.dataType.typeId)

theorem convOp_inv (mode : DocMode) (t : Table) (scope ikey : String) (o : Op) (syms : Syms) (h : SymsOK syms) :
    Grows syms (convOp mode t scope ikey o syms).2 ∧
    ∀ id ∈ opIds (convOp mode t scope ikey o syms).1,
      IdOK (convOp mode t scope ikey o syms).2 (convOp mode t scope ikey o syms).2.length id := by
  obtain ⟨g1, i1⟩ := convParams_inv mode t scope (scopedId o.name ikey) (parseDoc o.doc) false false o.params syms h
  obtain ⟨g2, i2⟩ := convParams_inv mode t scope (scopedId o.name ikey) (parseDoc o.doc) true (isSingleRet o.ret) (retParams o.ret) _ g1.ok
  refine ⟨g1.trans g2, ?_⟩
  intro id hid
  simp only [opIds, convOp, List.map_append, List.mem_append, List.mem_map] at hid
  rcases hid with ⟨x, hx, rfl⟩ | ⟨x, hx, rfl⟩
  · exact g2.idOK (i1 x hx _ (by simp [fieldIds]))
  · exact i2 x hx _ (by simp [fieldIds])

theorem convOps_inv (mode : DocMode) (t : Table) (scope ikey : String) (os : List Op) (syms : Syms) (h : SymsOK syms) :
    Grows syms (convOps mode t scope ikey os syms).2 ∧
    ∀ x ∈ (convOps mode t scope ikey os syms).1, ∀ id ∈ opIds x,
      IdOK (convOps mode t scope ikey os syms).2 (convOps mode t scope ikey os syms).2.length id :=
  thread_inv (convOp mode t scope ikey) opIds (fun a s hs => convOp_inv mode t scope ikey a s hs)
    (convOps mode t scope ikey) (fun s => rfl) (fun a as s => rfl) os syms h

def variantIds (v : VariantV) : List TypeIdV := v.fields.map (·.dataType.typeId)

theorem convVariants_inv (t : Table) (scope ekey : String) (es : List (Enumerator × Int)) (syms : Syms) (h : SymsOK syms) :
    Grows syms (convVariants t scope ekey es syms).2 ∧
    ∀ x ∈ (convVariants t scope ekey es syms).1, ∀ id ∈ variantIds x,
      IdOK (convVariants t scope ekey es syms).2 (convVariants t scope ekey es syms).2.length id :=
  thread_inv (fun (p : Enumerator × Int) s => convVariant t scope ekey p.1 p.2 s) variantIds
    (fun a s hs => by
      obtain ⟨g, i⟩ := convFields_inv t scope (scopedId a.1.name ekey) (a.1.fields.getD []) s hs
      refine ⟨g, ?_⟩
      intro id hid
      simp only [variantIds, convVariant, List.mem_map] at hid
      obtain ⟨x, hx, rfl⟩ := hid
      exact i x hx _ (by simp [fieldIds]))
    (convVariants t scope ekey) (fun s => rfl) (fun a as s => by obtain ⟨e, v⟩ := a; rfl) es syms h

/-- one top-level definition: the vector grows well-formed and the new symbol's references are fine at its position -/
theorem convDef_inv (mode : DocMode) (t : Table) (scope : String) (d : Def) (syms : Syms) (h : SymsOK syms) :
    Grows syms (convDef mode t scope d syms).2 ∧
    ∀ r ∈ (convDef mode t scope d syms).1.trefs,
      IdOK (convDef mode t scope d syms).2 (convDef mode t scope d syms).2.length r.typeId := by
  cases d with
  | struct doc attrs compact name fields =>
    obtain ⟨g, i⟩ := convFields_inv t scope (scopedId name scope) fields syms h
    refine ⟨g, ?_⟩
    intro r hr
    simp only [convDef, SymbolV.trefs, List.mem_map] at hr
    obtain ⟨x, hx, rfl⟩ := hr
    exact i x hx _ (by simp [fieldIds])
  | iface doc attrs name bases ops =>
    obtain ⟨g, i⟩ := convOps_inv mode t scope (scopedId name scope) ops syms h
    refine ⟨g, ?_⟩
    intro r hr
    simp only [convDef, SymbolV.trefs, List.mem_flatMap, List.mem_map] at hr
    obtain ⟨o, ho, x, hx, rfl⟩ := hr
    exact i o ho _ (by simp only [opIds, List.mem_map]; exact ⟨x, hx, rfl⟩)
  | enum doc attrs compact unchecked name underlying es =>
    cases underlying with
    | some u =>
      simp only [convDef]
      exact ⟨Grows.refl h, by intro r hr; simp [SymbolV.trefs] at hr⟩
    | none =>
      obtain ⟨g, i⟩ := convVariants_inv t scope (scopedId name scope) (es.zip (enumValues none es)) syms h
      refine ⟨g, ?_⟩
      intro r hr
      simp only [convDef, SymbolV.trefs, List.mem_flatMap, List.mem_map] at hr
      obtain ⟨v, hv, x, hx, rfl⟩ := hr
      exact i v hv _ (by simp only [variantIds, List.mem_map]; exact ⟨x, hx, rfl⟩)
  | custom doc attrs name =>
    simp only [convDef]
    exact ⟨Grows.refl h, by intro r hr; simp [SymbolV.trefs] at hr⟩
  | alias doc attrs name ty =>
    obtain ⟨g, i⟩ := convTRef_inv t scope elabFuel ty syms h
    refine ⟨g, ?_⟩
    intro r hr
    simp only [convDef, SymbolV.trefs, List.mem_singleton] at hr
    subst hr
    exact i

theorem convDefs_inv (mode : DocMode) (t : Table) (scope : String) (ds : List Def) :
    ∀ syms, SymsOK syms → SymsOK (convDefs mode t scope ds syms) := by
  induction ds with
  | nil => intro syms h; exact h
  | cons d ds ih =>
    intro syms h
    simp only [convDefs]
    obtain ⟨g, i⟩ := convDef_inv mode t scope d syms h
    exact ih _ (SymsOK_push _ _ g.ok i)

theorem convertFile_symsOK (mode : DocMode) (t : Table) (path : String) (f : SFile) (v : SliceFileV)
    (h : convertFile mode t path f = some v) : SymsOK v.contents := by
  unfold convertFile at h
  split at h
  · cases h
  · simp only [Option.some.injEq] at h
    subst h
    exact convDefs_inv mode t _ _ [] SymsOK_nil

theorem convertAll_symsOK (mode : DocMode) (t : Table) (fs : List ReqFile) :
    ∀ vs, convertAll mode t fs = some vs → ∀ p ∈ vs, SymsOK p.2.contents := by
  induction fs with
  | nil => intro vs h; simp [convertAll] at h; subst h; simp
  | cons rf rest ih =>
    intro vs h
    simp only [convertAll] at h
    split at h
    · exact ih vs h
    · split at h
      · rename_i v vs' hv hvs
        simp only [Option.some.injEq] at h
        subst h
        intro p hp
        simp only [List.mem_cons] at hp
        rcases hp with rfl | hp
        · exact convertFile_symsOK mode t _ _ _ hv
        · exact ih vs' hvs p hp
      · cases h

/-! ### what the converted files say -/

/-- kind and identifier of a named symbol (`none` for the three anonymous kinds) -/
def SymbolV.head : SymbolV → Option (String × Bytes)
  | .interface v => some ("interface", v.entityInfo.identifier)
  | .basicEnum v => some ("enum", v.entityInfo.identifier)
  | .variantEnum v => some ("enum", v.entityInfo.identifier)
  | .struct v => some ("struct", v.entityInfo.identifier)
  | .customType v => some ("custom", v.entityInfo.identifier)
  | .typeAlias v => some ("typealias", v.entityInfo.identifier)
  | .sequenceType _ | .dictionaryType _ | .resultType _ => none

theorem head_of_anon (s : SymbolV) (h : s.isAnon = true) : s.head = none := by
  cases s <;> simp [SymbolV.isAnon] at h <;> rfl

theorem filterMap_head_anon (new : Syms) (h : ∀ s ∈ new, s.isAnon = true) : new.filterMap SymbolV.head = [] := by
  induction new with
  | nil => rfl
  | cons s new ih =>
    simp only [List.filterMap_cons, head_of_anon s (h s (by simp))]
    exact ih (fun x hx => h x (by simp [hx]))

theorem convDef_head (mode : DocMode) (t : Table) (scope : String) (d : Def) (syms : Syms) :
    (convDef mode t scope d syms).1.head = some (d.kind, sb d.name) := by
  cases d with
  | struct doc attrs compact name fields => rfl
  | iface doc attrs name bases ops => rfl
  | enum doc attrs compact unchecked name underlying es => cases underlying <;> rfl
  | custom doc attrs name => rfl
  | alias doc attrs name ty => rfl

theorem convDefs_heads (mode : DocMode) (t : Table) (scope : String) (ds : List Def) :
    ∀ syms, SymsOK syms → (convDefs mode t scope ds syms).filterMap SymbolV.head =
      syms.filterMap SymbolV.head ++ ds.map (fun d => (d.kind, sb d.name)) := by
  induction ds with
  | nil => intro syms _; simp [convDefs]
  | cons d ds ih =>
    intro syms h
    simp only [convDefs]
    obtain ⟨g, i⟩ := convDef_inv mode t scope d syms h
    rw [ih _ (SymsOK_push _ _ g.ok i)]
    obtain ⟨new, hnew, hanon⟩ := g.ext
    rw [hnew]
    simp only [List.filterMap_append, List.filterMap_cons, List.filterMap_nil, filterMap_head_anon new hanon,
      List.append_nil, List.map_cons, List.append_assoc]
    have := convDef_head mode t scope d syms
    rw [this]
    simp

/-- the files that are transmitted: all of them, except those without a module declaration when the encoder skips them -/
def transmitted (fs : List ReqFile) : List ReqFile :=
  fs.filter fun rf => !(rf.file.module.isNone && Gen.requestSkipsModuleless)

/-- what a transmitted file says about its source file -/
def Described (mode : DocMode) (t : Table) (rf : ReqFile) (v : SliceFileV) : Prop :=
  ∃ m, rf.file.module = some m ∧ v.path = sb rf.path ∧ v.moduleDeclaration = ⟨sb m.path, convAttrs m.attrs⟩ ∧
    v.attributes = convAttrs rf.file.fileAttrs ∧ v.contents = convDefs mode t m.path rf.file.defs [] ∧
    v.contents.filterMap SymbolV.head = rf.file.defs.map (fun d => (d.kind, sb d.name))

theorem convertFile_described (mode : DocMode) (t : Table) (rf : ReqFile) (v : SliceFileV)
    (h : convertFile mode t rf.path rf.file = some v) : Described mode t rf v := by
  unfold convertFile at h
  split at h
  · cases h
  · rename_i m hm
    simp only [Option.some.injEq] at h
    subst h
    exact ⟨m, hm, rfl, rfl, rfl, rfl, by simpa using convDefs_heads mode t m.path rf.file.defs [] SymsOK_nil⟩

/-- element-wise relation of two lists of the same length, in order -/
inductive AllPairs {α β : Type} (R : α → β → Prop) : List α → List β → Prop
  | nil : AllPairs R [] []
  | cons {a : α} {b : β} {as : List α} {bs : List β} : R a b → AllPairs R as bs → AllPairs R (a :: as) (b :: bs)

theorem convertAll_described (mode : DocMode) (t : Table) (fs : List ReqFile) :
    ∀ vs, convertAll mode t fs = some vs →
      AllPairs (fun rf (p : Bool × SliceFileV) => p.1 = rf.isSource ∧ Described mode t rf p.2) (transmitted fs) vs := by
  induction fs with
  | nil => intro vs h; simp [convertAll] at h; subst h; exact AllPairs.nil
  | cons rf rest ih =>
    intro vs h
    simp only [convertAll] at h
    split at h
    · rename_i hskip
      have : transmitted (rf :: rest) = transmitted rest := by
        simp only [transmitted, List.filter_cons, hskip]; simp
      rw [this]; exact ih vs h
    · rename_i hskip
      have : transmitted (rf :: rest) = rf :: transmitted rest := by
        simp only [transmitted, List.filter_cons]
        simp only [Bool.not_eq_true] at hskip
        simp [hskip]
      rw [this]
      split at h
      · rename_i v vs' hv hvs
        simp only [Option.some.injEq] at h
        subst h
        exact AllPairs.cons ⟨rfl, convertFile_described mode t rf v hv⟩ (ih vs' hvs)
      · cases h


end Slicec
