/-
  Helper lemmas for C04: the list algorithms the validators use (hash-map scan, sort-and-window, split_last)
  against their declarative meaning, and the plumbing of rules / phases.
-/
import SlicecVerif.Model.Validate

namespace Slicec.Validate

open Slicec

/-! ### hash-map scan -/

theorem repeats_nil_iff {α} [BEq α] [LawfulBEq α] (xs : List α) :
    ∀ seen : List α, repeats seen xs = [] ↔ xs.Nodup ∧ ∀ x ∈ xs, x ∉ seen := by
  induction xs with
  | nil => intro seen; simp [repeats]
  | cons x xs ih =>
    intro seen
    unfold repeats
    by_cases h : seen.contains x = true
    · rw [if_pos h]
      have hx : x ∈ seen := by simpa using h
      constructor
      · intro hc; cases hc
      · intro ⟨_, h2⟩; exact absurd hx (h2 x (by simp))
    · rw [if_neg h]
      have hx : x ∉ seen := by simpa using h
      rw [ih (x :: seen), List.nodup_cons]
      constructor
      · intro ⟨hn, hall⟩
        refine ⟨⟨?_, hn⟩, ?_⟩
        · intro hm; exact (hall x hm) (by simp)
        · intro y hy
          rcases List.mem_cons.mp hy with rfl | hy
          · exact hx
          · intro hys; exact (hall y hy) (List.mem_cons_of_mem _ hys)
      · intro ⟨⟨hnx, hn⟩, hall⟩
        refine ⟨hn, ?_⟩
        intro y hy hys
        rcases List.mem_cons.mp hys with rfl | hys
        · exact hnx hy
        · exact hall y (List.mem_cons_of_mem _ hy) hys

theorem repeats_nil_iff_nodup {α} [BEq α] [LawfulBEq α] (xs : List α) : repeats [] xs = [] ↔ xs.Nodup := by
  rw [repeats_nil_iff]; simp

/-! ### sort and window -/

theorem insertSorted_perm (x : Nat) (l : List Nat) : (insertSorted x l).Perm (x :: l) := by
  induction l with
  | nil => simp [insertSorted]
  | cons y ys ih =>
    unfold insertSorted
    split
    · exact List.Perm.refl _
    · exact (List.Perm.cons y ih).trans (List.Perm.swap x y ys)

theorem sortNat_perm (l : List Nat) : (sortNat l).Perm l := by
  induction l with
  | nil => simp [sortNat]
  | cons x xs ih =>
    have : sortNat (x :: xs) = insertSorted x (sortNat xs) := rfl
    rw [this]
    exact (insertSorted_perm x _).trans (List.Perm.cons x ih)

theorem insertSorted_sorted (x : Nat) (l : List Nat) (h : l.Pairwise (· ≤ ·)) : (insertSorted x l).Pairwise (· ≤ ·) := by
  induction l with
  | nil => simp [insertSorted]
  | cons y ys ih =>
    rw [List.pairwise_cons] at h
    unfold insertSorted
    split
    · rename_i hxy
      refine List.pairwise_cons.mpr ⟨?_, List.pairwise_cons.mpr h⟩
      intro z hz
      rcases List.mem_cons.mp hz with rfl | hz
      · exact Nat.le_of_lt hxy
      · exact Nat.le_trans (Nat.le_of_lt hxy) (h.1 z hz)
    · rename_i hxy
      refine List.pairwise_cons.mpr ⟨?_, ih h.2⟩
      intro z hz
      have hz' := (insertSorted_perm x ys).mem_iff.mp hz
      rcases List.mem_cons.mp hz' with rfl | hz'
      · exact Nat.le_of_not_lt hxy
      · exact h.1 z hz'

theorem sortNat_sorted (l : List Nat) : (sortNat l).Pairwise (· ≤ ·) := by
  induction l with
  | nil => simp [sortNat]
  | cons x xs ih => exact insertSorted_sorted x _ ih

theorem windowDups_nil_iff (l : List Nat) (h : l.Pairwise (· ≤ ·)) : windowDups l = [] ↔ l.Nodup := by
  induction l with
  | nil => simp [windowDups]
  | cons a t ih =>
    cases t with
    | nil => simp [windowDups]
    | cons b rest =>
      rw [List.pairwise_cons] at h
      have ih' := ih h.2
      have hab : a ≤ b := h.1 b (by simp)
      have hb := (List.pairwise_cons.mp h.2).1
      unfold windowDups
      rw [List.append_eq_nil_iff, ih']
      constructor
      · intro ⟨h1, h2⟩
        refine List.nodup_cons.mpr ⟨?_, h2⟩
        have hne : a ≠ b := by
          intro e; subst e; simp at h1
        intro hm
        rcases List.mem_cons.mp hm with e | hm
        · exact hne e
        · have := hb a hm; omega
      · intro hn
        obtain ⟨h1, h2⟩ := List.nodup_cons.mp hn
        refine ⟨?_, h2⟩
        have hne : a ≠ b := fun e => h1 (by simp [e])
        simp [hne]

/-! ### split_last -/

theorem stream_checks_nil_iff (ss : List Bool) :
    streamLastCheck ss ++ multiStreamCheck ss = [] ↔ ∀ b ∈ ss.dropLast, b = false := by
  unfold streamLastCheck multiStreamCheck
  rcases List.eq_nil_or_concat ss with rfl | ⟨L, b, rfl⟩
  · simp
  · simp only [List.concat_eq_append, List.dropLast_concat, List.append_eq_nil_iff, List.map_eq_nil_iff, List.filter_eq_nil_iff]
    constructor
    · intro ⟨h, _⟩ x hx; simpa using h x hx
    · intro h
      have hL : L.filter id = [] := by
        rw [List.filter_eq_nil_iff]; intro x hx; simp [h x hx]
      refine ⟨fun x hx => by simp [h x hx], ?_⟩
      simp only [List.filter_append, hL, List.nil_append]
      cases b <;> simp

theorem dropLast_all_false_iff (ss : List Bool) :
    (∀ b ∈ ss.dropLast, b = false) ↔ ∀ i, ss[i]? = some true → i + 1 = ss.length := by
  rcases List.eq_nil_or_concat ss with rfl | ⟨L, b, rfl⟩
  · simp
  · simp only [List.concat_eq_append, List.dropLast_concat, List.length_append, List.length_cons, List.length_nil]
    constructor
    · intro h i hi
      rcases Nat.lt_or_ge i L.length with hl | hl
      · rw [List.getElem?_append_left hl] at hi
        have hm : true ∈ L := List.mem_of_getElem? hi
        exact absurd (h true hm) (by simp)
      · have hlt : i < (L ++ [b]).length := by
          rcases Nat.lt_or_ge i (L ++ [b]).length with h1 | h1
          · exact h1
          · rw [List.getElem?_eq_none h1] at hi; cases hi
        simp at hlt; omega
    · intro h x hx
      cases x with
      | false => rfl
      | true =>
        obtain ⟨i, hi, hxi⟩ := List.mem_iff_getElem.mp hx
        have : (L ++ [b])[i]? = some true := by
          rw [List.getElem?_append_left hi, List.getElem?_eq_getElem hi, hxi]
        have := h i this
        omega

/-! ### dictionary keys -/

theorem keyCheck_none_iff (env : KEnv) : ∀ (n : Nat) (k : KRef), keyCheck env n k = none ↔ legalKeyB env n k = true := by
  intro n
  induction n with
  | zero => intro k; simp [keyCheck, legalKeyB]
  | succ n ih =>
    intro k
    unfold keyCheck legalKeyB
    cases hopt : k.opt with
    | true => simp
    | false =>
      simp only [Bool.false_eq_true, if_false, Bool.not_false, Bool.true_and]
      cases hty : k.ty with
      | prim p => cases h : legalKeyPrim p <;> simp [h]
      | custom => simp
      | anon => simp
      | other => simp
      | «enum» key => cases h : env.enumBacked key <;> simp [h]
      | «struct» key =>
        cases hs : env.structOf key with
        | none => simp [hs]
        | some cf =>
          obtain ⟨compact, fields⟩ := cf
          have hf : (List.filterMap (keyCheck env n) fields).isEmpty = true ↔ fields.all (legalKeyB env n) = true := by
            rw [List.isEmpty_iff, List.filterMap_eq_nil_iff, List.all_eq_true]
            exact ⟨fun h x hx => (ih x).mp (h x hx), fun h x hx => (ih x).mpr (h x hx)⟩
          cases compact with
          | false => simp [hs]
          | true =>
            by_cases he : (List.filterMap (keyCheck env n) fields).isEmpty = true
            · have h2 := hf.mp he
              simp only [hs, Bool.not_true, Bool.false_eq_true, if_false, he, if_true, Bool.true_and, h2]
            · have h2 : fields.all (legalKeyB env n) = false := by
                cases h : fields.all (legalKeyB env n) with
                | false => rfl
                | true => exact absurd (hf.mpr h) he
              simp only [hs, Bool.not_true, Bool.false_eq_true, if_false, he, Bool.true_and, h2]
              simp

theorem legalKeyB_sound (env : KEnv) : ∀ (n : Nat) (k : KRef), legalKeyB env n k = true → LegalKey env k := by
  intro n
  induction n with
  | zero => intro k h; simp [legalKeyB] at h
  | succ n ih =>
    intro k h
    obtain ⟨opt, ty⟩ := k
    unfold legalKeyB at h
    simp only [Bool.and_eq_true, Bool.not_eq_true'] at h
    obtain ⟨ho, h⟩ := h
    have ho' : opt = false := ho
    subst ho'
    cases ty with
    | prim p => exact LegalKey.prim p h
    | custom => exact LegalKey.custom
    | anon => simp at h
    | other => simp at h
    | «enum» key => exact LegalKey.enum key h
    | «struct» key =>
      cases hs : env.structOf key with
      | none => simp [hs] at h
      | some cf =>
        obtain ⟨compact, fields⟩ := cf
        simp only [hs, Bool.and_eq_true, List.all_eq_true] at h
        obtain ⟨hc, hf⟩ := h
        subst hc
        exact LegalKey.struct key fields hs (fun f hf' => ih f (hf f hf'))

/-- nesting rank of a key reference under a ranking of the struct names -/
def krank (rank : String → Nat) (k : KRef) : Nat :=
  match k.ty with
  | .struct key => rank key + 1
  | _ => 0

/-- the ranking decreases from a compact struct to the structs its fields name: the struct graph is acyclic -/
def Ranked (env : KEnv) (rank : String → Nat) : Prop :=
  ∀ key fields, env.structOf key = some (true, fields) → ∀ f ∈ fields, krank rank f ≤ rank key

theorem legalKeyB_complete (env : KEnv) (rank : String → Nat) (hr : Ranked env rank) (k : KRef) (h : LegalKey env k) :
    ∀ n, krank rank k < n → legalKeyB env n k = true := by
  induction h with
  | prim p hp => intro n hn; cases n with | zero => omega | succ n => simp [legalKeyB, hp]
  | custom => intro n hn; cases n with | zero => omega | succ n => simp [legalKeyB]
  | «enum» key hk => intro n hn; cases n with | zero => omega | succ n => simp [legalKeyB, hk]
  | «struct» key fields hs _ ih =>
    intro n hn
    cases n with
    | zero => omega
    | succ n =>
      simp only [krank] at hn
      simp only [legalKeyB, hs, Bool.not_false, Bool.true_and, List.all_eq_true]
      intro f hf
      exact ih f hf n (by have := hr key fields hs f hf; omega)

/-! ### rules and phases -/

/-- a rule's check agrees with its specification, and only reports codes of its kinds -/
def RuleOK (r : Rule) : Prop :=
  (∀ x, r.check x = [] ↔ r.Spec x) ∧ (∀ x c, c ∈ r.check x → ∃ k ∈ r.kinds, c = code k)

theorem rule_codes_nil_iff {r : Rule} (h : RuleOK r) (P : Program) : r.codes P = [] ↔ r.Holds P := by
  unfold Rule.codes Rule.Holds
  rw [List.flatMap_eq_nil_iff]
  exact ⟨fun hh x hx => (h.1 x).mp (hh x hx), fun hh x hx => (h.1 x).mpr (hh x hx)⟩

theorem rule_codes_sound {r : Rule} (h : RuleOK r) (P : Program) (c : String) (hc : c ∈ r.codes P) :
    (∃ k ∈ r.kinds, c = code k) ∧ ¬ r.Holds P := by
  unfold Rule.codes at hc
  obtain ⟨x, hx, hcx⟩ := List.mem_flatMap.mp hc
  refine ⟨h.2 x c hcx, ?_⟩
  intro hh
  have := (h.1 x).mpr (hh x hx)
  rw [this] at hcx; cases hcx

theorem firstNonEmpty_nil_iff (ls : List (List String)) : firstNonEmpty ls = [] ↔ ∀ l ∈ ls, l = [] := by
  induction ls with
  | nil => simp [firstNonEmpty]
  | cons l rest ih =>
    unfold firstNonEmpty
    by_cases h : l.isEmpty = true
    · rw [if_pos h, ih]; have : l = [] := List.isEmpty_iff.mp h; simp [this]
    · rw [if_neg h]
      have : l ≠ [] := fun e => h (by simp [e])
      constructor
      · intro e; exact absurd e this
      · intro hh; exact hh l (by simp)

theorem firstNonEmpty_mem (ls : List (List String)) (c : String) (h : c ∈ firstNonEmpty ls) : ∃ l ∈ ls, c ∈ l := by
  induction ls with
  | nil => simp [firstNonEmpty] at h
  | cons l rest ih =>
    unfold firstNonEmpty at h
    split at h
    · obtain ⟨l', hl', hc⟩ := ih h; exact ⟨l', List.mem_cons_of_mem _ hl', hc⟩
    · exact ⟨l, by simp, h⟩

theorem firstNonEmpty_eq (pre : List (List String)) (l : List String) (post : List (List String))
    (hpre : ∀ x ∈ pre, x = []) (hl : l ≠ []) : firstNonEmpty (pre ++ l :: post) = l := by
  induction pre with
  | nil =>
    simp only [List.nil_append]
    unfold firstNonEmpty
    have : ¬ l.isEmpty = true := fun e => hl (List.isEmpty_iff.mp e)
    rw [if_neg this]
  | cons p pre ih =>
    have hp : p = [] := hpre p (by simp)
    subst hp
    simp only [List.cons_append]
    unfold firstNonEmpty
    simp only [List.isEmpty_nil, if_true]
    exact ih (fun x hx => hpre x (List.mem_cons_of_mem _ hx))

end Slicec.Validate
