/-
  The fuel of the parser model is never exhausted (C02, parser half).
  Every parser of Model/SliceParser.lean returns a suffix-length no longer than its input, every list step and the
  type-reference parser strictly shorter; hence `manyF step n ts` and `parseTypeRefF n ts` do not depend on `n` once
  `n > ts.length` — the value `ts.length + 1` that `many` / `parseTypeRef` supply is always enough.
-/
import SlicecVerif.Lemmas.SliceParser

namespace Slicec.SPar

open Slicec Slicec.SLex

/-- the parser consumes at least one token -/
def Shrinks {α : Type} (p : P α) : Prop := ∀ ts a r, p ts = some (a, r) → r.length < ts.length
/-- the parser does not invent tokens -/
def ShrinksLe {α : Type} (p : P α) : Prop := ∀ ts a r, p ts = some (a, r) → r.length ≤ ts.length
/-- every element of a list consumes at least one token -/
def StepShrinks {α : Type} (s : Step α) : Prop := ∀ ts a r, s ts = some (some (a, r)) → r.length < ts.length

theorem Shrinks.le {α : Type} {p : P α} (h : Shrinks p) : ShrinksLe p := fun ts a r e => Nat.le_of_lt (h ts a r e)

/-! ## `manyF` -/

theorem manyF_le {α : Type} (s : Step α) (hs : StepShrinks s) :
    ∀ n ts as r, manyF s n ts = some (as, r) → r.length ≤ ts.length := by
  intro n
  induction n with
  | zero => intro ts as r h; simp [manyF] at h
  | succ n ih =>
    intro ts as r h
    simp only [manyF] at h
    split at h
    · simp at h
    · simp only [Option.some.injEq, Prod.mk.injEq] at h; rw [← h.2]; exact Nat.le_refl _
    · rename_i a r1 heq
      have h1 := hs ts a r1 heq
      split at h
      · rename_i as' r' heq2
        simp only [Option.some.injEq, Prod.mk.injEq] at h
        have := ih r1 as' r' heq2
        rw [← h.2]; omega
      · simp at h

theorem many_le {α : Type} (s : Step α) (hs : StepShrinks s) : ShrinksLe (many s) :=
  fun ts as r h => manyF_le s hs _ ts as r h

/-- **the fuel of a list is never exhausted**: any amount above the number of tokens gives the same result -/
theorem manyF_fuel {α : Type} (s : Step α) (hs : StepShrinks s) :
    ∀ n m ts, ts.length < n → ts.length < m → manyF s n ts = manyF s m ts := by
  intro n
  induction n with
  | zero => intro m ts h; omega
  | succ n ih =>
    intro m ts hn hm
    cases m with
    | zero => omega
    | succ m =>
      simp only [manyF]
      cases hq : s ts with
      | none => rfl
      | some o =>
        cases o with
        | none => rfl
        | some p =>
          obtain ⟨a, r⟩ := p
          have := hs ts a r hq
          simp only []
          rw [ih m r (by omega) (by omega)]

theorem many_fuel {α : Type} (s : Step α) (hs : StepShrinks s) (n : Nat) (ts : Toks) (hn : ts.length < n) :
    manyF s n ts = many s ts :=
  manyF_fuel s hs n _ ts hn (Nat.lt_succ_self _)

/-! ## identifiers and attributes -/

theorem parseScopedTail_le : ∀ ts v r, parseScopedTail ts = some (v, r) → r.length ≤ ts.length := by
  intro ts
  fun_induction parseScopedTail ts with
  | case1 s r v' r' hrec ih =>
    intro v r0 h
    simp only [Option.some.injEq, Prod.mk.injEq] at h
    have := ih v' r' hrec
    rw [← h.2]
    simp only [List.length_cons]
    omega
  | case2 s r hrec => intro v r h; simp at h
  | case3 r hne => intro v r h; simp at h
  | case4 r h1 h2 => intro v r' h; simp only [Option.some.injEq, Prod.mk.injEq] at h; rw [← h.2]; exact Nat.le_refl _

theorem parseRelIdent_lt : Shrinks parseRelIdent := by
  intro ts a r h
  unfold parseRelIdent at h
  split at h
  · split at h
    · rename_i heq
      simp only [Option.some.injEq, Prod.mk.injEq] at h
      have := parseScopedTail_le _ _ _ heq
      rw [← h.2]
      simp only [List.length_cons]
      omega
    · simp at h
  · simp at h

theorem parseGlobalIdent_lt : Shrinks parseGlobalIdent := by
  intro ts a r h
  unfold parseGlobalIdent at h
  split at h
  · split at h
    · rename_i heq
      simp only [Option.some.injEq, Prod.mk.injEq] at h
      have := parseScopedTail_le _ _ _ heq
      rw [← h.2]
      simp only [List.length_cons]
      omega
    · simp at h
  · simp at h

theorem parseArgsTail_lt : ∀ ts xs r, parseArgsTail ts = some (xs, r) → r.length < ts.length := by
  intro ts
  fun_induction parseArgsTail ts with
  | case1 r => intro xs r' h; simp only [Option.some.injEq, Prod.mk.injEq] at h; rw [← h.2]; simp
  | case2 r => intro xs r' h; simp only [Option.some.injEq, Prod.mk.injEq] at h; rw [← h.2]; simp only [List.length_cons]; omega
  | case3 t r _ x hx xs' r' hrec ih =>
    intro xs r0 h
    simp only [Option.some.injEq, Prod.mk.injEq] at h
    have := ih xs' r' hrec
    rw [← h.2]
    simp only [List.length_cons]
    omega
  | case4 t r _ x hx hrec => intro xs r0 h; simp at h
  | case5 t r _ hx => intro xs r0 h; simp at h
  | case6 ts h1 h2 h3 => intro xs r0 h; simp at h

theorem parseArgs_lt : ∀ ts xs r, parseArgs ts = some (xs, r) → r.length < ts.length := by
  intro ts xs r h
  unfold parseArgs at h
  split at h
  · simp only [Option.some.injEq, Prod.mk.injEq] at h; rw [← h.2]; simp
  · split at h
    · split at h
      · rename_i heq
        simp only [Option.some.injEq, Prod.mk.injEq] at h
        have := parseArgsTail_lt _ _ _ heq
        rw [← h.2]
        simp only [List.length_cons]
        omega
      · simp at h
    · simp at h
  · simp at h

theorem parseAttribute_lt : Shrinks parseAttribute := by
  intro ts a r h
  unfold parseAttribute at h
  split at h
  · simp at h
  · rename_i d r0 heq
    have h0 := parseRelIdent_lt ts d r0 heq
    split at h
    · split at h
      · rename_i heq2
        simp only [Option.some.injEq, Prod.mk.injEq] at h
        have := parseArgs_lt _ _ _ heq2
        rw [← h.2]
        simp only [List.length_cons] at h0
        omega
      · simp at h
    · simp only [Option.some.injEq, Prod.mk.injEq] at h
      rw [← h.2]; exact h0

theorem localAttrStep_shrinks : StepShrinks localAttrStep := by
  intro ts a r h
  unfold localAttrStep at h
  split at h
  · split at h
    · rename_i heq
      simp only [Option.some.injEq, Prod.mk.injEq] at h
      have := parseAttribute_lt _ _ _ heq
      rw [← h.2]
      simp only [List.length_cons] at this ⊢
      omega
    · simp at h
  · simp at h

theorem fileAttrStep_shrinks : StepShrinks fileAttrStep := by
  intro ts a r h
  unfold fileAttrStep at h
  split at h
  · split at h
    · rename_i heq
      simp only [Option.some.injEq, Prod.mk.injEq] at h
      have := parseAttribute_lt _ _ _ heq
      rw [← h.2]
      simp only [List.length_cons] at this ⊢
      omega
    · simp at h
  · simp at h

theorem preludeStep_shrinks : StepShrinks preludeStep := by
  intro ts a r h
  unfold preludeStep at h
  split at h
  · simp only [Option.some.injEq, Prod.mk.injEq] at h; rw [← h.2]; simp
  · split at h
    · rename_i heq
      simp only [Option.some.injEq, Prod.mk.injEq] at h
      have := parseAttribute_lt _ _ _ heq
      rw [← h.2]
      simp only [List.length_cons] at this ⊢
      omega
    · simp at h
  · simp at h

theorem parsePrelude_le : ShrinksLe parsePrelude := by
  intro ts a r h
  unfold parsePrelude at h
  split at h
  · rename_i heq
    simp only [Option.some.injEq, Prod.mk.injEq] at h
    rw [← h.2]
    exact many_le _ preludeStep_shrinks _ _ _ heq
  · simp at h

/-! ## integers, tags, types -/

theorem parseSignedInt_lt : Shrinks parseSignedInt := by
  intro ts a r h
  unfold parseSignedInt at h
  split at h
  · simp only [Option.some.injEq, Prod.mk.injEq] at h; rw [← h.2]; simp
  · simp only [Option.some.injEq, Prod.mk.injEq] at h; rw [← h.2]; simp only [List.length_cons]; omega
  · simp at h

theorem parseTagOpt_le : ShrinksLe parseTagOpt := by
  intro ts a r h
  unfold parseTagOpt at h
  split at h
  · split at h
    · rename_i heq
      simp only [Option.some.injEq, Prod.mk.injEq] at h
      have := parseSignedInt_lt _ _ _ heq
      rw [← h.2]
      simp only [List.length_cons] at this ⊢
      omega
    · simp at h
  · simp at h
  · simp only [Option.some.injEq, Prod.mk.injEq] at h; rw [← h.2]; exact Nat.le_refl _

theorem finTy_le (attrs : List Attr) (ty : TyExpr) : ShrinksLe (finTy attrs ty) := by
  intro ts a r h
  unfold finTy at h
  split at h
  · simp only [Option.some.injEq, Prod.mk.injEq] at h; rw [← h.2]; simp
  · simp only [Option.some.injEq, Prod.mk.injEq] at h; rw [← h.2]; exact Nat.le_refl _

/-- one nested type: `kw "<" T ">" "?"?` -/
theorem tyBody_one (rec : P TRef) (hrec : ShrinksLe rec) (attrs : List Attr) (mk : TRef → TyExpr) (r1 : Toks) (a : TRef) (r : Toks)
    (h : (match r1 with
      | .lchevron :: r2 =>
        match rec r2 with
        | some (e, .rchevron :: r3) => finTy attrs (mk e) r3
        | _ => none
      | _ => none) = some (a, r)) : r.length < r1.length := by
  split at h
  · split at h
    · rename_i heq
      have h1 := hrec _ _ _ heq
      have h2 := finTy_le _ _ _ _ _ h
      simp only [List.length_cons] at h1 ⊢
      omega
    · simp at h
  · simp at h

/-- two nested types: `kw "<" T "," T ">" "?"?` -/
theorem tyBody_two (rec : P TRef) (hrec : ShrinksLe rec) (attrs : List Attr) (mk : TRef → TRef → TyExpr) (r1 : Toks) (a : TRef)
    (r : Toks)
    (h : (match r1 with
      | .lchevron :: r2 =>
        match rec r2 with
        | some (k', .comma :: r3) =>
          match rec r3 with
          | some (v, .rchevron :: r4) => finTy attrs (mk k' v) r4
          | _ => none
        | _ => none
      | _ => none) = some (a, r)) : r.length < r1.length := by
  split at h
  · split at h
    · rename_i heq
      have h1 := hrec _ _ _ heq
      split at h
      · rename_i heq2
        have h2 := hrec _ _ _ heq2
        have h3 := finTy_le _ _ _ _ _ h
        simp only [List.length_cons] at h1 h2 ⊢
        omega
      · simp at h
    · simp at h
  · simp at h

theorem tyBody_lt (rec : P TRef) (hrec : ShrinksLe rec) (attrs : List Attr) : Shrinks (tyBody rec attrs) := by
  intro ts a r h
  unfold tyBody at h
  split at h
  · rename_i k r1
    split at h
    · have := tyBody_one rec hrec attrs .seq r1 a r h
      simp only [List.length_cons]; omega
    · split at h
      · have := tyBody_two rec hrec attrs .dict r1 a r h
        simp only [List.length_cons]; omega
      · split at h
        · have := tyBody_two rec hrec attrs .result r1 a r h
          simp only [List.length_cons]; omega
        · split at h
          · have := finTy_le _ _ _ _ _ h
            simp only [List.length_cons]; omega
          · simp at h
  · split at h
    · rename_i heq
      have h1 := parseRelIdent_lt _ _ _ heq
      have h2 := finTy_le _ _ _ _ _ h
      omega
    · simp at h
  · split at h
    · rename_i heq
      have h1 := parseGlobalIdent_lt _ _ _ heq
      have h2 := finTy_le _ _ _ _ _ h
      omega
    · simp at h
  · simp at h

theorem parseTypeRefF_lt : ∀ n, Shrinks (parseTypeRefF n) := by
  intro n
  induction n with
  | zero => intro ts a r h; simp [parseTypeRefF] at h
  | succ n ih =>
    intro ts a r h
    simp only [parseTypeRefF] at h
    split at h
    · simp at h
    · rename_i attrs r0 heq
      have h1 := many_le _ localAttrStep_shrinks _ _ _ heq
      have h2 := tyBody_lt _ ih.le attrs _ _ _ h
      omega

theorem parseTypeRef_lt : Shrinks parseTypeRef := fun ts a r h => parseTypeRefF_lt _ ts a r h

/-- `tyBody` only applies its argument to strictly shorter inputs -/
theorem tyBody_congr (rec1 rec2 : P TRef) (attrs : List Attr) (ts : Toks)
    (h : ∀ ts', ts'.length < ts.length → rec1 ts' = rec2 ts') (h1 : ShrinksLe rec1) :
    tyBody rec1 attrs ts = tyBody rec2 attrs ts := by
  unfold tyBody
  split
  · rename_i k r1
    cases r1 with
    | nil => rfl
    | cons t r2 =>
      cases t with
      | lchevron =>
        have e2 : rec1 r2 = rec2 r2 := h r2 (by simp only [List.length_cons]; omega)
        simp only [e2]
        cases hq : rec2 r2 with
        | none => rfl
        | some p =>
          obtain ⟨e, r3⟩ := p
          have hle := h1 r2 e r3 (by rw [e2]; exact hq)
          cases r3 with
          | nil => rfl
          | cons u r4 =>
            cases u with
            | comma =>
              have e3 : rec1 r4 = rec2 r4 := h r4 (by simp only [List.length_cons] at hle ⊢; omega)
              simp only [e3]
            | _ => rfl
      | _ => rfl
  · rfl
  · rfl
  · rfl

/-- **the fuel of a type reference is never exhausted** -/
theorem parseTypeRefF_fuel : ∀ n m ts, ts.length < n → ts.length < m → parseTypeRefF n ts = parseTypeRefF m ts := by
  intro n
  induction n with
  | zero => intro m ts h; omega
  | succ n ih =>
    intro m ts hn hm
    cases m with
    | zero => omega
    | succ m =>
      simp only [parseTypeRefF]
      cases hq : many localAttrStep ts with
      | none => rfl
      | some p =>
        obtain ⟨attrs, r⟩ := p
        have hle := many_le _ localAttrStep_shrinks _ _ _ hq
        simp only []
        exact tyBody_congr _ _ attrs r (fun ts' h' => ih m ts' (by omega) (by omega)) (parseTypeRefF_lt n).le

theorem parseTypeRef_fuel (n : Nat) (ts : Toks) (hn : ts.length < n) : parseTypeRefF n ts = parseTypeRef ts :=
  parseTypeRefF_fuel n _ ts hn (Nat.lt_succ_self _)


/-! ## members, operations, enumerators, definitions -/

theorem skipComma_le (r : Toks) : (skipComma r).length ≤ r.length := by
  unfold skipComma
  split <;> simp

theorem takeKw_le (kind : String) (r : Toks) : (takeKw kind r).2.length ≤ r.length := by
  unfold takeKw
  split
  · split <;> simp
  · simp

theorem parseFieldBody_lt (docs : List String) (attrs : List Attr) : Shrinks (parseFieldBody docs attrs) := by
  intro ts a r h
  unfold parseFieldBody at h
  split at h
  · simp at h
  · rename_i tag r1 heq
    have h1 := parseTagOpt_le _ _ _ heq
    split at h
    · split at h
      · rename_i heq2
        simp only [Option.some.injEq, Prod.mk.injEq] at h
        have h2 := parseTypeRef_lt _ _ _ heq2
        rw [← h.2]
        simp only [List.length_cons] at h1
        omega
      · simp at h
    · simp at h

/-- the common frame of the member steps: `Prelude`, then the body if a member starts, `","?` -/
theorem preStep_shrinks {α : Type} (starts : Toks → Bool) (body : List String → List Attr → P α) (comma : Bool)
    (hb : ∀ d a, Shrinks (body d a)) : StepShrinks (preStep starts body comma) := by
  intro ts x r h
  unfold preStep at h
  split at h
  · simp at h
  · rename_i docs attrs r0 heq
    have h1 := parsePrelude_le _ _ _ heq
    split at h
    · split at h
      · rename_i f r' heq2
        simp only [Option.some.injEq, Prod.mk.injEq] at h
        have h2 := hb _ _ _ _ _ heq2
        rw [← h.2]
        cases comma with
        | false => simp only [Bool.false_eq_true, if_false]; omega
        | true => simp only [if_true]; have := skipComma_le r'; omega
      · simp at h
    · split at h <;> simp at h

theorem fieldStep_shrinks : StepShrinks fieldStep := preStep_shrinks _ _ _ parseFieldBody_lt

theorem parseParamBody_lt (docs : List String) (attrs : List Attr) : Shrinks (parseParamBody docs attrs) := by
  intro ts a r h
  unfold parseParamBody at h
  split at h
  · simp at h
  · rename_i tag r1 heq
    have h1 := parseTagOpt_le _ _ _ heq
    split at h
    · rename_i name r2
      split at h
      · rename_i heq2
        simp only [Option.some.injEq, Prod.mk.injEq] at h
        have h2 := parseTypeRef_lt _ _ _ heq2
        have h3 := takeKw_le "StreamKeyword" r2
        rw [← h.2]
        simp only [List.length_cons] at h1
        omega
      · simp at h
    · simp at h

theorem paramStep_shrinks : StepShrinks paramStep := preStep_shrinks _ _ _ parseParamBody_lt

theorem parseParams_lt : Shrinks parseParams := by
  intro ts a r h
  unfold parseParams at h
  split at h
  · rename_i heq
    simp only [Option.some.injEq, Prod.mk.injEq] at h
    have := many_le _ paramStep_shrinks _ _ _ heq
    rw [← h.2]
    simp only [List.length_cons] at this
    omega
  · simp at h

theorem parseRet_le : ShrinksLe parseRet := by
  intro ts a r h
  unfold parseRet at h
  split at h
  · split at h
    · rename_i heq
      simp only [Option.some.injEq, Prod.mk.injEq] at h
      have := parseParams_lt _ _ _ heq
      rw [← h.2]
      simp only [List.length_cons]
      omega
    · simp at h
  · split at h
    · simp at h
    · rename_i tag r1 heq
      have h1 := parseTagOpt_le _ _ _ heq
      split at h
      · rename_i heq2
        simp only [Option.some.injEq, Prod.mk.injEq] at h
        have h2 := parseTypeRef_lt _ _ _ heq2
        have h3 := takeKw_le "StreamKeyword" r1
        rw [← h.2]
        simp only [List.length_cons]
        omega
      · simp at h
  · simp only [Option.some.injEq, Prod.mk.injEq] at h; rw [← h.2]; exact Nat.le_refl _

theorem parseOpBody_lt (docs : List String) (attrs : List Attr) : Shrinks (parseOpBody docs attrs) := by
  intro ts a r h
  unfold parseOpBody at h
  have h0 := takeKw_le "IdempotentKeyword" ts
  split at h
  · rename_i name r1 heq0
    rw [heq0] at h0
    split at h
    · simp at h
    · rename_i ps bad1 r2 heq
      have h1 := parseParams_lt _ _ _ heq
      split at h
      · rename_i heq2
        simp only [Option.some.injEq, Prod.mk.injEq] at h
        have h2 := parseRet_le _ _ _ heq2
        rw [← h.2]
        simp only [List.length_cons] at h0
        omega
      · simp at h
  · simp at h

theorem opStep_shrinks : StepShrinks opStep := preStep_shrinks _ _ _ parseOpBody_lt

theorem parseEnumFields_le : ShrinksLe parseEnumFields := by
  intro ts a r h
  unfold parseEnumFields at h
  split at h
  · split at h
    · rename_i heq
      simp only [Option.some.injEq, Prod.mk.injEq] at h
      have := many_le _ fieldStep_shrinks _ _ _ heq
      rw [← h.2]
      simp only [List.length_cons] at this ⊢
      omega
    · simp at h
  · simp only [Option.some.injEq, Prod.mk.injEq] at h; rw [← h.2]; exact Nat.le_refl _

theorem parseEnumValue_le : ShrinksLe parseEnumValue := by
  intro ts a r h
  unfold parseEnumValue at h
  split at h
  · split at h
    · rename_i heq
      simp only [Option.some.injEq, Prod.mk.injEq] at h
      have := parseSignedInt_lt _ _ _ heq
      rw [← h.2]
      simp only [List.length_cons]
      omega
    · simp at h
  · simp only [Option.some.injEq, Prod.mk.injEq] at h; rw [← h.2]; exact Nat.le_refl _

theorem parseEnumeratorBody_lt (docs : List String) (attrs : List Attr) : Shrinks (parseEnumeratorBody docs attrs) := by
  intro ts a r h
  unfold parseEnumeratorBody at h
  split at h
  · split at h
    · simp at h
    · rename_i heq
      have h1 := parseEnumFields_le _ _ _ heq
      split at h
      · simp at h
      · rename_i heq2
        simp only [Option.some.injEq, Prod.mk.injEq] at h
        have h2 := parseEnumValue_le _ _ _ heq2
        rw [← h.2]
        simp only [List.length_cons]
        omega
  · simp at h

theorem enumeratorStep_shrinks : StepShrinks enumeratorStep := preStep_shrinks _ _ _ parseEnumeratorBody_lt

theorem baseStep_shrinks : StepShrinks baseStep := by
  intro ts a r h
  unfold baseStep at h
  split at h
  · split at h
    · split at h
      · rename_i heq
        simp only [Option.some.injEq, Prod.mk.injEq] at h
        have := parseTypeRef_lt _ _ _ heq
        rw [← h.2]
        simp only [List.length_cons]
        omega
      · simp at h
    · simp at h
  · simp at h

theorem parseBases_lt : Shrinks parseBases := by
  intro ts a r h
  unfold parseBases at h
  split at h
  · simp at h
  · rename_i heq
    have h1 := parseTypeRef_lt _ _ _ heq
    split at h
    · rename_i bs r' heq2
      simp only [Option.some.injEq, Prod.mk.injEq] at h
      have h2 := many_le _ baseStep_shrinks _ _ _ heq2
      have h3 := skipComma_le r'
      rw [← h.2]
      omega
    · simp at h

theorem parseFieldBlock_lt : Shrinks parseFieldBlock := by
  intro ts a r h
  unfold parseFieldBlock at h
  split at h
  · split at h
    · rename_i heq
      simp only [Option.some.injEq, Prod.mk.injEq] at h
      have := many_le _ fieldStep_shrinks _ _ _ heq
      rw [← h.2]
      simp only [List.length_cons] at this ⊢
      omega
    · simp at h
  · simp at h

theorem parseStructRest_lt (docs : List String) (attrs : List Attr) (c : Bool) : Shrinks (parseStructRest docs attrs c) := by
  intro ts a r h
  unfold parseStructRest at h
  split at h
  · split at h
    · rename_i heq
      simp only [Option.some.injEq, Prod.mk.injEq] at h
      have := parseFieldBlock_lt _ _ _ heq
      rw [← h.2]
      simp only [List.length_cons]
      omega
    · simp at h
  · simp at h

theorem parseUnderlying_le : ShrinksLe parseUnderlying := by
  intro ts a r h
  unfold parseUnderlying at h
  split at h
  · split at h
    · rename_i heq
      simp only [Option.some.injEq, Prod.mk.injEq] at h
      have := parseTypeRef_lt _ _ _ heq
      rw [← h.2]
      simp only [List.length_cons]
      omega
    · simp at h
  · simp only [Option.some.injEq, Prod.mk.injEq] at h; rw [← h.2]; exact Nat.le_refl _

theorem parseEnumeratorBlock_lt : Shrinks parseEnumeratorBlock := by
  intro ts a r h
  unfold parseEnumeratorBlock at h
  split at h
  · split at h
    · rename_i heq
      simp only [Option.some.injEq, Prod.mk.injEq] at h
      have := many_le _ enumeratorStep_shrinks _ _ _ heq
      rw [← h.2]
      simp only [List.length_cons] at this ⊢
      omega
    · simp at h
  · simp at h

theorem parseEnumRest_lt (docs : List String) (attrs : List Attr) (c u : Bool) : Shrinks (parseEnumRest docs attrs c u) := by
  intro ts a r h
  unfold parseEnumRest at h
  split at h
  · split at h
    · simp at h
    · rename_i heq
      have h1 := parseUnderlying_le _ _ _ heq
      split at h
      · rename_i heq2
        simp only [Option.some.injEq, Prod.mk.injEq] at h
        have h2 := parseEnumeratorBlock_lt _ _ _ heq2
        rw [← h.2]
        simp only [List.length_cons]
        omega
      · simp at h
  · simp at h

theorem parseBasesOpt_le : ShrinksLe parseBasesOpt := by
  intro ts a r h
  unfold parseBasesOpt at h
  split at h
  · have := parseBases_lt _ _ _ h
    simp only [List.length_cons]
    omega
  · simp only [Option.some.injEq, Prod.mk.injEq] at h; rw [← h.2]; exact Nat.le_refl _

theorem parseOpBlock_lt : Shrinks parseOpBlock := by
  intro ts a r h
  unfold parseOpBlock at h
  split at h
  · split at h
    · rename_i heq
      simp only [Option.some.injEq, Prod.mk.injEq] at h
      have := many_le _ opStep_shrinks _ _ _ heq
      rw [← h.2]
      simp only [List.length_cons] at this ⊢
      omega
    · simp at h
  · simp at h

theorem parseIfaceRest_lt (docs : List String) (attrs : List Attr) : Shrinks (parseIfaceRest docs attrs) := by
  intro ts a r h
  unfold parseIfaceRest at h
  split at h
  · split at h
    · simp at h
    · rename_i heq
      have h1 := parseBasesOpt_le _ _ _ heq
      split at h
      · rename_i heq2
        simp only [Option.some.injEq, Prod.mk.injEq] at h
        have h2 := parseOpBlock_lt _ _ _ heq2
        rw [← h.2]
        simp only [List.length_cons]
        omega
      · simp at h
  · simp at h

theorem parseDefBody_lt (docs : List String) (attrs : List Attr) : Shrinks (parseDefBody docs attrs) := by
  intro ts a r h
  unfold parseDefBody at h
  split at h
  · have := parseStructRest_lt _ _ _ _ _ _ h; simp only [List.length_cons]; omega
  · have := parseStructRest_lt _ _ _ _ _ _ h; simp only [List.length_cons]; omega
  · have := parseEnumRest_lt _ _ _ _ _ _ _ h; simp only [List.length_cons]; omega
  · have := parseEnumRest_lt _ _ _ _ _ _ _ h; simp only [List.length_cons]; omega
  · have := parseEnumRest_lt _ _ _ _ _ _ _ h; simp only [List.length_cons]; omega
  · have := parseEnumRest_lt _ _ _ _ _ _ _ h; simp only [List.length_cons]; omega
  · have := parseIfaceRest_lt _ _ _ _ _ h; simp only [List.length_cons]; omega
  · simp only [Option.some.injEq, Prod.mk.injEq] at h; rw [← h.2]; simp only [List.length_cons]; omega
  · split at h
    · rename_i heq
      simp only [Option.some.injEq, Prod.mk.injEq] at h
      have := parseTypeRef_lt _ _ _ heq
      rw [← h.2]
      simp only [List.length_cons]
      omega
    · simp at h
  · simp at h

theorem defStep_shrinks : StepShrinks defStep := preStep_shrinks _ _ _ parseDefBody_lt

/-- **the fuel is never exhausted**: for every list of the grammar and for type references, any amount of fuel above
    the number of tokens gives the result of the entry point (which supplies `length + 1`). -/
theorem fuel_never_exhausted (n : Nat) (ts : Toks) (hn : ts.length < n) :
    manyF localAttrStep n ts = many localAttrStep ts ∧ manyF fileAttrStep n ts = many fileAttrStep ts ∧
    manyF preludeStep n ts = many preludeStep ts ∧ manyF fieldStep n ts = many fieldStep ts ∧
    manyF paramStep n ts = many paramStep ts ∧ manyF opStep n ts = many opStep ts ∧
    manyF enumeratorStep n ts = many enumeratorStep ts ∧ manyF baseStep n ts = many baseStep ts ∧
    manyF defStep n ts = many defStep ts ∧ parseTypeRefF n ts = parseTypeRef ts :=
  ⟨many_fuel _ localAttrStep_shrinks n ts hn, many_fuel _ fileAttrStep_shrinks n ts hn,
   many_fuel _ preludeStep_shrinks n ts hn, many_fuel _ fieldStep_shrinks n ts hn,
   many_fuel _ paramStep_shrinks n ts hn, many_fuel _ opStep_shrinks n ts hn,
   many_fuel _ enumeratorStep_shrinks n ts hn, many_fuel _ baseStep_shrinks n ts hn,
   many_fuel _ defStep_shrinks n ts hn, parseTypeRef_fuel n ts hn⟩


end Slicec.SPar
