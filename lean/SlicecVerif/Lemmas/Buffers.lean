import SlicecVerif.Model.Buffers

namespace Slicec

theorem splice_length (buf : Bytes) (i : Nat) (bs : Bytes) (h : i + bs.length ≤ buf.length) :
    (splice buf i bs).length = buf.length := by
  simp [splice]; omega

theorem splice_get_before (buf : Bytes) (i : Nat) (bs : Bytes) (j : Nat) (hj : j < i) (h : i + bs.length ≤ buf.length) :
    (splice buf i bs)[j]? = buf[j]? := by
  unfold splice
  rw [List.append_assoc, List.getElem?_append_left (by simp; omega)]
  simp [List.getElem?_take, hj]

theorem splice_get_after (buf : Bytes) (i : Nat) (bs : Bytes) (j : Nat) (hj : i + bs.length ≤ j) (h : i + bs.length ≤ buf.length) :
    (splice buf i bs)[j]? = buf[j]? := by
  unfold splice
  have h1 : (buf.take i ++ bs).length = i + bs.length := by simp; omega
  rw [List.getElem?_append_right (by omega), h1, List.getElem?_drop]
  congr 1; omega

theorem splice_get_inside (buf : Bytes) (i : Nat) (bs : Bytes) (j : Nat) (hj : j < bs.length) (h : i + bs.length ≤ buf.length) :
    (splice buf i bs)[i + j]? = bs[j]? := by
  unfold splice
  have h1 : (buf.take i).length = i := by simp; omega
  rw [List.append_assoc, List.getElem?_append_right (by omega), h1, List.getElem?_append_left (by omega)]
  congr 1; omega

theorem splice_take_le (buf : Bytes) (i : Nat) (bs : Bytes) (n : Nat) (hn : n ≤ i) (h : i + bs.length ≤ buf.length) :
    (splice buf i bs).take n = buf.take n := by
  apply List.ext_getElem?
  intro j
  simp only [List.getElem?_take]
  split
  · exact splice_get_before buf i bs j (by omega) h
  · rfl

theorem splice_drop_ge (buf : Bytes) (i : Nat) (bs : Bytes) (n : Nat) (hn : i + bs.length ≤ n) (h : i + bs.length ≤ buf.length) :
    (splice buf i bs).drop n = buf.drop n := by
  apply List.ext_getElem?
  intro j
  simp only [List.getElem?_drop]
  exact splice_get_after buf i bs (n + j) (by omega) h

theorem splice_take_end (buf : Bytes) (i : Nat) (bs : Bytes) (h : i + bs.length ≤ buf.length) :
    (splice buf i bs).take (i + bs.length) = buf.take i ++ bs := by
  unfold splice
  have h1 : (buf.take i ++ bs).length = i + bs.length := by simp; omega
  rw [List.take_append_of_le_length (by omega), List.take_of_length_le (by omega)]

end Slicec
