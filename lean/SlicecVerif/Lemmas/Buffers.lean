import SlicecVerif.Model.Buffers

namespace Slicec

theorem splice_length (buf : Bytes) (i : Nat) (bs : Bytes) (h : i + bs.length ≤ buf.length) :
    (splice buf i bs).length = buf.length := by
  simp [splice]; omega

theorem splice_get_before (buf : Bytes) (i : Nat) (bs : Bytes) (j : Nat) (hj : j < i) (h : i + bs.length ≤ buf.length) :
    (splice buf i bs)[j]? = buf[j]? := by
  unfold splice
  rw [List.append_assoc, List.getElem?_append_left (by simp; omega)]
  simp [List.getElem?_take, hj]

theorem splice_get_after (buf : Bytes) (i : Nat) (bs : Bytes) (j : Nat) (hj : i + bs.length ≤ j) (h : i + bs.length ≤ buf.length) :
    (splice buf i bs)[j]? = buf[j]? := by
  unfold splice
  have h1 : (buf.take i ++ bs).length = i + bs.length := by simp; omega
  rw [List.getElem?_append_right (by omega), h1, List.getElem?_drop]
  congr 1; omega

theorem splice_get_inside (buf : Bytes) (i : Nat) (bs : Bytes) (j : Nat) (hj : j < bs.length) (h : i + bs.length ≤ buf.length) :
    (splice buf i bs)[i + j]? = bs[j]? := by
  unfold splice
  have h1 : (buf.take i).length = i := by simp; omega
  rw [List.append_assoc, List.getElem?_append_right (by omega), h1, List.getElem?_append_left (by omega)]
  congr 1; omega

theorem splice_take_le (buf : Bytes) (i : Nat) (bs : Bytes) (n : Nat) (hn : n ≤ i) (h : i + bs.length ≤ buf.length) :
    (splice buf i bs).take n = buf.take n := by
  apply List.ext_getElem?
  intro j
  simp only [List.getElem?_take]
  split
  · exact splice_get_before buf i bs j (by omega) h
  · rfl

theorem splice_drop_ge (buf : Bytes) (i : Nat) (bs : Bytes) (n : Nat) (hn : i + bs.length ≤ n) (h : i + bs.length ≤ buf.length) :
    (splice buf i bs).drop n = buf.drop n := by
  apply List.ext_getElem?
  intro j
  simp only [List.getElem?_drop]
  exact splice_get_after buf i bs (n + j) (by omega) h

theorem splice_take_end (buf : Bytes) (i : Nat) (bs : Bytes) (h : i + bs.length ≤ buf.length) :
    (splice buf i bs).take (i + bs.length) = buf.take i ++ bs := by
  unfold splice
  have h1 : (buf.take i ++ bs).length = i + bs.length := by simp; omega
  rw [List.take_append_of_le_length (by omega), List.take_of_length_le (by omega)]

theorem write_ok (s t : SliceOut) (bs : Bytes) (h : s.write bs = .ok t) :
    bs.length ≤ s.buf.length - s.pos ∧ t = ⟨splice s.buf s.pos bs, s.pos + bs.length⟩ := by
  unfold SliceOut.write SliceOut.remaining at h
  split at h
  · simp at h
  · simp at h; exact ⟨by omega, h.symm⟩

theorem reserve_ok (s t : SliceOut) (k : Nat) (r : Res) (h : s.reserve k = .ok (t, r)) :
    k ≤ s.buf.length - s.pos ∧ t = ⟨s.buf, s.pos + k⟩ ∧ r = ⟨s.pos, s.pos + k⟩ := by
  unfold SliceOut.reserve SliceOut.remaining at h
  split at h
  · simp at h
  · simp at h; exact ⟨by omega, h.1.symm, h.2.symm⟩

theorem pairwise_set {α} (R : α → α → Prop) (l : List α) (i : Nat) (x y : α) (hl : l[i]? = some x)
    (hp : l.Pairwise R) (h1 : ∀ z, R z x → R z y) (h2 : ∀ z, R x z → R y z) : (l.set i y).Pairwise R := by
  induction l generalizing i with
  | nil => simp
  | cons a l ih =>
    cases i with
    | zero =>
      simp at hl; subst hl
      simp only [List.set_cons_zero, List.pairwise_cons] at hp ⊢
      exact ⟨fun z hz => h2 z (hp.1 z hz), hp.2⟩
    | succ i =>
      simp only [List.getElem?_cons_succ] at hl
      simp only [List.set_cons_succ, List.pairwise_cons] at hp ⊢
      refine ⟨?_, ih i hl hp.2⟩
      intro z hz
      rcases List.mem_or_eq_of_mem_set hz with hz | rfl
      · exact hp.1 z hz
      · exact h1 a (hp.1 x (List.mem_of_getElem? hl))


end Slicec
