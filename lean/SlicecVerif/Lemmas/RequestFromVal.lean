/-
  C08 — reading the DECODED untyped value (`SVal`, what the schema-driven reader of Model/SchemaCodec.lean returns)
  back into the request, independently of the encoders: `fromValSliceFile`, with
  `fromValSliceFile (toValSliceFile v) = some v` for every file whose named type ids cannot be mistaken for numeric ones
  (`FileReadable`; holds for every conversion result under `AllResolve`: a named id is a keyword or contains `::`).
  Together with `request_roundtrip` and `convert_read` this gives the end-to-end statement of Props/C08
  `content_faithful_decoded`: bytes → schema-driven decoding → `fromValFile` = `describe`.
-/
import SlicecVerif.Lemmas.RequestContent

namespace Slicec

/-! ## lists of options -/

def optMap {α β : Type} (f : α → Option β) : List α → Option (List β)
  | [] => some []
  | x :: xs =>
    match f x, optMap f xs with
    | some y, some ys => some (y :: ys)
    | _, _ => none

theorem optMap_map {α β : Type} (f : β → Option α) (g : α → β) (l : List α) (h : ∀ x ∈ l, f (g x) = some x) :
    optMap f (l.map g) = some l := by
  induction l with
  | nil => rfl
  | cons a l ih =>
    simp only [List.map_cons, optMap, h a (by simp), ih (fun x hx => h x (by simp [hx]))]

theorem optMap_map' {α β γ : Type} (f : β → Option α) (g : α → β) (k : α → γ) (l : List α) :
    optMap f (l.map g) = some l → optMap (fun b => (f b).map k) (l.map g) = some (l.map k) := by
  induction l with
  | nil => intro _; rfl
  | cons a l ih =>
    intro h
    simp only [List.map_cons, optMap] at h ⊢
    cases hf : f (g a) with
    | none => rw [hf] at h; cases h
    | some y =>
      rw [hf] at h
      cases ho : optMap f (l.map g) with
      | none => rw [ho] at h; cases h
      | some ys =>
        rw [ho] at h
        simp only [Option.some.injEq, List.cons.injEq] at h
        obtain ⟨rfl, rfl⟩ := h
        simp only [Option.map_some, ih ho]

/-! ## type id strings: decimal digits = a numeric id -/

def byteChar (b : UInt8) : Char := Char.ofNat b.toNat

/-- how a reader tells the two kinds of type id apart: a non-empty string of decimal digits is the index of an
    anonymous-type symbol, anything else is a name -/
def parseTypeId (s : Bytes) : TypeIdV :=
  if !s.isEmpty && s.all (fun b => (byteChar b).isDigit) then .anon (Nat.ofDigitChars 10 (s.map byteChar) 0) else .named s

/-- the id survives being written and read -/
def TypeIdV.Readable (id : TypeIdV) : Prop := parseTypeId id.render = id

theorem sb_ofList (cs : List Char) : sb (String.ofList cs) = cs.flatMap String.utf8EncodeChar := by
  simp [sb, String.toUTF8, byteArray_toList, List.utf8Encode]

theorem isDigit_bounds {c : Char} (h : c.isDigit = true) : 48 ≤ c.val.toNat ∧ c.val.toNat ≤ 57 := by
  simp only [Char.isDigit, Bool.and_eq_true, decide_eq_true_eq] at h
  obtain ⟨h1, h2⟩ := h
  exact ⟨by simpa [UInt32.le_iff_toNat_le] using h1, by simpa [UInt32.le_iff_toNat_le] using h2⟩

theorem digit_utf8 {c : Char} (h : c.isDigit = true) : String.utf8EncodeChar c = [c.val.toUInt8] := by
  apply String.utf8EncodeChar_eq_singleton
  have hb := isDigit_bounds h
  have : c.val ≤ 127 := by rw [UInt32.le_iff_toNat_le]; show c.val.toNat ≤ 127; omega
  simp [Char.utf8Size, this]

theorem byteChar_digit {c : Char} (h : c.isDigit = true) : byteChar c.val.toUInt8 = c := by
  have hb := isDigit_bounds h
  have e : c.val.toUInt8.toNat = c.toNat := by
    simp only [UInt32.toNat_toUInt8, Char.toNat]
    omega
  simp only [byteChar, e, Char.ofNat_toNat]

theorem sb_digits (cs : List Char) (h : ∀ c ∈ cs, c.isDigit = true) : sb (String.ofList cs) = cs.map (fun c => c.val.toUInt8) := by
  rw [sb_ofList]
  induction cs with
  | nil => rfl
  | cons c cs ih =>
    simp only [List.flatMap_cons, List.map_cons, digit_utf8 (h c (by simp)), List.singleton_append,
      ih (fun x hx => h x (by simp [hx]))]

theorem map_byteChar_digits (cs : List Char) (h : ∀ c ∈ cs, c.isDigit = true) :
    (cs.map (fun c => c.val.toUInt8)).map byteChar = cs := by
  induction cs with
  | nil => rfl
  | cons c cs ih =>
    simp only [List.map_cons, byteChar_digit (h c (by simp)), ih (fun x hx => h x (by simp [hx]))]

/-- a numeric id is always read back as the same index -/
theorem readable_anon (j : Nat) : (TypeIdV.anon j).Readable := by
  have hd : ∀ c ∈ Nat.toDigits 10 j, c.isDigit = true :=
    fun c hc => Nat.isDigit_of_mem_toDigits (by decide) (by decide) hc
  have e : sb (toString j) = (Nat.toDigits 10 j).map (fun c => c.val.toUInt8) := by
    rw [Nat.toString_eq_ofList_toDigits, sb_digits _ hd]
  have h1 : ((Nat.toDigits 10 j).map (fun c => c.val.toUInt8)).isEmpty = false := by
    cases hj : Nat.toDigits 10 j with
    | nil => exact absurd hj Nat.toDigits_ne_nil
    | cons a l => rfl
  have h2 : ((Nat.toDigits 10 j).map (fun c => c.val.toUInt8)).all (fun b => (byteChar b).isDigit) = true := by
    rw [List.all_eq_true]
    intro b hb
    obtain ⟨c, hc, rfl⟩ := List.mem_map.mp hb
    rw [byteChar_digit (hd c hc)]
    exact hd c hc
  show parseTypeId (sb (toString j)) = .anon j
  rw [e]
  unfold parseTypeId
  rw [h1, h2, map_byteChar_digits _ hd, Nat.ofDigitChars_ten_toDigits]
  rfl

/-- a name that is empty or has a byte that is not a digit is read back as that name -/
theorem readable_named (s : Bytes) (h : s = [] ∨ ∃ b ∈ s, (byteChar b).isDigit = false) : (TypeIdV.named s).Readable := by
  simp only [TypeIdV.Readable, TypeIdV.render, parseTypeId]
  rcases h with rfl | ⟨b, hb, hd⟩
  · simp
  · have : s.all (fun b => (byteChar b).isDigit) = false := by
      rw [List.all_eq_false]
      exact ⟨b, hb, by simp [hd]⟩
    simp [this]

/-! ## the reader -/

def fromValStr : SVal → Option Bytes
  | .str s => some s
  | _ => none

def fromValAttribute : SVal → Option AttributeV
  | .struct [.str d, .list as] => (optMap fromValStr as).map fun a => ⟨d, a⟩
  | _ => none

def fromValTypeRef : SVal → Option TypeRefV
  | .struct [.str id, .bool o, .list as] => (optMap fromValAttribute as).map fun a => ⟨parseTypeId id, o, a⟩
  | _ => none

def fromValMsgComp : SVal → Option MsgCompV
  | .variant 0 [.str s] => some (.text s)
  | .variant 1 [.str s] => some (.link s)
  | _ => none

def fromValDocComment : SVal → Option DocCommentV
  | .struct [.list ov, .list sees] =>
    match optMap fromValMsgComp ov, optMap fromValStr sees with
    | some a, some b => some ⟨a, b⟩
    | _, _ => none
  | _ => none

def fromValOptDoc : SVal → Option (Option DocCommentV)
  | .absent => some none
  | .present d => (fromValDocComment d).map some
  | _ => none

def fromValEntityInfo : SVal → Option EntityInfoV
  | .struct [.str id, .list as, c] =>
    match optMap fromValAttribute as, fromValOptDoc c with
    | some a, some d => some ⟨id, a, d⟩
    | _, _ => none
  | _ => none

def fromValModule : SVal → Option ModuleV
  | .struct [.str id, .list as] => (optMap fromValAttribute as).map fun a => ⟨id, a⟩
  | _ => none

def fromValOptTag : SVal → Option (Option Int)
  | .absent => some none
  | .present (.int v) => some (some v)
  | _ => none

def fromValField : SVal → Option FieldV
  | .struct [e, t, r] =>
    match fromValEntityInfo e, fromValOptTag t, fromValTypeRef r with
    | some e, some t, some r => some ⟨e, t, r⟩
    | _, _, _ => none
  | _ => none

def fromValStruct : SVal → Option StructV
  | .struct [e, .bool c, .list fs] =>
    match fromValEntityInfo e, optMap fromValField fs with
    | some e, some fs => some ⟨e, c, fs⟩
    | _, _ => none
  | _ => none

def fromValOperation : SVal → Option OperationV
  | .struct [e, .bool i, .list ps, .bool sp, .list rs, .bool sr] =>
    match fromValEntityInfo e, optMap fromValField ps, optMap fromValField rs with
    | some e, some ps, some rs => some ⟨e, i, ps, sp, rs, sr⟩
    | _, _, _ => none
  | _ => none

def fromValInterface : SVal → Option InterfaceV
  | .struct [e, .list bs, .list os] =>
    match fromValEntityInfo e, optMap fromValStr bs, optMap fromValOperation os with
    | some e, some bs, some os => some ⟨e, bs, os⟩
    | _, _, _ => none
  | _ => none

def fromValEnumerator : SVal → Option EnumeratorV
  | .struct [e, .int a, .bool n] => (fromValEntityInfo e).map fun e => ⟨e, a, n⟩
  | _ => none

def fromValBasicEnum : SVal → Option BasicEnumV
  | .struct [e, .bool u, .str ut, .list es] =>
    match fromValEntityInfo e, optMap fromValEnumerator es with
    | some e, some es => some ⟨e, u, ut, es⟩
    | _, _ => none
  | _ => none

def fromValVariant : SVal → Option VariantV
  | .struct [e, .int d, .list fs] =>
    match fromValEntityInfo e, optMap fromValField fs with
    | some e, some fs => some ⟨e, d, fs⟩
    | _, _ => none
  | _ => none

def fromValVariantEnum : SVal → Option VariantEnumV
  | .struct [e, .bool c, .bool u, .list vs] =>
    match fromValEntityInfo e, optMap fromValVariant vs with
    | some e, some vs => some ⟨e, c, u, vs⟩
    | _, _ => none
  | _ => none

def fromValCustomType : SVal → Option CustomTypeV
  | .struct [e] => (fromValEntityInfo e).map fun e => ⟨e⟩
  | _ => none

def fromValTypeAlias : SVal → Option TypeAliasV
  | .struct [e, r] =>
    match fromValEntityInfo e, fromValTypeRef r with
    | some e, some r => some ⟨e, r⟩
    | _, _ => none
  | _ => none

def fromValSequenceType : SVal → Option SequenceTypeV
  | .struct [r] => (fromValTypeRef r).map fun r => ⟨r⟩
  | _ => none

def fromValDictionaryType : SVal → Option DictionaryTypeV
  | .struct [k, v] =>
    match fromValTypeRef k, fromValTypeRef v with
    | some k, some v => some ⟨k, v⟩
    | _, _ => none
  | _ => none

def fromValResultType : SVal → Option ResultTypeV
  | .struct [s, f] =>
    match fromValTypeRef s, fromValTypeRef f with
    | some s, some f => some ⟨s, f⟩
    | _, _ => none
  | _ => none

/-- enumerator numbers in the order of the schema's `Symbol` (checked against `toValSymbol` by the round trip below and
    against the schema by `discriminants_match_schema`) -/
def fromValSymbol : SVal → Option SymbolV
  | .variant 0 [v] => (fromValInterface v).map .interface
  | .variant 1 [v] => (fromValBasicEnum v).map .basicEnum
  | .variant 2 [v] => (fromValVariantEnum v).map .variantEnum
  | .variant 3 [v] => (fromValStruct v).map .struct
  | .variant 4 [v] => (fromValCustomType v).map .customType
  | .variant 5 [v] => (fromValSequenceType v).map .sequenceType
  | .variant 6 [v] => (fromValDictionaryType v).map .dictionaryType
  | .variant 7 [v] => (fromValResultType v).map .resultType
  | .variant 8 [v] => (fromValTypeAlias v).map .typeAlias
  | _ => none

def fromValSliceFile : SVal → Option SliceFileV
  | .struct [.str p, m, .list as, .list cs] =>
    match fromValModule m, optMap fromValAttribute as, optMap fromValSymbol cs with
    | some m, some as, some cs => some ⟨p, m, as, cs⟩
    | _, _, _ => none
  | _ => none

/-- **what a generator reads from the decoded value of one file**: the typed file, then its named symbols with every
    numeric id dereferenced -/
def fromValFile (v : SVal) : Option FileD := (fromValSliceFile v).map readFile

/-! ## the reader inverts `toVal*` -/

theorem fromVal_strs (l : List Bytes) : optMap fromValStr (l.map SVal.str) = some l :=
  optMap_map _ _ _ (fun _ _ => rfl)

theorem fromVal_Attribute (a : AttributeV) : fromValAttribute (toValAttribute a) = some a := by
  simp only [toValAttribute, fromValAttribute, fromVal_strs, Option.map_some]

theorem fromVal_Attributes (l : List AttributeV) : optMap fromValAttribute (l.map toValAttribute) = some l :=
  optMap_map _ _ _ (fun a _ => fromVal_Attribute a)

theorem fromVal_TypeRef (r : TypeRefV) (h : r.typeId.Readable) : fromValTypeRef (toValTypeRef r) = some r := by
  simp only [toValTypeRef, fromValTypeRef, fromVal_Attributes, Option.map_some]
  rw [h]

theorem fromVal_MsgComp (m : MsgCompV) : fromValMsgComp (toValMsgComp m) = some m := by
  cases m <;> rfl

theorem fromVal_DocComment (d : DocCommentV) : fromValDocComment (toValDocComment d) = some d := by
  simp only [toValDocComment, fromValDocComment, fromVal_strs, optMap_map _ _ _ (fun m _ => fromVal_MsgComp m)]

theorem fromVal_EntityInfo (e : EntityInfoV) : fromValEntityInfo (toValEntityInfo e) = some e := by
  obtain ⟨id, as, c⟩ := e
  cases c with
  | none => simp only [toValEntityInfo, fromValEntityInfo, fromVal_Attributes, fromValOptDoc]
  | some d => simp only [toValEntityInfo, fromValEntityInfo, fromVal_Attributes, fromValOptDoc, fromVal_DocComment, Option.map_some]

theorem fromVal_Module (m : ModuleV) : fromValModule (toValModule m) = some m := by
  simp only [toValModule, fromValModule, fromVal_Attributes, Option.map_some]

theorem fromVal_Field (f : FieldV) (h : f.dataType.typeId.Readable) : fromValField (toValField f) = some f := by
  obtain ⟨e, t, r⟩ := f
  cases t with
  | none => simp only [toValField, fromValField, fromVal_EntityInfo, fromValOptTag, fromVal_TypeRef r h]
  | some v => simp only [toValField, fromValField, fromVal_EntityInfo, fromValOptTag, fromVal_TypeRef r h]

theorem fromVal_Fields (l : List FieldV) (h : ∀ f ∈ l, f.dataType.typeId.Readable) :
    optMap fromValField (l.map toValField) = some l :=
  optMap_map _ _ _ (fun f hf => fromVal_Field f (h f hf))

theorem fromVal_Struct (s : StructV) (h : ∀ f ∈ s.fields, f.dataType.typeId.Readable) :
    fromValStruct (toValStruct s) = some s := by
  simp only [toValStruct, fromValStruct, fromVal_EntityInfo, fromVal_Fields _ h]

theorem fromVal_Operation (o : OperationV) (h : ∀ f ∈ o.parameters ++ o.returnType, f.dataType.typeId.Readable) :
    fromValOperation (toValOperation o) = some o := by
  simp only [toValOperation, fromValOperation, fromVal_EntityInfo,
    fromVal_Fields _ (fun f hf => h f (List.mem_append_left _ hf)), fromVal_Fields _ (fun f hf => h f (List.mem_append_right _ hf))]

theorem fromVal_Interface (i : InterfaceV)
    (h : ∀ o ∈ i.operations, ∀ f ∈ o.parameters ++ o.returnType, f.dataType.typeId.Readable) :
    fromValInterface (toValInterface i) = some i := by
  simp only [toValInterface, fromValInterface, fromVal_EntityInfo, fromVal_strs,
    optMap_map _ _ _ (fun o ho => fromVal_Operation o (h o ho))]

theorem fromVal_Enumerator (e : EnumeratorV) : fromValEnumerator (toValEnumerator e) = some e := by
  simp only [toValEnumerator, fromValEnumerator, fromVal_EntityInfo, Option.map_some]

theorem fromVal_BasicEnum (e : BasicEnumV) : fromValBasicEnum (toValBasicEnum e) = some e := by
  simp only [toValBasicEnum, fromValBasicEnum, fromVal_EntityInfo, optMap_map _ _ _ (fun x _ => fromVal_Enumerator x)]

theorem fromVal_Variant (v : VariantV) (h : ∀ f ∈ v.fields, f.dataType.typeId.Readable) :
    fromValVariant (toValVariant v) = some v := by
  simp only [toValVariant, fromValVariant, fromVal_EntityInfo, fromVal_Fields _ h]

theorem fromVal_VariantEnum (e : VariantEnumV) (h : ∀ v ∈ e.variants, ∀ f ∈ v.fields, f.dataType.typeId.Readable) :
    fromValVariantEnum (toValVariantEnum e) = some e := by
  simp only [toValVariantEnum, fromValVariantEnum, fromVal_EntityInfo, optMap_map _ _ _ (fun v hv => fromVal_Variant v (h v hv))]

theorem fromVal_CustomType (c : CustomTypeV) : fromValCustomType (toValCustomType c) = some c := by
  simp only [toValCustomType, fromValCustomType, fromVal_EntityInfo, Option.map_some]

theorem fromVal_TypeAlias (a : TypeAliasV) (h : a.underlyingType.typeId.Readable) :
    fromValTypeAlias (toValTypeAlias a) = some a := by
  simp only [toValTypeAlias, fromValTypeAlias, fromVal_EntityInfo, fromVal_TypeRef _ h]

theorem fromVal_Symbol (s : SymbolV) (h : ∀ r ∈ s.trefs, r.typeId.Readable) : fromValSymbol (toValSymbol s) = some s := by
  cases s with
  | interface v =>
    simp only [toValSymbol, fromValSymbol]
    rw [fromVal_Interface v (fun o ho f hf => h _ (by
      simp only [SymbolV.trefs, List.mem_flatMap, List.mem_map]
      exact ⟨o, ho, f, hf, rfl⟩))]
    rfl
  | basicEnum v => simp only [toValSymbol, fromValSymbol, fromVal_BasicEnum, Option.map_some]
  | variantEnum v =>
    simp only [toValSymbol, fromValSymbol]
    rw [fromVal_VariantEnum v (fun x hx f hf => h _ (by
      simp only [SymbolV.trefs, List.mem_flatMap, List.mem_map]
      exact ⟨x, hx, f, hf, rfl⟩))]
    rfl
  | struct v =>
    simp only [toValSymbol, fromValSymbol]
    rw [fromVal_Struct v (fun f hf => h _ (by simp only [SymbolV.trefs, List.mem_map]; exact ⟨f, hf, rfl⟩))]
    rfl
  | customType v => simp only [toValSymbol, fromValSymbol, fromVal_CustomType, Option.map_some]
  | sequenceType v =>
    simp only [toValSymbol, fromValSymbol, toValSequenceType, fromValSequenceType,
      fromVal_TypeRef _ (h v.elementType (by simp [SymbolV.trefs])), Option.map_some]
  | dictionaryType v =>
    simp only [toValSymbol, fromValSymbol, toValDictionaryType, fromValDictionaryType,
      fromVal_TypeRef _ (h v.keyType (by simp [SymbolV.trefs])), fromVal_TypeRef _ (h v.valueType (by simp [SymbolV.trefs])),
      Option.map_some]
  | resultType v =>
    simp only [toValSymbol, fromValSymbol, toValResultType, fromValResultType,
      fromVal_TypeRef _ (h v.successType (by simp [SymbolV.trefs])), fromVal_TypeRef _ (h v.failureType (by simp [SymbolV.trefs])),
      Option.map_some]
  | typeAlias v =>
    simp only [toValSymbol, fromValSymbol]
    rw [fromVal_TypeAlias v (h _ (by simp [SymbolV.trefs]))]
    rfl

/-- no named type id of the file can be mistaken for a numeric one -/
def FileReadable (v : SliceFileV) : Prop := ∀ s ∈ v.contents, ∀ r ∈ s.trefs, r.typeId.Readable

theorem fromVal_SliceFile (v : SliceFileV) (h : FileReadable v) : fromValSliceFile (toValSliceFile v) = some v := by
  simp only [toValSliceFile, fromValSliceFile, fromVal_Module, fromVal_Attributes,
    optMap_map _ _ _ (fun s hs => fromVal_Symbol s (h s hs))]

theorem fromVal_Files (l : List SliceFileV) (h : ∀ v ∈ l, FileReadable v) :
    optMap fromValFile (l.map toValSliceFile) = some (l.map readFile) :=
  optMap_map' fromValSliceFile toValSliceFile readFile l (optMap_map _ _ _ (fun v hv => fromVal_SliceFile v (h v hv)))

/-! ## under the guard every id is readable -/

theorem prim_readable : ∀ p ∈ Prim.all, (TypeIdV.named (sb p.kw)).Readable := by
  intro p hp
  apply readable_named
  right
  -- the first byte of a keyword is a letter
  have : ∀ p ∈ Prim.all, ∃ b ∈ p.kw.toByteArray.data.toList, (byteChar b).isDigit = false := by decide
  obtain ⟨b, hb, hd⟩ := this p hp
  exact ⟨b, by rw [C08Demo.sb_eq_data]; exact hb, hd⟩

theorem scoped_readable (scope name : String) : (TypeIdV.named (sb scope ++ sb "::" ++ sb name)).Readable := by
  apply readable_named
  right
  refine ⟨58, ?_, by decide⟩
  have : sb "::" = [58, 58] := by rw [C08Demo.sb_eq_data]; decide
  rw [this]
  simp

/-- a named id accounted for by `NamedOK` (keyword or scoped identifier of a definition of a file that resolves) is
    readable -/
theorem namedOK_readable (p : Program) (t : Table) (hg : ∀ f ∈ p, fileResolves t f = true) (id : Bytes) (h : NamedOK p id) :
    (TypeIdV.named id).Readable := by
  rcases h with ⟨pr, hpr, rfl⟩ | ⟨f, hf, d, hd, _, rfl⟩
  · exact prim_readable pr hpr
  · have hg' := hg f hf
    unfold fileResolves at hg'
    cases hm : f.module with
    | none =>
      rw [hm] at hg'
      simp only [List.isEmpty_iff] at hg'
      rw [hg'] at hd; cases hd
    | some m =>
      rw [hm] at hg'
      simp only [Bool.and_eq_true, Bool.not_eq_true'] at hg'
      have : f.modPath = m.path := by simp [SFile.modPath, hm]
      rw [this, sb_scopedId _ _ hg'.1]
      exact scoped_readable _ _

theorem allSymNamed_readable (p : Program) (t : Table) (hg : ∀ f ∈ p, fileResolves t f = true) (v : SliceFileV)
    (h : AllSymNamed p v.contents) : FileReadable v := by
  intro s hs r hr
  cases hid : r.typeId with
  | anon j => exact readable_anon j
  | named id => exact namedOK_readable p t hg id ((h s hs).1 r hr id hid)

/-- every file of a conversion result of a program whose references resolve is readable -/
theorem convert_readable (mode : DocMode) (fs : List ReqFile) (srcs refs : List SliceFileV)
    (h : convert mode fs = some (srcs, refs)) (hg : AllResolve fs = true) : ∀ v ∈ srcs ++ refs, FileReadable v := by
  unfold convert at h
  cases hvs : convertAll mode (buildTable (programOf fs)) fs with
  | none => rw [hvs] at h; cases h
  | some vs =>
    rw [hvs] at h
    simp only [Option.some.injEq, Prod.mk.injEq] at h
    obtain ⟨rfl, rfl⟩ := h
    have hgf : ∀ rf ∈ fs, fileResolves (buildTable (programOf fs)) rf.file = true := by
      intro rf hrf
      exact List.all_eq_true.mp hg rf.file (List.mem_map.mpr ⟨rf, hrf, rfl⟩)
    have hgp : ∀ f ∈ programOf fs, fileResolves (buildTable (programOf fs)) f = true := by
      intro f hf
      exact List.all_eq_true.mp hg f hf
    intro v hv
    obtain ⟨q, hq, rfl⟩ := split_mem vs v hv
    exact allSymNamed_readable (programOf fs) _ hgp q.2 (convertAll_named mode (programOf fs) fs vs hvs hgf q hq)

end Slicec
