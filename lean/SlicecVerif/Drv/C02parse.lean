/- Cases for C02, stream `C02parse`: the model of the Slice parser (Model/SliceParser.lean, on top of the lexer model)
   against the real parser (engine `compile`, op `parse`, harness/src/sliceparse.rs).
   Case line: `parse <fam> <text hex> <expected>`; expected = `syn=1` (a syntax error E002 is reported) or
   `syn=0 <astDump of the file the model's parser built>`.
   Families: `rendered-*` (generated single-file programs in several layouts; also checks parse∘print = id and the side
   conditions of `parse_print` on them: `K` lines otherwise), `catalogue` (hand-written boundary inputs of every
   production), `soup` (all sequences of ≤ 2..4 pieces of the token alphabet inside fixed valid contexts),
   `mutation` (single-token deletions / insertions / replacements / swaps of valid programs). -/
import SlicecVerif.Drv.Prog
import SlicecVerif.Model.SliceParser
import SlicecVerif.Model.Elab

namespace Slicec.Drv.C02P

open Slicec Slicec.SLex Slicec.SPar Slicec.Drv

/-- the model's observation of one source text -/
def observe (text : String) : String :=
  match lexSlice text.toList with
  | .error _ => "syn=1"
  | .ok ts =>
    match parseFile ts with
    | none => "syn=1"
    | some f => if moduleRequired f then "syn=1" else "syn=0 " ++ astDump [f]

def parseCase (fam : String) (text : String) : String :=
  tab ["parse", fam, hexOfString text, observe text]

/-- a spelling of a token that lexes back to it in either attribute mode (identifiers that are keywords are escaped) -/
def spellTok : SliceTok → String
  | .ident s => let w := String.ofList s; if keywords.contains w || (Gen.sliceKeywords.lookup w).isSome then "\\" ++ w else w
  | .strLit s => "\"" ++ String.ofList s ++ "\""
  | .intLit s => String.ofList s
  | .doc s => "///" ++ String.ofList s ++ "\n"
  | .kw k => match Gen.sliceKeywords.find? (fun p => p.2 == k) with | some p => p.1 | none => "?"
  | .lparen => "(" | .rparen => ")" | .lbracket => "[" | .rbracket => "]" | .dlbracket => "[[" | .drbracket => "]]"
  | .lbrace => "{" | .rbrace => "}" | .lchevron => "<" | .rchevron => ">"
  | .comma => "," | .colon => ":" | .dcolon => "::" | .equals => "=" | .qmark => "?" | .arrow => "->" | .minus => "-"

def spellToks (ts : List SliceTok) : String := " ".intercalate (ts.map spellTok)

/-- the token alphabet of the soups, as spellings (one piece = one token; `\x` is an identifier in both attribute modes) -/
def alphabet : List String :=
  ["(", ")", "[", "]", "[[", "]]", "{", "}", "<", ">", ",", ":", "::", "=", "?", "->", "-",
   "x", "1", "\"s\"", "/// d\n",
   "module", "struct", "interface", "enum", "custom", "typealias", "Result", "Sequence", "Dictionary", "bool", "string",
   "compact", "idempotent", "stream", "tag", "unchecked"]

/-- a smaller alphabet for the longer soups -/
def coreAlphabet : List String :=
  ["(", ")", "[", "]", "{", "}", "<", ">", ",", ":", "::", "=", "?", "->", "-", "x", "1", "/// d\n",
   "struct", "enum", "Sequence", "bool", "compact", "idempotent", "stream", "tag", "unchecked"]

def tinyAlphabet : List String := ["(", ")", "[", "]", ",", ":", "::", "?", "x", "1", "/// d\n", "bool", "tag", "Sequence", "<", ">"]

/-- fixed valid contexts: the soup is placed between prefix and suffix -/
def contexts : List (String × String) :=
  [("", ""),
   ("module M ", ""),
   ("module M struct S { ", " }"),
   ("module M struct S { a: ", " }"),
   ("module M struct S { a: bool ", " b: bool }"),
   ("module M enum E { ", " }"),
   ("module M enum E { A ", " }"),
   ("module M enum E { A = ", " B }"),
   ("module M interface I { ", " }"),
   ("module M interface I { op( ", " ) }"),
   ("module M interface I { op() -> ", " }"),
   ("module M interface I { op() ", " op2() }"),
   ("module M interface I ", " { }"),
   ("module M typealias T = ", ""),
   ("module M typealias T = Dictionary< ", " >"),
   ("module M [ ", " ] struct S {}"),
   ("module M [a( ", " )] struct S {}"),
   ("[[ ", " ]] module M"),
   ("module M struct S { tag( ", " ) a: bool? }"),
   ("module M compact ", " S {}"),
   ("", " module M")]

/-- all sequences of exactly `n` pieces, separated by blanks -/
def soups (alpha : List String) : Nat → List String
  | 0 => [""]
  | n + 1 => (soups alpha n).flatMap fun s => alpha.map fun p => if s.isEmpty then p else s ++ " " ++ p

/-- hand-written boundary inputs, one group per production -/
def catalogue : List String :=
  [ -- SliceFile / Module
    "", "// only a comment\n", "module M", "module M::N", "module M::", "module ::M", "module", "module M module N", "module M N",
    "struct S {}", "module M struct S {}", "struct S {} module M", "[[a]]", "[[a]] [[b]] module M", "module M [[a]]", "[[a]] struct S {}",
    "[a] module M", "/// d\nmodule M", "[a] /// d\n [b] module M", "[a]", "/// d\n", "module M [a]", "module M /// d\n", "[[a]] [b] [[c]] module M",
    "module \\module", "module M::\\struct::N", "[[a]", "[[a]]]", "[[a] ]", "[ [a]] module M", "module M custom", "module M custom C custom D",
    "module M custom C custom", "module M custom C,", "module M , custom C", "module M custom C; custom D",
    -- Struct / Field
    "module M struct S { }", "module M compact struct S {}", "module M compact compact struct S {}", "module M unchecked struct S {}",
    "module M compact unchecked struct S {}", "module M struct {}", "module M struct S", "module M struct S {", "module M struct S }",
    "module M struct S { a: bool }", "module M struct S { a: bool, }", "module M struct S { a: bool,, }", "module M struct S { , a: bool }",
    "module M struct S { a: bool b: bool }", "module M struct S { a: bool, b: bool }", "module M struct S { a: bool,\n b: bool,\n }",
    "module M struct S { a bool }", "module M struct S { a: }", "module M struct S { : bool }", "module M struct S { a:: bool }",
    "module M struct S { tag(1) a: bool? }", "module M struct S { tag(1) tag(2) a: bool? }", "module M struct S { a: tag(1) bool? }",
    "module M struct S { tag() a: bool? }", "module M struct S { tag(1 a: bool? }", "module M struct S { tag 1 a: bool? }",
    "module M struct S { tag(-1) a: bool? }", "module M struct S { tag(- 1) a: bool? }", "module M struct S { tag(--1) a: bool? }",
    "module M struct S { tag(0x1F) a: bool? }", "module M struct S { tag(0b101) a: bool? }", "module M struct S { tag(1_0) a: bool? }",
    "module M struct S { tag(0xZZ) a: bool? }", "module M struct S { tag(0x) a: bool? }", "module M struct S { tag(99999999999) a: bool? }",
    "module M struct S { tag(1,) a: bool? }", "module M struct S { [a] tag(1) a: bool? }", "module M struct S { tag(1) [a] a: bool? }",
    "module M struct S { /// d\n a: bool }", "module M struct S { [x] /// d\n [y] /// e\n a: bool }", "module M struct S { a: bool /// d\n }",
    "module M struct S { a: bool [x] }", "module M struct S { [x] }", "module M struct S { /// d\n }", "module M struct S { a: bool } struct T { b: S }",
    "module M struct S { stream: bool }", "module M struct S { \\stream: bool }", "module M struct S { a: stream bool }", "module M struct S { idempotent a: bool }",
    "module M struct S { a: bool = 1 }", "module M struct S { a: bool; }", "module M struct S { a: bool }}", "module M struct S {{ a: bool }",
    "module M struct S { struct T {} }", "module M struct S { a: bool } ,", "module M struct S ( a: bool )",
    -- TypeRef
    "module M typealias T = bool", "module M typealias T = bool?", "module M typealias T = bool??", "module M typealias T = ?bool",
    "module M typealias T = Sequence<bool>", "module M typealias T = Sequence<bool>?", "module M typealias T = Sequence<bool?>",
    "module M typealias T = Sequence<>", "module M typealias T = Sequence<bool", "module M typealias T = Sequence bool>", "module M typealias T = Sequence<bool,>",
    "module M typealias T = Sequence<bool, bool>", "module M typealias T = Sequence<Sequence<bool>>", "module M typealias T = Sequence<Sequence<Sequence<bool?>?>?>?",
    "module M typealias T = Dictionary<bool, string>", "module M typealias T = Dictionary<bool>", "module M typealias T = Dictionary<bool,>",
    "module M typealias T = Dictionary<bool string>", "module M typealias T = Dictionary<bool, string, int32>", "module M typealias T = Dictionary<bool, string,>",
    "module M typealias T = Result<bool, string>", "module M typealias T = Result<bool>", "module M typealias T = Result<Result<bool, bool>, Dictionary<int8, Sequence<string>>>",
    "module M typealias T = [a] bool", "module M typealias T = [a] [b(c)] bool?", "module M typealias T = [a] ", "module M typealias T = bool [a]",
    "module M typealias T = Sequence<[a] bool>", "module M typealias T = [[a]] bool", "module M typealias T = /// d\n bool", "module M typealias T = [a] /// d\n bool",
    "module M struct S {} typealias T = S", "module M struct S {} typealias T = M::S", "module M struct S {} typealias T = ::M::S", "module M struct S {} typealias T = ::S",
    "module M typealias T = M::", "module M typealias T = ::", "module M typealias T = :: ::S", "module M typealias T = M:: ::S", "module M typealias T = M::bool",
    "module M typealias T = ::bool", "module M typealias T = \\bool", "module M typealias T = M : : S", "module M typealias T = S::T::U::V",
    "module M typealias T", "module M typealias T =", "module M typealias = bool", "module M typealias T bool", "module M typealias T = bool bool",
    "module M typealias T = struct", "module M typealias T = tag", "module M typealias T = AnyClass", "module M typealias T = 1", "module M typealias T = \"s\"",
    "module M typealias T = (bool)", "module M typealias T = bool, typealias U = bool", "module M typealias T = bool typealias U = T",
    -- Enum / Enumerator
    "module M enum E {}", "module M enum E { A }", "module M enum E { A, B, C }", "module M enum E { A B C }", "module M enum E { A,, B }", "module M enum E { , A }",
    "module M enum E { A = 1 }", "module M enum E { A = -1 }", "module M enum E { A = - 1 }", "module M enum E { A = +1 }", "module M enum E { A = }", "module M enum E { A = B }",
    "module M enum E { A = 1 = 2 }", "module M enum E { A = 0x7F, B, C = 0b11, D = 1_000 }", "module M enum E : uint8 { A }", "module M enum E : uint8? { A }",
    "module M enum E : { A }", "module M enum E : [a] uint8 { A }", "module M enum E : Sequence<bool> { A }", "module M enum E : X::Y { A }", "module M enum E uint8 { A }",
    "module M enum E : uint8, int8 { A }", "module M unchecked enum E { A }", "module M compact enum E { A }", "module M compact unchecked enum E { A }",
    "module M unchecked compact enum E { A }", "module M unchecked unchecked enum E { A }", "module M compact compact enum E { A }", "module M enum unchecked E { A }",
    "module M enum E { A() }", "module M enum E { A(a: bool) }", "module M enum E { A(a: bool, b: string,) }", "module M enum E { A(a: bool b: string) = 3 }",
    "module M enum E { A(,) }", "module M enum E { A(a: bool }", "module M enum E { A = 1 (a: bool) }", "module M enum E { A(a: bool)(b: bool) }",
    "module M enum E { A(tag(1) a: bool?) }", "module M enum E { A(/// d\n a: bool) }", "module M enum E { /// d\n [x] A }", "module M enum E { A /// d\n }",
    "module M enum E { A: bool }", "module M enum E { tag(1) A }", "module M enum E { A = 1, }", "module M enum E { A = 1,, }", "module M enum E { 1 }", "module M enum E { A = \"s\" }",
    "module M enum E { A = 99999999999999999999999999999999999999999999 }", "module M enum E { A = 0xZ }", "module M enum E { A(stream: bool) }",
    -- Interface / Operation / Parameter / ReturnType
    "module M interface I {}", "module M interface I { op() }", "module M interface I { op() op2() }", "module M interface I { op(), op2() }", "module M interface I { op(); }",
    "module M interface I { idempotent op() }", "module M interface I { idempotent idempotent op() }", "module M interface I { op idempotent () }",
    "module M interface I { op(a: bool) }", "module M interface I { op(a: bool,) }", "module M interface I { op(a: bool b: bool) }", "module M interface I { op(a: bool,, b: bool) }",
    "module M interface I { op(, a: bool) }", "module M interface I { op(a: stream bool) }", "module M interface I { op(a: stream stream bool) }", "module M interface I { op(stream a: bool) }",
    "module M interface I { op(tag(1) a: bool?) }", "module M interface I { op([x] tag(1) a: stream bool?) }", "module M interface I { op(/// d\n a: bool) }",
    "module M interface I { op([x] /// d\n a: bool) }", "module M interface I { op(a: bool /// d\n) }", "module M interface I { op(a) }", "module M interface I { op(a:) }",
    "module M interface I { op() -> bool }", "module M interface I { op() -> bool? }", "module M interface I { op() -> stream bool }", "module M interface I { op() -> tag(1) bool? }",
    "module M interface I { op() -> tag(1) stream bool? }", "module M interface I { op() -> stream tag(1) bool? }", "module M interface I { op() -> [a] bool }",
    "module M interface I { op() -> /// d\n bool }", "module M interface I { op() -> }", "module M interface I { op() -> -> bool }", "module M interface I { op() -> bool -> bool }",
    "module M interface I { op() -> () }", "module M interface I { op() -> (a: bool) }", "module M interface I { op() -> (a: bool, b: bool) }", "module M interface I { op() -> (a: bool b: bool,) }",
    "module M interface I { op() -> (a: bool, b: stream bool) }", "module M interface I { op() -> (/// d\n a: bool, b: bool) }", "module M interface I { op() -> (bool, bool) }",
    "module M interface I { op() -> (a: bool, b: bool) op2() }", "module M interface I { op() -> a: bool }", "module M interface I { op() -> (a: bool, b: bool)? }",
    "module M interface I { op() -> Sequence<bool> op2() -> Dictionary<bool, bool>? }", "module M interface I { op() -> X::Y op2() }", "module M interface I { op() -> X ::Y() }",
    "module M interface I { /// d\n [x] /// e\n op() }", "module M interface I { op() /// d\n }", "module M interface I { [x] }", "module M interface I { op }", "module M interface I { op( }",
    "module M interface I { op) }", "module M interface I { op()) }", "module M interface I { a: bool }", "module M interface I { struct S {} }", "module M interface I { tag(1) op() }",
    "module M interface I : J {}", "module M interface I : J, K {}", "module M interface I : J, K, {}", "module M interface I : J,, K {}", "module M interface I : , J {}",
    "module M interface I : {}", "module M interface I : J K {}", "module M interface I : J? {}", "module M interface I : [a] J {}", "module M interface I : bool {}",
    "module M interface I : Sequence<bool>, ::X::Y {}", "module M interface I : J, { op() }", "module M interface I J {}", "module M interface I : J : K {}",
    "module M interface J {} interface I : J { op() }", "module M interface I { op() } interface J : I, { op2() -> (a: bool, b: string) }",
    -- CustomType
    "module M custom C", "module M custom C {}", "module M custom", "module M [a] /// d\n custom C", "module M custom \\custom", "module M custom custom", "module M compact custom C",
    -- Attribute / arguments
    "[[a]] module M", "[[a::b]] module M", "[[a::b::c(x)]] module M", "[[a()]] module M", "[[a(x)]] module M", "[[a(x,)]] module M", "[[a(x,y)]] module M", "[[a(x, y,)]] module M",
    "[[a(,)]] module M", "[[a(,x)]] module M", "[[a(x,,y)]] module M", "[[a(x y)]] module M", "[[a(\"s\")]] module M", "[[a(\"s\", t, \"u v\")]] module M", "[[a(\"a\\\"b\\\\c\")]] module M",
    "[[a(1)]] module M", "[[a(x::y)]] module M", "[[a(::x)]] module M", "[[a(x(y))]] module M", "[[a(struct, tag, module)]] module M", "[[struct::tag(bool)]] module M",
    "[[::a]] module M", "[[a::]] module M", "[[a:: b]] module M", "[[a ::b]] module M", "[[a(x)(y)]] module M", "[[a(]] module M", "[[a)]] module M", "[[]] module M", "[[a b]] module M",
    "[[a, b]] module M", "[[\"a\"]] module M", "[[1]] module M", "[[a(x]] module M", "[[a(x)]", "[[a(x)] ] module M", "[[a(x) ]] module M", "[[/// d\n a]] module M",
    "module M [a] struct S {}", "module M [a(x, \"y\")] [b::c] struct S {}", "module M [a,b] struct S {}", "module M [a] [b] /// d\n [c] struct S {}", "module M [] struct S {}",
    "module M [a]] struct S {}", "module M [[a] struct S {}", "module M [a struct S {}", "module M a] struct S {}", "module M [a] compact [b] struct S {}", "module M compact [a] struct S {}",
    "module M struct [a] S {}", "module M struct S [a] {}", "module M struct S { [a] }", "module M struct S { a [x]: bool }", "module M struct S { a: [x] bool }", "module M struct S { a: bool? [x] }",
    "module M struct S { a: [x] [y(z)] Sequence<[w] bool> }", "module M enum E { [a] A [b] B }", "module M interface I { [a] op([b] x: [c] bool) -> [d] bool }",
    "module M interface I { op() -> ([a] x: bool, [b] y: bool) }", "module M [deprecated(\"x\")] struct S { [deprecated] a: bool }",
    "module M [cs::identifier(\"T\")] struct S {}", "module M [oneway] interface I { [oneway] op() }", "module M [compress(Args, Return)] interface I { [compress(Args)] op(a: bool) -> bool }",
    -- doc comments where no Prelude is
    "module M struct /// d\n S {}", "module M struct S /// d\n {}", "module M struct S { a /// d\n : bool }", "module M struct S { a: /// d\n bool }", "module M struct S {} /// d\n",
    "module M /// d\n /// e\n struct S {} /// f\n custom C", "/// d\n [[a]] module M", "[[a]] /// d\n [[b]] module M", "module M typealias /// d\n T = bool",
    "module M interface I { idempotent /// d\n op() }", "module M interface I { op /// d\n () }", "module M interface I { op(a: bool) /// d\n -> bool }", "module M enum E : /// d\n uint8 { A }",
    "module /// d\n M", "module M enum E { A = /// d\n 1 }", "module M struct S { tag(/// d\n 1) a: bool? }",
    -- a bigger one
    "[[allow(All)]]\n[cs::namespace(\"X\")]\nmodule A::B\n/// s\n[a] compact struct S { tag(1) x: int32?, y: Sequence<[a] Dictionary<string, ::A::B::E>>, }\nunchecked enum E : uint8 { A = 1, B C = 0x10, }\nenum F { P(a: bool, b: S) Q, R(tag(2) c: string?) = 7 }\ninterface J {}\ninterface I : J, { /// hi\n idempotent op(a: int32 tag(2) b: string?) -> (x: int32, y: S) op2(s: stream uint8) -> tag(1) string? op3() }\ncustom C typealias T = Result<bool, S>?" ]

end Slicec.Drv.C02P

namespace Slicec.Drv

open Slicec Slicec.SLex Slicec.SPar Slicec.Drv.C02P

def genC02parse (tier : Tier) (seed : Nat) (o : Out) : IO Unit := do
  let thorough := tier == .thorough
  -- catalogue
  for s in catalogue do o.line (parseCase "catalogue" s)
  -- bounded-exhaustive soups inside valid contexts, smallest first
  for n in [0:3] do
    for s in soups alphabet n do
      for (pre, suf) in contexts do o.line (parseCase "soup" (pre ++ s ++ suf))
  for s in soups (if thorough then coreAlphabet else tinyAlphabet) 3 do
    for (pre, suf) in contexts do o.line (parseCase "soup" (pre ++ s ++ suf))
  if thorough then
    for s in soups tinyAlphabet 4 do
      for (pre, suf) in contexts.take 12 do o.line (parseCase "soup" (pre ++ s ++ suf))
  -- generated single-file programs, rendered; parse ∘ print must be the identity on them (this is `parse_print`)
  let nProg := if thorough then 4000 else 400
  let layouts := if thorough then 6 else 3
  let mut r := Rng.mk' (seed + 2021)
  for i in [0:nProg] do
    let cfg : GenCfg := { maxFiles := 1, maxDefs := 1 + i % 5, typeDepth := i % 4 }
    let (p, r') := genProgram cfg r
    r := r'
    for f in p do
      let items := fileItems f
      let canon := printFile f
      let expected := "syn=0 " ++ astDump [f]
      -- the hypotheses of `parse_print` / `parse_print_full` must hold on what the generator produces
      if !(fileOk f && fileRT f) then
        o.line (tab ["K", "C02parse", "side-conditions", hexOfString canon, "a generated file does not satisfy the side conditions fileOk / fileRT of parse_print"])
      for style in [0:layouts] do
        let text := (render style (seed * 1000 + i * 10 + style) items).1
        let obs := observe text
        o.line (tab ["parse", if style == 0 then "rendered-canonical" else "rendered-layout", hexOfString text, obs])
        if obs != expected then
          o.line (tab ["K", "C02parse", "parse-print", hexOfString text, "the model's parser does not give back the generated file (astDump differs)"])
      match lexSlice canon.toList with
      | .ok ts =>
        match parseFile ts with
        | some g =>
          if printFile g != canon then
            o.line (tab ["K", "C02parse", "parse-print-text", hexOfString canon, "printing the parsed file does not give back the canonical text"])
        | none => o.line (tab ["K", "C02parse", "parse-print-none", hexOfString canon, "the model's parser rejects a generated file"])
        -- single-token mutations of the canonical token sequence
        let n := ts.length
        let nMut := if thorough then 16 else 8
        for _ in [0:nMut] do
          let (kind, r1) := r.below 4
          let (pos, r2) := r1.below (n + 1)
          let (piece, r3) := r2.pick alphabet
          r := r3
          let spelled := ts.map spellTok
          let mutated :=
            if kind == 0 then spelled.take pos ++ spelled.drop (pos + 1)                       -- deletion
            else if kind == 1 then spelled.take pos ++ [piece] ++ spelled.drop pos             -- insertion
            else if kind == 2 then spelled.take pos ++ [piece] ++ spelled.drop (pos + 1)       -- replacement
            else spelled.take pos ++ ((spelled.drop pos).take 2).reverse ++ spelled.drop (pos + 2)  -- swap
          o.line (parseCase "mutation" (" ".intercalate mutated))
      | .error _ => o.line (tab ["K", "C02parse", "lex", hexOfString canon, "the canonical text of a generated file does not lex"])

end Slicec.Drv
