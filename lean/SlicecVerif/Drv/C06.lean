/- Case generation for C06: files for the preprocessor, expected observation computed by `Model/Preproc.lean`. -/
import SlicecVerif.Model.Preproc
import SlicecVerif.Model.PreprocErrors
import SlicecVerif.Drv.Common

namespace Slicec.Drv.P06

open Slicec Slicec.Pp Slicec.Drv

instance : Inhabited Rng := ⟨⟨1⟩⟩
instance : Inhabited PTerm := ⟨.sym ""⟩
instance : Inhabited PExpr := ⟨.term default⟩

/-! ## observation format -/

def insertSorted (s : String) : List String → List String
  | [] => [s]
  | x :: xs => if s < x then s :: x :: xs else if s == x then x :: xs else x :: insertSorted s xs

/-- sorted, duplicate-free (the hook sorts the `HashSet`) -/
def sortSyms (D : Syms) : List String := D.foldl (fun acc s => insertSorted s acc) []

def showSyms (D : Syms) : String :=
  match sortSyms D with
  | [] => "-"
  | l => ",".intercalate l

def showBlock (b : Block) : String :=
  toString b.start.row ++ ":" ++ toString b.start.col ++ ":" ++ hexOfString (String.ofList b.content)

def showBlocks (bs : List Block) : String :=
  if bs.isEmpty then "-" else ";".intercalate (bs.map showBlock)

def showLoc (l : Loc) : String := toString l.row ++ ":" ++ toString l.col

/-- `<row>:<col>[-<row>:<col>]`: start and end of a diagnostic (the end is omitted when it is the start) -/
def showSpan (sp : Loc × Loc) : String :=
  if sp.1 = sp.2 then showLoc sp.1 else showLoc sp.1 ++ "-" ++ showLoc sp.2

/-- `reject <span>;…`: every diagnostic in report order -/
def showReject (f : List Char) : String := "reject " ++ ";".intercalate ((reportedErrors f).map showSpan)

def showResult (f : List Char) : Except Rejected (List Block × Syms) → String
  | .error _ => showReject f
  | .ok (bs, D) => "ok " ++ showBlocks bs ++ " " ++ showSyms D

/-- model vs SPEC on one file: `some reason` when the stack machine over the raw lines disagrees with the model -/
def specDisagrees (f : List Char) (D : Syms) : Option String :=
  match preprocess f D, cspecFile f D with
  | .error _, none => none
  | .error _, some _ => some "model rejects, the line-by-line stack machine accepts"
  | .ok _, none => some "model accepts, the line-by-line stack machine rejects"
  | .ok (bs, D1), some (cs, D2) =>
    if bs.flatMap locatedBlock != cs then some "located characters of the emitted blocks differ from those of the selected lines"
    else if sortSyms D1 != sortSyms D2 then some "final symbols differ from the stack machine's"
    else none

def showRows (r : ErrRows) : String :=
  toString r.rows ++ (match r.stop with | some n => " stop " ++ toString n ++ (if r.lexical then " (lexical)" else " (end of input)") | none => "")

/-- the recovery mirror vs the model's verdict and vs the error-collecting SPEC machine over the raw lines.
    The one licensed difference (see Model/PreprocErrors.lean): when the run ends with a LEXICAL error, the mirror may
    have lost the error of the directive line directly in front of it (its diagnostic is pushed only after the next
    token has been fetched). -/
def errorsDisagree (f : List Char) (D : Syms) : Option String :=
  let rejected := match preprocess f D with | .error _ => true | .ok _ => false
  let errs := reportedErrors f
  if rejected != !errs.isEmpty then some "the model rejects iff-not the recovery mirror reports an error"
  else if !mirrorChecksFile f then some "an error token of the mirror is not a token of its directive line, or not on the row where that line starts"
  else
    let sp := cerrFile f
    let mi := mirrorRows f
    if sp == mi then none
    else if sp.lexical && mi.lexical && sp.stop == mi.stop && sp.rows.dropLast == mi.rows then none
    else some ("rows of the reported errors: line-by-line machine " ++ showRows sp ++ ", recovery mirror " ++ showRows mi)

def ppCase (o : Out) (fam : String) (text : String) (D : Syms) : IO Unit := do
  let f := text.toList
  let symField := if D.isEmpty then "-" else ",".intercalate D
  match specDisagrees f D with
  | some why => o.line (tab ["K", fam, hexOfString text, symField, why])
  | none => pure ()
  match errorsDisagree f D with
  | some why => o.line (tab ["K", fam, hexOfString text, symField, why])
  | none => pure ()
  o.line (tab ["pp", fam, hexOfString text, symField, showResult f (preprocess f D)])

def subsets3 : List Syms :=
  [[], ["A"], ["B"], ["C"], ["A", "B"], ["A", "C"], ["B", "C"], ["A", "B", "C"]]

/-! ## family 1: all sequences of line forms -/

/-- the line forms; a source line carries its position so that every surviving line is identifiable -/
def lineForm (k j : Nat) : String :=
  match k with
  | 0 => "s" ++ toString j
  | 1 => "#if A"
  | 2 => "#if !A"
  | 3 => "#if A && B"
  | 4 => "#if A || B"
  | 5 => "#elif B"
  | 6 => "#else"
  | 7 => "#endif"
  | 8 => "#define A"
  | 9 => "#undef A"
  | 10 => "#define C"
  | 11 => "  #if A"
  | 12 => "#if"
  | 13 => "#foo"
  | _ => "#if A B"

def nLineForms : Nat := 15

/-- all sequences of exactly `n` form indices -/
def formSeqs (forms : List Nat) : Nat → List (List Nat)
  | 0 => [[]]
  | n + 1 => forms.flatMap fun k => (formSeqs forms n).map (k :: ·)

def renderSeq (ks : List Nat) (finalNewline : Bool) : String :=
  let rec go : List Nat → Nat → List String
    | [], _ => []
    | k :: r, j => lineForm k j :: go r (j + 1)
  let ls := go ks 1
  "\n".intercalate ls ++ (if finalNewline && !ls.isEmpty then "\n" else "")

/-! ## family 2: expressions -/

def pSyms : List String := ["A", "B", "C"]

def termsOver (es : List PExpr) : List PTerm := pSyms.map PTerm.sym ++ es.map PTerm.paren

/-- `E(d)`: expressions whose terms are symbols or parenthesised `E(d-1)`; the left operand of `&&`/`||` is in `E(d-1)`;
    `rt` bounds the right-hand terms of the binary operators -/
def exprsOver (prev : List PExpr) (rt : List PTerm) : List PExpr :=
  let ts := termsOver prev
  ts.map PExpr.term ++ ts.map PExpr.not ++
  prev.flatMap (fun e => rt.flatMap fun t => [PExpr.and e t, PExpr.or e t])

def exprs0 : List PExpr := exprsOver [] []
def exprs1 : List PExpr := exprsOver exprs0 (termsOver exprs0)
def exprs2 (full : Bool) : List PExpr := exprsOver exprs1 (if full then termsOver exprs1 else termsOver exprs0)

def tokText : PTok → String
  | .ident s => s
  | .not => "!"
  | .and => "&&"
  | .or => "||"
  | .lpar => "("
  | .rpar => ")"
  | .kw .define => "#define"
  | .kw .undef => "#undef"
  | .kw .if_ => "#if"
  | .kw .elif => "#elif"
  | .kw .else_ => "#else"
  | .kw .endif => "#endif"
  | .dend => ""
  | .block _ => ""

def exprText (e : PExpr) : String := " ".intercalate (e.toks.map tokText)

/-! ## family 3: directive lines over the token alphabet -/

def dirAlphabet : List PTok :=
  [.kw .if_, .kw .elif, .kw .else_, .kw .endif, .kw .define, .kw .undef, .ident "A", .ident "B", .lpar, .rpar, .not, .and, .or]

def tokSeqs : Nat → List (List PTok)
  | 0 => [[]]
  | n + 1 => dirAlphabet.flatMap fun t => (tokSeqs n).map (t :: ·)

/-- the file around a directive line that makes it legal if the line itself is -/
def wrapDirective (first : PKw) (line : String) : String :=
  match first with
  | .if_ => line ++ "\nT\n#endif\n"
  | .elif => "#if Z\nZ\n" ++ line ++ "\nT\n#endif\n"
  | .else_ => "#if Z\nZ\n" ++ line ++ "\nT\n#endif\n"
  | .endif => "#if A\nT\n" ++ line ++ "\n"
  | .define => line ++ "\n#if A\nT\n#endif\n"
  | .undef => line ++ "\n#if A\nT\n#else\nF\n#endif\n"

/-! ## family 4: hand-written spellings -/

def manualFiles : List String :=
  ["", "\n", " ", "x", "x\n", "  x\n y\n", "\n\n  x", "#", "# ", "#\n", "#\nif A", "# if A\nx\n# endif", "#\tif A\nx\n#\tendif",
   "#if(A)\nx\n#endif", "#if!A\nx\n#endif", "#if A&&B\nx\n#endif", "#if A||B\nx\n#endif", "#if A&B\nx\n#endif", "#if A|B\nx\n#endif",
   "#if A & & B\nx\n#endif", "#if A/B\nx\n#endif", "#if A //c\nx\n#endif //d", "#if A /c\nx\n#endif", "#if A // c\nx\n#endif // #else",
   "#if A//\nx\n#endif//", "#if //A\nx\n#endif", "#if _A\nx\n#endif", "#if A_1\nx\n#endif", "#if 1A\nx\n#endif", "#if A1\nx\n#endif",
   "#if A$\nx\n#endif", "#ifdef A\nx\n#endif", "#IF A\nx\n#endif", "#if_ A\nx\n#endif", "#ifA\nx\n#endif", "#define", "#define A B", "#define 1",
   "#define A1_b\n#if A1_b\nx\n#endif", "#define define\n#if define\nx\n#endif", "#define if\n#if if && !else\nx\n#endif", "#undef", "#undef A B",
   "#if é\nx\n#endif", "#if A\u00A0&& B\nx\n#endif", "#\u3000if A\nx\n#endif", "\u3000#if A\nx\n\u2003#endif", "\u00A0x\n", "\u2028x\n\u2029y",
   "#if A\r\nx\r\n#endif\r\n", "#if A\rx\n#endif", "x\r#if A\n", "#if A\n#endif\r", "#else", "#endif", "#elif A", "#if A", "#if A\n#else\n#else\n#endif",
   "#if A\n#else\n#elif B\n#endif", "#if A\n#endif\n#endif", "#if A #endif", "#if A\nx\n#endif #if B", "#if (A\nx\n#endif", "#if A)\nx\n#endif",
   "#if ()\nx\n#endif", "#if (A)(B)\nx\n#endif", "#if !!A\nx\n#endif", "#if !(!A)\nx\n#endif", "#if A && !B\nx\n#endif", "#if (A) && (!B)\nx\n#endif",
   "#if A || B && C\nT\n#else\nF\n#endif", "#if A && B || C\nT\n#else\nF\n#endif", "#if A || (B && C)\nT\n#else\nF\n#endif",
   "#if !A || B\nT\n#else\nF\n#endif", "#if !(A || B)\nT\n#else\nF\n#endif", "/*\n#if A\n*/\nx\n#endif", "\"\n#if A\n\"\nx\n#endif",
   "/* #if A */\nx", "x #if A\ny", "x // #if A\n#if A\ny\n#endif", "  x\n  #if A\n    y\n  #endif\n  z", "x\n\n\n#if A\n\n\ny\n\n#endif\n\n", "x\n   \n#define A\n   \ny",
   "#define A\n#if A\nx\n#undef A\ny\n#if A\nz\n#endif\n#endif\n#if A\nw\n#endif", "#if A\n#define B\n#endif\n#if B\nx\n#endif",
   "#if A\n#elif B\n#define C\n#else\n#define A\n#endif\n#if C\nc\n#endif\n#if A\na\n#endif", "#if A\n#define B\nx\n#elif B\ny\n#endif",
   "#if A\n#if B\n#if C\nabc\n#else\nab\n#endif\n#elif C\nac\n#else\na\n#endif\n#elif B\nb\n#else\nnone\n#endif",
   "#if A\n#foo\n#endif", "#if A\n#if\n#endif\n#endif", "#if A\nx\n#else y\nz\n#endif", "#endif A", "#if A\n#endif A", "#define A // c\n#if A // d\nx\n#endif",
   "#define A /\n", "#define A\n#define A\n#undef A\n#if A\nx\n#endif", "#undef Q\nx", "x#\ny", "x\n#", "x\n# ", "x\n  #\n", "#if A\nx",
   "#if Bar\n#elif (Foo   // déjà vu: see the « naïve » façade\nmodule M\n#endif\n", "#define Foo Bar\nmodule M\n#if Baz\nstruct A {}\n#endif\n#endif\nstruct B {}\n",
   "#if A\nmodule é", "#if\n#foo", "#if\nx\n#foo", "#if A B $\n", "#if A\n\n\n", "#if A\n#else\n#else\n#endif", "#if A\nx\n#elif\ny\n#else\n#endif"]

/-! ## family 5: random files -/

def indents : List String := ["", "", "", " ", "  ", "\t", "    ", "\u00A0", "\u3000 ", " \u2003", "\u000B", "\u000C "]
def randSymNames : List String := ["A", "B", "C", "A", "B", "Dd_1", "if", "define", "x9"]

/-- a random expression tree of nesting depth ≤ `d` -/
partial def genExpr (d : Nat) (r : Rng) : PExpr × Rng :=
  let genTerm (d : Nat) (r : Rng) : PTerm × Rng :=
    let (c, r) := r.below 4
    if c == 0 && d > 0 then
      let (e, r) := genExpr (d - 1) r
      (.paren e, r)
    else
      let (s, r) := r.pick randSymNames
      (.sym s, r)
  let (t, r) := genTerm d r
  let (neg, r) := r.below 3
  let head : PExpr := if neg == 0 then .not t else .term t
  let (n, r) := r.below 3
  let rec loop : Nat → PExpr → Rng → PExpr × Rng
    | 0, acc, r => (acc, r)
    | k + 1, acc, r =>
      let (t, r) := genTerm d r
      let (op, r) := r.below 2
      loop k (if op == 0 then .and acc t else .or acc t) r
  loop (if d == 0 then n % 2 else n) head r

/-- spell a token list with random (legal) spacing: two adjacent identifier-like tokens need a separator -/
def spellToks (ts : List PTok) (r : Rng) : String × Rng :=
  let rec go : List PTok → Bool → String → Rng → String × Rng
    | [], _, acc, r => (acc, r)
    | t :: rest, prevWord, acc, r =>
      let txt := tokText t
      let isWord := match t with | .ident _ => true | .kw _ => true | _ => false
      let (sp, r) := r.pick ["", " ", " ", "  ", "\t", "\u00A0"]
      let sep := if prevWord && isWord && sp == "" then " " else sp
      go rest isWord (acc ++ sep ++ txt) r
  go ts false "" r

def srcTexts : List String :=
  ["struct S {}", "x", "module M", "// c", "/* c */", "/*", "*/", "\"", "}", "field: string,", "x # y", "é\u3000ü", "a\tb", "[cs::attr] #", "// #if A"]

def trailers : List String := ["", "", "", " ", " // c", "// #else", "\t//", " // é", "  ", " // «naïve» façade", "\u3000"]

structure GenCfg where
  crlf : Nat  -- 0 = LF, 1 = CRLF, 2 = mixed

def kwSpell (k : String) (r : Rng) : String × Rng :=
  let (sp, r) := r.pick ["", "", "", " ", "\t", "  "]
  ("#" ++ sp ++ k, r)

def genDirective (k : String) (arg : Option String) (r : Rng) : String × Rng :=
  let (ind, r) := r.pick indents
  let (kw, r) := kwSpell k r
  let (tr, r) := r.pick trailers
  match arg with
  | none => (ind ++ kw ++ tr, r)
  | some a => (ind ++ kw ++ a ++ tr, r)

def genCondLine (k : String) (d : Nat) (r : Rng) : String × Rng :=
  let (e, r) := genExpr d r
  let (txt, r) := spellToks e.toks r
  -- `#if` directly followed by an identifier needs a separator
  let needSp := match e.toks with | .ident _ :: _ => true | _ => false
  let txt := if needSp && !(txt.startsWith " " || txt.startsWith "\t" || txt.startsWith "\u00A0") then " " ++ txt else txt
  genDirective k (some txt) r

def malformedLines : List String :=
  ["#if", "#foo", "#if A B", "#if A &", "#", "#else X", "#endif X", "#define", "#if A || ", "#if (A", "#elif", "#if A && !B", "# 1", "#if A | B", "#undef 1"]

/-- random well-nested lines (depth ≤ `d`) -/
partial def genLines (d : Nat) (n : Nat) (r : Rng) : List String × Rng :=
  match n with
  | 0 => ([], r)
  | n + 1 =>
    let (c, r) := r.below 20
    let (here, r) : List String × Rng :=
      if c < 8 then
        let (ind, r) := r.pick indents
        let (t, r) := r.pick srcTexts
        let (k, r) := r.below 100
        ([ind ++ t ++ (if t == "x" then toString k else "")], r)
      else if c < 10 then
        let (ws, r) := r.pick ["", "", " ", "\t ", "\u3000"]
        ([ws], r)
      else if c < 12 then
        let (s, r) := r.pick randSymNames
        let (sp, r) := r.pick [" ", " ", "\t", "  "]
        let (l, r) := genDirective "define" (some (sp ++ s)) r
        ([l], r)
      else if c < 13 then
        let (s, r) := r.pick randSymNames
        let (l, r) := genDirective "undef" (some (" " ++ s)) r
        ([l], r)
      else if d == 0 then
        (["y"], r)
      else
        let (ifl, r) := genCondLine "if" 2 r
        let (nb, r) := r.below 4
        let (body, r) := genLines (d - 1) nb r
        let (ne, r) := r.below 3
        let rec elifs : Nat → Rng → List String × Rng
          | 0, r => ([], r)
          | k + 1, r =>
            let (l, r) := genCondLine "elif" 1 r
            let (nb, r) := r.below 3
            let (b, r) := genLines (d - 1) nb r
            let (rest, r) := elifs k r
            (l :: b ++ rest, r)
        let (el, r) := elifs (if ne == 2 then 2 else if ne == 1 then 1 else 0) r
        let (hasElse, r) := r.below 2
        let (els, r) : List String × Rng :=
          if hasElse == 0 then ([], r)
          else
            let (l, r) := genDirective "else" none r
            let (nb, r) := r.below 3
            let (b, r) := genLines (d - 1) nb r
            (l :: b, r)
        let (endl, r) := genDirective "endif" none r
        (ifl :: body ++ el ++ els ++ [endl], r)
    let (rest, r) := genLines d n r
    (here ++ rest, r)

def joinLines (ls : List String) (crlf : Nat) (finalNl : Bool) (r : Rng) : String × Rng :=
  let rec go : List String → String → Rng → String × Rng
    | [], acc, r => (acc, r)
    | [l], acc, r =>
      if finalNl then
        let (m, r) := r.below 2
        (acc ++ l ++ (if crlf == 1 || (crlf == 2 && m == 0) then "\r\n" else "\n"), r)
      else (acc ++ l, r)
    | l :: rest, acc, r =>
      let (m, r) := r.below 2
      go rest (acc ++ l ++ (if crlf == 1 || (crlf == 2 && m == 0) then "\r\n" else "\n")) r
  go ls "" r

def removeNth {α} : List α → Nat → List α
  | [], _ => []
  | _ :: xs, 0 => xs
  | x :: xs, n + 1 => x :: removeNth xs n

def insertNth {α} (a : α) : List α → Nat → List α
  | xs, 0 => a :: xs
  | [], _ => [a]
  | x :: xs, n + 1 => x :: insertNth a xs n

def genRandomFile (r : Rng) : String × Syms × Rng :=
  let (n, r) := r.below 7
  let (ls, r) := genLines 5 (n + 1) r
  -- mutate some files: drop a line, insert a stray or malformed directive
  let (m, r) := r.below 12
  let (ls, r) : List String × Rng :=
    if m == 0 then
      let (i, r) := r.below ls.length
      (removeNth ls i, r)
    else if m == 1 then
      let (i, r) := r.below (ls.length + 1)
      let (l, r) := r.pick ["#endif", "#else", "#elif A", "#if B", "  #endif // x"]
      (insertNth l ls i, r)
    else if m == 2 then
      let (i, r) := r.below (ls.length + 1)
      let (l, r) := r.pick malformedLines
      (insertNth l ls i, r)
    else (ls, r)
  let (crlf, r) := r.pick [0, 0, 0, 1, 1, 2]
  let (fin, r) := r.below 3
  let (text, r) := joinLines ls crlf (fin != 0) r
  let (k, r) := r.below 5
  let rec pickSyms : Nat → Rng → Syms × Rng
    | 0, r => ([], r)
    | k + 1, r =>
      let (s, r) := r.pick randSymNames
      let (rest, r) := pickSyms k r
      ((if rest.contains s then rest else s :: rest), r)
  let (D, r) := pickSyms k r
  (text, D, r)

/-! ## family 6: several files, one symbol set -/

/-- a file of probe definitions: every source line is `struct <tag>L<k> {}` so that the survivors can be read off the AST -/
partial def genProbeLines (tag : String) (d : Nat) (n : Nat) (ctr : Nat) (r : Rng) : List String × Nat × Rng :=
  match n with
  | 0 => ([], ctr, r)
  | n + 1 =>
    let (c, r) := r.below 10
    let (here, ctr, r) : List String × Nat × Rng :=
      if c < 4 then
        let (ind, r) := r.pick ["", "", "  ", "\t", "    "]
        ([ind ++ "struct " ++ tag ++ "L" ++ toString ctr ++ " {}"], ctr + 1, r)
      else if c < 6 then
        let (s, r) := r.pick ["A", "B", "C"]
        let (u, r) := r.below 3
        ([(if u == 0 then "#undef " else "#define ") ++ s], ctr, r)
      else if d == 0 then ([], ctr, r)
      else
        let (e, r) := genExpr 1 r
        let e' := exprText e
        let (nb, r) := r.below 3
        let (body, ctr, r) := genProbeLines tag (d - 1) (nb + 1) ctr r
        let (hasElse, r) := r.below 2
        if hasElse == 0 then (("#if " ++ e') :: body ++ ["#endif"], ctr, r)
        else
          let (b2, ctr, r) := genProbeLines tag (d - 1) 1 ctr r
          (("#if " ++ e') :: body ++ ["#else"] ++ b2 ++ ["#endif"], ctr, r)
    let (rest, ctr, r) := genProbeLines tag d n ctr r
    (here ++ rest, ctr, r)

/-- the probe definitions visible in the emitted blocks: location of the `s` of `struct` and the name -/
def probesOfBlock (b : Block) : List (Loc × String) :=
  let rec go : List Char → Loc → Nat → List (Loc × String)
    | [], _, _ => []
    | c :: cs, l, fuel =>
      match fuel with
      | 0 => []
      | fuel + 1 =>
        let pre := "struct ".toList
        if (c :: cs).take pre.length == pre then
          let name := ((c :: cs).drop pre.length).takeWhile isIdentChar
          (l, String.ofList name) :: go cs (advance l c) fuel
        else go cs (advance l c) fuel
  go b.content b.start (b.content.length + 1)

def showProbes : Except Rejected (List Block × Syms) → String
  | .error _ => "reject"
  | .ok (bs, _) =>
    let ps := bs.flatMap probesOfBlock
    if ps.isEmpty then "ok -" else "ok " ++ ";".intercalate (ps.map fun (l, n) => toString l.row ++ ":" ++ toString l.col ++ ":" ++ n)

def multiCase (o : Out) (fam : String) (files : List String) (D : Syms) (probe : Bool) : IO Unit := do
  let res := preprocessFiles D (files.map String.toList)
  let symField := if D.isEmpty then "-" else ",".intercalate D
  o.line (tab ["multi", fam, "|".intercalate (files.map hexOfString), symField,
               "|".intercalate ((files.zip res).map fun (t, r) => if probe then showProbes r else showResult t.toList r)])

def genProbeFile (tag : String) (r : Rng) : String × Rng :=
  let (n, r) := r.below 5
  let (ls, _, r) := genProbeLines tag 3 (n + 2) 0 r
  let (m, r) := r.below 15
  let ls := if m == 0 then ls ++ ["#endif"] else if m == 1 then "#if A" :: ls else ls
  ("\n".intercalate ("module M" :: ls) ++ "\n", r)

/-! ## family 7: which directives are reported, and where -/

/-- malformed directive lines the parser recovers from (one error at the first unacceptable token) and closers that are
    only wrong where they stand -/
def badLines : List String :=
  ["#if", "#if A B", "#if (A", "#if A)", "#if ()", "#if !!A", "#if A && !B", "#if A ||", "#if && A", "#if (A) (B)", "#if A #endif",
   "#if ((A)", "#if (A && (B || C)", "#if !(A", "#if A && (", "#if A && B C", "#if !", "#if #if A",
   "#elif", "#elif A B", "#elif (A", "#elif !", "#elif A)", "#else X", "#else (", "#else #endif", "#endif X", "#endif !", "#endif #endif",
   "#define", "#define A B", "#define (", "#define A #define B", "#undef", "#undef A B", "#undef !A",
   "#endif", "#else", "#elif A", "#elif (A || B) && C"]

/-- directive lines with a LEXICAL error (the parse stops there) -/
def lexBadLines : List String :=
  ["#foo", "#", "#if A & B", "#if A | B", "#if A / B", "#if $", "#if A $", "#if é", "#define 1", "#if A B $", "# 1", "#elif A &",
   "#endif $", "#else /", "#if (A $", "#define A B $", "#IF A"]

/-- what may follow a directive on its line -/
def errTrailers : List String :=
  ["", " // é", " // déjà vu: see the « naïve » façade", "\u3000", "\t", " \t// x", "\r", "//«»", " // 😀 x"]

def errIndents : List String := ["", "  ", "\t", "\u3000", "\u00A0 "]

/-- contexts: the lines in front of and behind the line under test -/
def errContexts : List (List String × List String) :=
  [([], []), (["x"], ["y"]), (["#if A", "x"], ["y", "#endif"]), (["#if A", "#elif B", "x"], ["#endif"]),
   (["#if A", "#else", "x"], ["y", "#endif"]), (["#if A", "#if B"], ["#endif", "#else", "#endif"]), (["#if A"], ["#endif"]),
   (["#if A"], ["#else", "#endif"]), (["#if A", "#else"], ["#endif"]), (["#if A", "#elif B"], ["#else", "#endif"]),
   (["#define", "x"], ["y"]), (["#define"], []), ([], ["x", "#endif X"]), ([], ["#undef"]), (["#if A"], ["#endif", "#endif"]),
   (["#if A"], []), (["#if A", "#if B", "x"], ["y é"]), (["#if A", "#else"], ["#endif", "#else", "#elif B", "#endif"]),
   (["#if (", "x"], ["#elif B", "#else", "#endif"]), (["#if A", "#elif", "x"], ["#else", "y", "#else", "#endif"]),
   ([], ["#foo"]), ([], ["x", "#foo"]), (["#if A $"], []), ([], ["", "  ", "#if A &"]), (["#if A"], ["", "\u3000", ""]),
   (["#if A"], ["module é", "  "]), (["#if A", "#if B", "#if C"], []), (["#if A", "#if B", "#else", "#if C"], ["x"])]

def joinWith (ls : List String) (crlf : Bool) (finalNl : Bool) : String :=
  let nl := if crlf then "\r\n" else "\n"
  nl.intercalate ls ++ (if finalNl && !ls.isEmpty then nl else "")

/-- the smaller catalogue for the "several errors in one file, in every order" family -/
def multiBad : List String :=
  ["#if", "#if (A // é", "#elif A", "#else X", "#endif", "#define A B", "#undef", "#if A && !B // «naïve»", "#foo", "#if A $"]

def seqOver {α} (xs : List α) : Nat → List (List α)
  | 0 => [[]]
  | n + 1 => xs.flatMap fun x => (seqOver xs n).map (x :: ·)

end Slicec.Drv.P06

namespace Slicec.Drv
open Slicec Slicec.Pp Slicec.Drv.P06

/-! ## the stream -/

def genC06 (tier : Tier) (seed : Nat) (o : Out) : IO Unit := do
  let thorough := tier == .thorough
  -- 0. hand-written spellings × 3 symbol sets
  for t in manualFiles do
    for D in [[], ["A"], ["A", "B", "C"]] do
      ppCase o "manual" t D
  -- 1. all sequences of line forms × all subsets of {A,B,C}
  let forms := List.range nLineForms
  let maxLen := if thorough then 5 else 4
  for n in List.range (maxLen + 1) do
    for ks in formSeqs forms n do
      let t := renderSeq ks true
      for D in subsets3 do
        ppCase o ("seq" ++ toString n) t D
  -- the same without the final newline (end of input inside a directive / a block)
  for n in List.range (if thorough then 5 else 4) do
    for ks in formSeqs forms n do
      let t := renderSeq ks false
      for D in subsets3 do
        ppCase o ("seq-nonl" ++ toString n) t D
  -- 2. all expressions × all valuations
  for e in exprs1 ++ exprs2 thorough do
    let t := "#if " ++ exprText e ++ "\nT\n#else\nF\n#endif\n"
    for D in subsets3 do
      ppCase o "expr" t D
  -- 3. all directive lines of ≤ 4 (thorough 5) tokens
  let maxTok := if thorough then 4 else 3
  for n in List.range (maxTok + 1) do
    for ts in tokSeqs n do
      for k in [PKw.if_, .elif, .else_, .endif, .define, .undef] do
        let line := " ".intercalate ((PTok.kw k :: ts).map tokText)
        let t := wrapDirective k line
        ppCase o ("dir" ++ toString (n + 1)) t ["A"]
        if n ≤ 2 then ppCase o ("dir" ++ toString (n + 1)) t ["B", "Z"]
  -- 6. which directives are reported and where: every malformed line × context × trailer × indentation × line ends
  let mut k := 0
  for l in badLines ++ lexBadLines do
    for (pre, post) in errContexts do
      for tr in errTrailers do
        k := k + 1
        let ind := errIndents.getD (k % errIndents.length) ""
        -- a `//` trailer directly after a lexically bad line changes nothing; after `#if A /` it would make a comment: keep the blank
        let line := ind ++ l ++ tr
        let ls := pre ++ [line] ++ post
        ppCase o "err-ctx" (joinWith ls false true) []
        ppCase o "err-ctx" (joinWith ls false false) []
        if k % 2 == 0 || thorough then ppCase o "err-ctx-crlf" (joinWith ls true (k % 4 == 0)) []
        if thorough then
          -- the trailer on EVERY directive line of the context
          let ls2 := (pre.map fun x => if x.startsWith "#" then x ++ tr else x) ++ [line] ++ (post.map fun x => if x.startsWith "#" then ind ++ x ++ tr else x)
          ppCase o "err-ctx-all" (joinWith ls2 false (k % 2 == 0)) []
  -- two and three errors in one file in every order: adjacent, separated by a source line, inside / after an open conditional
  for n in [2, 3] do
    for ls in seqOver multiBad n do
      for v in List.range 5 do
        let body : List String :=
          match v with
          | 0 => ls
          | 1 => ls.flatMap fun l => [l, "s é"]
          | 2 => ["#if A"] ++ ls ++ ["#endif"]
          | 3 => ["#if A", "x"] ++ (ls.flatMap fun l => ["", l]) ++ ["  "]
          | _ => ["#if A", "#else"] ++ ls ++ ["y", "#endif", "#endif"]
        if n == 2 || v < 3 || thorough then
          ppCase o ("err-multi" ++ toString n) (joinWith body false (v % 2 == 0)) []
  -- unterminated conditionals (1-3 open) with and without earlier errors, every kind of last line
  for opens in [["#if A"], ["#if A", "#if B"], ["#if A", "#elif B", "#if C", "#else", "#if !A"], ["#if A", "x", "#else"]] do
    for early in [[], ["#define"], ["#if (", "x"], ["#endif X"], ["#else"]] do
      for mid in [[], ["x"], ["#define", "x"], ["#elif ("], ["#endif", "#if B"]] do
        for last in [[], [""], ["", "", ""], ["x"], ["module é"], ["  x é \u3000"], ["x", "", "\t"], ["#define Q // é"], ["#undef // «»"], ["#if B // é", "\u3000"],
                     ["#else X // é"], ["#foo"], ["#if $"]] do
          let ls := early ++ opens ++ mid ++ last
          ppCase o "err-eof" (joinWith ls false false) []
          ppCase o "err-eof" (joinWith ls false true) []
          if thorough then ppCase o "err-eof-crlf" (joinWith ls true true) []
  -- 4. random files
  let nRand := if thorough then 30000 else 3000
  let mut r := Rng.mk' (seed + 606)
  for _ in [0:nRand] do
    let (t, D, r') := genRandomFile r
    r := r'
    ppCase o "random" t D
  -- 5. several files with one symbol set: through the hook (one call per file) and through compile_from_strings
  let nMulti := if thorough then 3000 else 300
  for i in [0:nMulti] do
    let (nf, r1) := r.below 3
    let (D, r2) := r1.pick subsets3
    r := r2
    let mut files : List String := []
    for j in [0:nf + 2] do
      let (f, r') := genProbeFile ("F" ++ toString j) r
      r := r'
      files := files ++ [f]
    multiCase o "compile" files D true
    if i % 4 == 0 then multiCase o "hook" files D false
  -- definitions made in one file must not be visible in the next, in either order
  for D in subsets3 do
    multiCase o "compile" ["module M\n#define A\n#undef B\nstruct F0L0 {}\n", "module M\n#if A\nstruct F1L0 {}\n#endif\n#if B\nstruct F1L1 {}\n#endif\n#if !C\nstruct F1L2 {}\n#endif\n"] D true
    multiCase o "compile" ["module M\n#if A\nstruct F0L0 {}\n#endif\n#if B\nstruct F0L1 {}\n#endif\n", "module M\n#define A\n#undef B\nstruct F1L0 {}\n", "module M\n#if A\nstruct F2L0 {}\n#endif\n#if B\nstruct F2L1 {}\n#endif\n"] D true

end Slicec.Drv
