/-
  Case generation for C07 — code generation happens only after an error-free compilation.
  Line format: see `Drv/Driver.lean`. Programs are lists of per-file kinds (clean / a warning of some phase /
  one error of some phase); the model turns them into per-phase outcomes, `compilePhases` decides which
  phases speak, `mainFlow` decides whether the (logging) generators run, what is written and the exit status.
-/
import SlicecVerif.Drv.Driver

namespace Slicec.Drv.Proc

open Slicec Slicec.Drv Slicec.Driver

/-- the logging generators of C07: each replies with one file of its own; the third also sends an
    Error-level generator diagnostic (printed only, must not influence the exit status) -/
def c07Gen (i : Nat) : GenSpec :=
  let args : List (String × String) := match i with
    | 0 => []
    | 1 => [("k", "v")]
    | _ => [("a", "1"), ("flag", "")]
  let ds : List GDiag := if i == 2 then [⟨2, b "generator says error", some (b "f.slice")⟩] else []
  ⟨s!"g{i}", args, okBeh [gf s!"g{i}.txt" s!"G{i}\n"] ds⟩

def c07Gens (n : Nat) : List GenSpec := (List.range n).map c07Gen

def allowVariants : List (List String) :=
  [[], ["All"], ["Deprecated"], ["BrokenDocLink"], ["Deprecated", "BrokenDocLink"], ["MalformedDocComment", "DuplicateFile"]]

def outVariants : List OutSpec := [⟨"d", "out", []⟩, ⟨"a", "", []⟩]

def c07Scenario (fam : String) (p : Program) (nGens : Nat) (dry : Bool) (allow : List String) (out : OutSpec)
    (gens : Option (List GenSpec) := none) : Scenario :=
  let argv := (if dry then ["--dry-run"] else []) ++ allow.flatMap fun a => ["-A", a]
  { fam := fam, files := p.files, argv := argv, dryRun := dry, allowed := allow, outcomes := p.outcomes,
    gens := gens.getD (c07Gens nGens), out := out }

/-- `special` at position `j` of `n` files, the others `other` -/
def placed (special other : FileKind) (n j : Nat) : Program :=
  ⟨(List.range n).map fun i => if i == j then special else other, false⟩

def placements : List (Nat × Nat) := [(1, 0), (2, 0), (2, 1), (3, 0), (3, 1), (3, 2)]

def genC07 (tier : Tier) (seed : Nat) (o : Out) : IO Unit := do
  let specials : List FileKind := [kClean] ++ warnKinds ++ errKinds
  let emit (s : Scenario) : IO Unit := o.line s.line
  -- one file: every kind × 0..3 generators × --dry-run
  for k in specials do
    for n in [0, 1, 2, 3] do
      for dry in [false, true] do
        emit (c07Scenario "single" (placed k kClean 1 0) n dry [] outVariants.head!)
  -- a file named twice (DuplicateFile lint, resolve phase)
  for n in [0, 2] do
    for dry in [false, true] do
      emit (c07Scenario "dup" ⟨[kClean], true⟩ n dry [] outVariants.head!)
      emit (c07Scenario "dup" ⟨[kClean, kESyntax], true⟩ n dry [] outVariants.head!)
  -- the special file in any one of 2..3 files
  for k in specials do
    for (n, j) in placements.drop 1 do
      emit (c07Scenario "place" (placed k kClean n j) 2 false [] outVariants.head!)
  -- an error next to warnings of other phases: which warnings are still printed is decided by the gating
  for e in errKinds do
    for w in [kWDep, kWLink, kWDoc] do
      emit (c07Scenario "warn+err" ⟨[w, e], false⟩ 1 false [] outVariants.head!)
      emit (c07Scenario "warn+err" ⟨[e, kClean, w], false⟩ 1 false [] outVariants.head!)
  -- more than a hundred warnings recorded before the phase that finds the error (or before a generator fails): no
  -- diagnostic may be dropped, the error still blocks the generators and decides the exit status
  for many in [kWDepMany, kWDocMany] do
    for e in errKinds do
      emit (c07Scenario "volume+err" ⟨[many, e], false⟩ 1 false [] outVariants.head!)
      emit (c07Scenario "volume+err" ⟨[e, many], false⟩ 2 false ["All"] outVariants.head!)
    for allow in [[], ["All"], ["Deprecated"]] do
      emit (c07Scenario "volume" ⟨[many, kClean], false⟩ 2 false allow outVariants.head!)
      for bad in ([.x 1 [] [], .missing] : List BehSpec) do
        emit (c07Scenario "volume+genfail" ⟨[many], false⟩ 0 false allow outVariants.head! (some [c07Gen 0, ⟨"bad", [], bad⟩]))
  -- warnings only × -A lists × output directory × --dry-run
  for w in [[kWDep], [kWLink], [kWDoc], [kWAllow], [kWDep, kWLink, kWDoc]] do
    for allow in allowVariants do
      for out in outVariants do
        for dry in [false, true] do
          emit (c07Scenario "allow" ⟨w, false⟩ 2 dry allow out)
  -- a failing generator after a clean / warnings-only compilation: the exit status comes from the generator
  for p in ([⟨[kClean], false⟩, ⟨[kWDep, kClean], false⟩] : List Program) do
    -- the last one writes to stderr and still answers with a well-formed reply and exit status 0: it failed all the same
    for bad in ([.x 1 [] [], .missing, .x 0 (b "boom\n") [], .x 0 (b "warning: something odd\n") (reply [gf "bad.txt" "B\n"] [])] : List BehSpec) do
      for allow in [[], ["All"]] do
        emit (c07Scenario "genfail" p 0 false allow outVariants.head! (some [c07Gen 0, ⟨"bad", [], bad⟩, c07Gen 2]))
  -- two errors in different phases: only the earlier phase speaks
  for (e1, e2) in [(kESyntax, kECycle), (kEAttr, kEUnres), (kEUnres, kERule), (kECycle, kERedef), (kERedef, kERule),
                   (kEMissing, kESyntax), (kESyntax, kESyntax), (kERule, kERule)] do
    emit (c07Scenario "two-errors" ⟨[e1, e2], false⟩ 1 false [] outVariants.head!)
    emit (c07Scenario "two-errors" ⟨[e2, kWDep, e1], false⟩ 1 false [] outVariants.head!)
  -- the full product (thorough) or a pseudo-random sample of it (quick)
  if tier == .thorough then
    for k in specials do
      for (n, j) in placements do
        for other in [kClean, kWDep] do
          if n == 1 && other.tag != "clean" then continue
          for g in [0, 1, 2, 3] do
            for dry in [false, true] do
              for allow in [[], ["All"], ["Deprecated"]] do
                for out in outVariants do
                  emit (c07Scenario "product" (placed k other n j) g dry allow out)
  else
    let mut r := Rng.mk' (seed + 707)
    for _ in [0:260] do
      let (k, r1) := r.pick specials
      let (pl, r2) := r1.pick placements
      let (other, r3) := r2.pick [kClean, kClean, kWDep, kWLink]
      let (g, r4) := r3.below 4
      let (dry, r5) := r4.below 3
      let (allow, r6) := r5.pick allowVariants
      let (out, r7) := r6.pick outVariants
      r := r7
      emit (c07Scenario "sample" (placed k other pl.1 pl.2) g (dry == 0) allow out)

end Slicec.Drv.Proc

/-- entry point registered in `Main.lean` -/
def Slicec.Drv.genC07 (tier : Slicec.Drv.Tier) (seed : Nat) (o : Slicec.Drv.Out) : IO Unit :=
  Slicec.Drv.Proc.genC07 tier seed o
