/-
  Cases for C03 (type-reference resolution / scoping), projection `c03:bind`.

  family `scope`  : bounded-exhaustive arrangements of a same-named definition `X` (absent or one of five kinds)
                    at each of up to 3 nested module levels (each level in its own file) x every spelling of the
                    reference x every referencing position x four referencing modules x file orders
  family `chain`  : alias chains (length <= 3, thorough 4), every distribution of the links over two nested modules,
                    a foreign attribute on every link's type and on the use, decoys of the same name in the other
                    module, every kind of chain end (primitive, struct, enum, custom, interface, sequence, missing,
                    cycle, lasso) from every position
  family `kind`   : references that designate fields, enumerators, operations, parameters, modules, primitives
  family `bases`  : interfaces with 2-3 bases of which some do not resolve (left-to-right, all-or-nothing)
  family `random` : programs of the shared generator, two layouts each
-/
import SlicecVerif.Model.Bind
import SlicecVerif.Drv.Prog

namespace Slicec.Drv

open Slicec

namespace C03

def mkFile (modPath : String) (defs : List Def) : SFile := { fileAttrs := [], module := some ⟨[], modPath⟩, defs := defs }

def primRef (p : Prim) : TRef := .mk [] (.prim p) false
def named (id : String) : TRef := .mk [] (.named id) false
def namedA (a id : String) : TRef := .mk [⟨a, []⟩] (.named id) false

def fld (name : String) (ty : TRef) : Field := { doc := [], attrs := [], tag := none, name := name, ty := ty }
def prm (name : String) (ty : TRef) : Param := { attrs := [], tag := none, name := name, stream := false, ty := ty }
def enr (name : String) : Enumerator := { doc := [], attrs := [], name := name, fields := none, value := none }

def structDef (name : String) (fs : List Field) : Def := .struct [] [] false name fs
def ifaceDef (name : String) (bases : List TRef) (ops : List Op) : Def := .iface [] [] name bases ops
def enumDef (name : String) (u : Option TRef) (es : List Enumerator) : Def := .enum [] [] false false name u es
def opDef (name : String) (ps : List Param) (ret : Ret) : Op := { doc := [], attrs := [], idempotent := false, name := name, params := ps, ret := ret }

/-- kinds of the same-named definition: 0 = absent -/
def xDef (kind : Nat) (name : String) (level : Nat) : Option Def :=
  match kind with
  | 1 => some (structDef name [fld "v" (primRef .bool)])
  | 2 => some (enumDef name none [enr "a"])
  | 3 => some (.custom [] [] name)
  | 4 => some (.alias [] [] name (.mk [⟨"cs::l" ++ toString level, []⟩] (.prim .uint8) false))
  | 5 => some (ifaceDef name [] [])
  | _ => none

/-- the referencing definitions: every position that wants a type / the base position / the underlying position -/
def userDefs (group : Nat) (r : TRef) : List Def :=
  match group with
  | 0 => [structDef "R" [fld "f" r],
          ifaceDef "RI" [] [opDef "op" [prm "p" r] (.single none false r), opDef "op2" [] (.tuple [prm "r1" r, prm "r2" (primRef .bool)])],
          .alias [] [] "RA" r,
          structDef "R2" [fld "s" (.mk [] (.seq r) false), fld "d" (.mk [] (.dict (primRef .int32) r) false),
                          fld "r" (.mk [] (.result r r) false)],
          enumDef "RE" none [{ doc := [], attrs := [], name := "a", fields := some [fld "x" r], value := none }]]
  | 1 => [ifaceDef "RI" [r] []]
  | _ => [enumDef "RE" (some r) [enr "a"]]

def rotations {α} (l : List α) : List (List α) := (List.range l.length).map fun i => l.drop i ++ l.take i

def orders {α} (tier : Tier) (l : List α) : List (List α) :=
  if tier == .thorough then rotations l ++ [l.reverse] else [l, l.reverse]

def emit (o : Out) (fam : String) (p : Program) : IO Unit :=
  o.line (compileCase fam "c03:bind" "-" (p.map printFile) (bindDump p))

/-- all lists of length `n` over `0..k-1` -/
def tuples (k : Nat) : Nat → List (List Nat)
  | 0 => [[]]
  | n + 1 => (tuples k n).flatMap fun t => (List.range k).map fun i => i :: t

def genScopeWith (tier : Tier) (o : Out) (fam : String) (levels spellings refMods : List String) : IO Unit := do
  for arr in tuples 6 levels.length do
    let defFiles := (levels.zip arr).zipIdx.filterMap fun ((m, k), li) => (xDef k "X" li).map fun d => mkFile m [d]
    for sp in spellings do
      for group in [0, 1, 2] do
        for rm in refMods do
          let user := mkFile rm (userDefs group (named sp))
          for p in orders tier (defFiles ++ [user]) do
            emit o fam p

def genScope (tier : Tier) (o : Out) : IO Unit := do
  let levels := if tier == .thorough then ["A", "A::B", "A::B::C"] else ["A", "A::B"]
  let spellings :=
    ["X", "B::X", "A::B::X", "A::X", "::A::X", "::A::B::X", "::X", "::B::X", "C::X"] ++
    (if tier == .thorough then ["B::C::X", "A::B::C::X", "::A::B::C::X"] else [])
  genScopeWith tier o "scope" levels spellings ["A::B", "A::B::C", "A", "N"]
  -- nested modules that repeat the path of an enclosing module: a relative name that starts with the referencing module's own
  -- path is still searched innermost-first (`A::X` written in `A` is `A::A::X` when that exists)
  genScopeWith tier o "scope-repeat" (if tier == .thorough then ["A", "A::A", "A::A::A"] else ["A", "A::A"])
    (["X", "A::X", "A::A::X", "::A::X", "::A::A::X", "::X"] ++ (if tier == .thorough then ["A::A::A::X", "::A::A::A::X"] else []))
    ["A", "A::A", "N"]
  genScopeWith tier o "scope-repeat2" ["A::B", "A::B::A::B"]
    ["X", "A::B::X", "B::X", "A::B::A::B::X", "::A::B::X", "::A::B::A::B::X", "B::A::B::X"] ["A::B", "A::B::A::B", "A", "A::B::A"]

/-- how a definition `name` living in module `to` is spelled from module `frm` (modules are `A` or `A::B`) -/
def spellFrom (bare : Bool) (frm to name : String) : String :=
  if bare || frm == to then name
  else if to == "A::B" then "B::" ++ name
  else "A::" ++ name

def genChain (tier : Tier) (o : Out) : IO Unit := do
  let maxLen := if tier == .thorough then 4 else 3
  let mods := ["A", "A::B"]
  let userMods := if tier == .thorough then ["A::B", "A", "A::B::C"] else ["A::B", "A"]
  let mut idx := 0
  for n in [1:maxLen + 1] do
    for mv in tuples 2 n do
      let linkMods := mv.map fun i => mods.getD i "A"
      -- chain ends: 0 uint8, 1 struct S, 2 Sequence<bool>, 3 interface I, 4 enum E, 5 custom C0, 6 missing, 7 cycle to T1, 8 lasso to T2
      for fin in List.range 9 do
        if fin == 8 && n < 2 then continue
        for bare in [false, true] do
          for decoys in [false, true] do
            let links : List (String × Def) := (linkMods.zipIdx).map fun (m, i) =>
              -- on every other chain all links (and the use) carry the SAME directive with different arguments: all are carried along
              let sameDir := (fin + n) % 2 == 0
              let a := if sameDir then "cs::type" else "cs::a" ++ toString (i + 1)
              let namedA := fun (d id : String) => (TRef.mk [⟨d, [toString (i + 1)]⟩] (.named id) false)
              let ty : TRef :=
                if i + 1 < n then namedA a (spellFrom bare m (linkMods.getD (i + 1) "A") ("T" ++ toString (i + 2)))
                else match fin with
                  | 0 => .mk [⟨a, [toString (i + 1)]⟩] (.prim .uint8) false
                  | 1 => namedA a "S"
                  | 2 => .mk [⟨a, [toString (i + 1)]⟩] (.seq (primRef .bool)) false
                  | 3 => namedA a "I"
                  | 4 => namedA a "E"
                  | 5 => namedA a "C0"
                  | 6 => namedA a "Nope"
                  | 7 => namedA a (spellFrom bare m (linkMods.getD 0 "A") "T1")
                  | _ => namedA a (spellFrom bare m (linkMods.getD 1 "A") "T2")
              (m, Def.alias [] [] ("T" ++ toString (i + 1)) ty)
            let decoyDefs : List (String × Def) :=
              if decoys then (linkMods.zipIdx).map fun (m, i) => ((if m == "A" then "A::B" else "A"), Def.custom [] [] ("T" ++ toString (i + 1)))
              else []
            let base : List Def := [structDef "S" [fld "v" (primRef .bool)], ifaceDef "I" [] [], enumDef "E" none [enr "a"], .custom [] [] "C0"]
            let inMod (m : String) : List Def := ((links ++ decoyDefs).filter fun x => x.1 == m).map (·.2)
            let fileA := mkFile "A" (base ++ inMod "A")
            let fileB := mkFile "A::B" (inMod "A::B")
            for um in userMods do
              for group in [0, 1, 2] do
                let first := linkMods.getD 0 "A"
                let sp := if um == "A::B::C" then spellFrom bare "A::B" first "T1" else spellFrom bare um first "T1"
                let user := mkFile um (userDefs group (TRef.mk [⟨(if (fin + n) % 2 == 0 then "cs::type" else "cs::a0"), ["0"]⟩] (.named sp) false))
                let files := [fileA, fileB, user]
                idx := idx + 1
                if tier == .thorough then
                  for p in [files, files.reverse] do emit o "chain" p
                else emit o "chain" (if idx % 2 == 0 then files else files.reverse)

def genKind (o : Out) : IO Unit := do
  let base : List Def :=
    [structDef "S" [fld "f" (primRef .bool)], enumDef "E" none [enr "a"],
     ifaceDef "I" [] [opDef "op" [prm "p" (primRef .bool)] (.single none false (primRef .bool))], .custom [] [] "C0",
     .alias [] [] "TS" (named "S"), .alias [] [] "TP" (primRef .uint8),
     .alias [] [] "TQ" (.mk [] (.seq (primRef .bool)) false)]
  let refs := ["S::f", "E::a", "I::op", "I::op::p", "I::op::returnValue", "A", "B", "A::B", "::A", "S", "E", "I", "C0", "TI", "TS", "TP", "TQ",
               "bool", "::bool", "A::bool", "string", "uint8", "::A::S::f", "A::I", "Nope", "A::Nope", "::Nope", "S::Nope", "N"]
  for r in refs do
    for um in ["A", "A::B", "N"] do
      for group in [0, 1, 2] do
        -- a non-integral underlying type is a validation error (C04), not a resolution matter
        if group == 2 && (r == "bool" || r == "::bool" || r == "string") then continue
        let base := if r == "TI" then base ++ [.alias [] [] "TI" (named "I")] else base
        let files := [mkFile "A" base, mkFile um (userDefs group (named r))]
        emit o "kind" files
        emit o "kind" files.reverse

/-- elements NAMED like a primitive keyword (written with a backslash: `struct \\string`, `module A::\\uint8`): the keyword itself, also
    when it is reached through an alias of the primitive (`typealias Name = string`, `typealias Label = Name`), still means the
    primitive; only the escaped spelling `\\string` is looked up in the scopes -/
def genKeywordNames (o : Out) : IO Unit := do
  for (kw, p) in [("string", Prim.string), ("uint8", Prim.uint8), ("bool", Prim.bool), ("varint62", Prim.varint62)] do
    for kind in [0, 1, 2, 3, 4, 5] do
      for home in ["A", "A::B", "C"] do
        let shadow : List SFile :=
          match kind with
          | 0 => [mkFile home [structDef kw [fld "chars" (.mk [] (.seq (primRef .uint8)) false)]]]
          | 1 => [mkFile home [enumDef kw none [enr "a"]]]
          | 2 => [mkFile home [.custom [] [] kw]]
          | 3 => [mkFile home [ifaceDef kw [] []]]
          | 4 => [mkFile home [.alias [] [] kw (primRef .int32)]]
          | _ => [mkFile (home ++ "::" ++ kw) [structDef "Inner" []]]
        let integral := kw == "uint8" || kw == "varint62"
        let user := mkFile "A::B"
          ([.alias [] [] "Name" (primRef p), .alias [] [] "Label" (named "Name"),
            structDef "Person" [fld "direct" (primRef p), fld "first" (named "Name"), fld "label" (named "Label"),
                                fld "names" (.mk [] (.seq (named "Name")) false),
                                fld "byName" (.mk [] (.dict (primRef .int32) (named "Label")) false)],
            ifaceDef "Svc" [] [opDef "op" [prm "x" (named "Name")] (.single none false (named "Label"))]] ++
           (if integral then [enumDef "Color" (some (named "Name")) [enr "red"], enumDef "Shade" (some (named "Label")) [enr "dark"]] else []))
        -- a second user that writes the ESCAPED name: bound to whatever the scopes hold (or to the primitive when nothing shadows it)
        let escUser := mkFile "A::B" [structDef "Boxed" [fld "boxed" (named kw)], .alias [] [] "Esc" (named kw),
                                     structDef "Boxed2" [fld "viaAlias" (named "Esc")]]
        for files in [shadow ++ [user], user :: shadow, shadow ++ [escUser], escUser :: shadow, shadow ++ [user, escUser]] do
          emit o "keyword-names" files

/-- all lists of length `n` over `xs` without repetition -/
def injections {α} [BEq α] (xs : List α) : Nat → List (List α)
  | 0 => [[]]
  | n + 1 => (injections xs n).flatMap fun t => (xs.filter fun x => !t.contains x).map fun x => x :: t

def genBases (o : Out) : IO Unit := do
  let base : List Def := [ifaceDef "I" [] [], ifaceDef "I2" [] [], structDef "S" [fld "f" (primRef .bool)], .alias [] [] "TI" (named "I")]
  for n in [2, 3] do
    for bs in injections ["I", "I2", "S", "Nope", "B::J", "TI"] n do
      let files := [mkFile "A" base, mkFile "A::B" [ifaceDef "J" [] []],
                    mkFile "A" [ifaceDef "K" ((bs.zipIdx).map fun (b, i) => namedA ("cs::b" ++ toString i) b) []]]
      emit o "bases" files
      emit o "bases" files.reverse

/-- identifiers stored twice: the later entry takes the key (`HashMap::insert`), the earlier entity is no longer
    retrievable; a reference binds to the later one. Redefinitions are diagnosed by a later phase (C04), so this
    family observes bindings and retrieval only (projection `c03:find`). -/
def genDup (o : Out) : IO Unit := do
  let emitF (p : Program) : IO Unit := o.line (compileCase "dup" "c03:find" "-" (p.map printFile) (findDump p))
  for k1 in [1, 2, 3, 4, 5] do
    for k2 in [1, 2, 3, 4, 5] do
      for group in [0, 1, 2] do
        match xDef k1 "X" 0, xDef k2 "X" 1 with
        | some d1, some d2 =>
          let user := mkFile "A::B" (userDefs group (named "X"))
          emitF [mkFile "A" [d1], mkFile "A" [d2], user]
          emitF [user, mkFile "A" [d2], mkFile "A" [d1]]
          emitF [mkFile "A" [d1, d2], user]
        | _, _ => pure ()
  let members : List Def :=
    [structDef "S" [fld "a" (primRef .bool), fld "a" (primRef .int32), fld "b" (primRef .bool)],
     enumDef "E" none [enr "a", enr "b", enr "a"],
     ifaceDef "I" [] [opDef "op" [prm "p" (primRef .bool), prm "p" (primRef .bool)] .none, opDef "op" [] .none],
     enumDef "F" none [{ doc := [], attrs := [], name := "a", fields := some [fld "x" (primRef .bool), fld "x" (primRef .bool)], value := none }]]
  -- a definition whose fully scoped name is also the name of a (nested) module, in both file orders
  for P in [[mkFile "A" [structDef "B" [fld "x" (primRef .int32)]], mkFile "A::B" [structDef "Inner" []]],
            [mkFile "A::B" [structDef "Inner" []], mkFile "A" [structDef "B" [fld "x" (primRef .int32)]]],
            [mkFile "A" [structDef "B" []], mkFile "A::B" [structDef "Inner" []], mkFile "A::C" [structDef "User" [fld "b" (named "B")]]],
            [mkFile "A::B" [structDef "Inner" []], mkFile "A" [structDef "B" []], mkFile "A::C" [structDef "User" [fld "b" (named "B")]]]] do
    emitF P
  for d in members do
    emitF [mkFile "A" [d]]
  emitF [mkFile "A" members, mkFile "A" members]

end C03

def genC03 (tier : Tier) (seed : Nat) (o : Out) : IO Unit := do
  C03.genKind o
  C03.genKeywordNames o
  C03.genBases o
  C03.genDup o
  C03.genScope tier o
  C03.genChain tier o
  let nProg := if tier == .thorough then 10000 else 1000
  let mut r := Rng.mk' (seed + 3)
  for i in [0:nProg] do
    let cfg : GenCfg := { maxFiles := 1 + i % 3, maxDefs := 1 + i % 6, typeDepth := i % 4, docs := false }
    let (p, r') := genProgram cfg r
    r := r'
    let expected := bindDump p
    for style in [0, 1] do
      let texts := p.map fun f => (render style (seed * 1000 + i * 10 + style) (fileItems f)).1
      o.line (compileCase "random" "c03:bind" "-" texts expected)

end Slicec.Drv
