/- Cases for C09, streams `C09doc` (engine `comments`, op `docloc`) and `C09docp` (engine `compile`, projection
   `c09:docspans`): the SPANS of the parts of a doc comment (comment, overview, tags, tag identifiers, messages, links) and
   of the comment lints — model Model/CommentDocLoc.lean (`parseCommentLoc` on the located token stream of
   Model/CommentLoc.lean, `elemLintsLoc`) against the real comment parser (hook `verif_hooks::parse_doc_comment`) and
   against whole compilations.
   `docloc <fam> <located lines> <expected>`: lines with arbitrary spans (placements of Drv/C09clex.lean).
   On every comment the driver also checks that dropping the spans of the located parser's result gives the result of
   C16's comment-parser model (a `K` line otherwise). -/
import SlicecVerif.Drv.C09clex
import SlicecVerif.Model.CommentDocLoc

namespace Slicec.Drv.C09D

open Slicec Slicec.Drv Slicec.Drv.C09C

def docLocCase (o : Out) (fam : String) (ls : List CLine) : IO Unit := do
  let r := parseCommentLoc ls
  o.line (tab ["docloc", fam, locLinesField ls, lresHookS r])
  -- `parser_never_at_eof` (Props/C09.lean): re-evaluated on every generated comment
  if r == .fail .eof then
    o.line (tab ["K", "docloc", fam, locLinesField ls, "the parser model ran out of tokens without a lexer error (.fail .eof)"])
  -- erasure: the located parser and C16's parser model build the same comment (up to nothing: exactly)
  let plain := parseComment (ls.map (·.text))
  let colOk := ls.all fun l => 3 ≤ l.start.col
  if colOk && outcomeS r.eraseDoc != outcomeS plain then
    o.line (tab ["K", "docloc", fam, locLinesField ls,
      "dropping the spans of parseCommentLoc gives " ++ outcomeS r.eraseDoc ++ " but parseComment gives " ++ outcomeS plain])

def allPlacedD (o : Out) (fam : String) (ls : List String) : IO Unit := do
  for p in placements do docLocCase o (fam ++ "-" ++ p.name) (place p ls)

def somePlacedD (o : Out) (fam : String) (k : Nat) (ls : List String) : IO Unit := do
  for p in placements.take k do docLocCase o (fam ++ "-" ++ p.name) (place p ls)

/-- tag lines: every kind, with / without identifier, colon, inline message, blanks before the colon and at the end -/
def tagLines : List String :=
  ["@param p", "@param p:", "@param p: inline", "@param p : inline {@link A::B} é", "@param   p  ", "@param p:  ", "\t@param p: x",
   "@returns", "@returns:", "@returns: inline é", "@returns  :  x", "@returns   ", "@returns r", "@returns r: inline", "@returns r  :", "  @returns  r  : {@link X}",
   "@see S", "@see A::B", "@see ::A::B  ", "   @see S", "@see A :: B"]

/-- what may follow (or precede) a tag line -/
def contLines : List String :=
  ["", " ", "more", "  more text", "\tmore 😀 é", "{@link X}", "  {@link X} t {  @link ::Y::Z }", "    deeper", "\u3000wide"]

end Slicec.Drv.C09D

namespace Slicec.Drv

open Slicec Slicec.Drv.C09C Slicec.Drv.C09D

def genC09doc (tier : Tier) (seed : Nat) (o : Out) : IO Unit := do
  let thorough := tier == .thorough
  -- 1. single lines of the cursor catalogue and of C16's malformed catalogue (parsed or rejected), every placement
  for l in cursorLines do
    allPlacedD o "cursor" [l]
    somePlacedD o "cursor" 3 [" Overview é.", l]
    somePlacedD o "cursor" 3 [l, " more", "@see Z"]
  for m in malformedLines do
    somePlacedD o "malformed" 2 [m]
    somePlacedD o "malformed" 2 [" Overview.", m]
    somePlacedD o "malformed" 2 [m, " @param x: y"]
    somePlacedD o "malformed" 2 ["@param x: y", "  more", m]
    somePlacedD o "malformed" 2 [" a", m, " b", "@see X"]
  -- 2. the comment's own span: first line an overview / an empty line / a tag at different indentations
  for ind in ["", " ", "   ", "\t", "\u3000 "] do
    for t in tagLines do
      allPlacedD o "first-tag" [ind ++ t]
      allPlacedD o "first-tag" [ind ++ t, " cont"]
      allPlacedD o "first-overview" [ind ++ "Overview.", ind ++ t]
      allPlacedD o "first-empty" ["", ind ++ t]
    allPlacedD o "first-overview" [ind ++ "Overview 😀."]
    allPlacedD o "first-overview" [ind ++ "{@link A} first.", "", ind ++ "second"]
    allPlacedD o "first-empty" [ind]
  -- 3. every tag kind followed by 0..2 further lines and then by every tag kind
  for t in tagLines do
    for c1 in contLines do
      somePlacedD o "tag-cont" 3 [t, c1]
      somePlacedD o "tag-cont" 2 [" Ov.", t, c1, "@see Last"]
      for t2 in (if thorough then tagLines else tagLines.take 3 ++ ["@returns", "@returns  : x", "@see S"]) do
        somePlacedD o "tag-tag" 2 [t, c1, t2]
      if thorough then
        for c2 in contLines do
          somePlacedD o "tag-cont2" 2 [t, c1, c2]
          somePlacedD o "tag-cont2" 2 [t, c1, c2, "@returns x: y"]
    for t2 in tagLines do
      somePlacedD o "tag-tag" 3 [t, t2]
  -- 4. overview shapes: blank lines, indentation, links at the start / end, lines of blanks only
  for a in contLines do
    for b in contLines do
      somePlacedD o "overview" 3 [a, b]
      somePlacedD o "overview" 2 [a, b, "@param p: x", a]
      if thorough then
        for c in contLines do
          somePlacedD o "overview" 2 [a, b, c]
  -- 5. bounded-exhaustive single lines over C16's lexical pieces
  let depth := if thorough then 4 else 3
  for s in seqsUpTo lexPieces depth do
    if !s.isEmpty then
      somePlacedD o "line-exh" 1 [String.join s]
      if s.length ≤ 2 then
        somePlacedD o "line-exh" 2 [" ov", String.join s, " t"]
  -- 6. pseudo-random structured comments (C16's generator), one malformed line spliced into some
  let n := if thorough then 40000 else 4000
  let mut r := Rng.mk' (seed + 9116)
  for i in [0:n] do
    let st : IndentStyle := match i % 8 with | 0 | 1 | 2 => .ascii | 3 | 4 => .wide2 | 5 => .wide3 | _ => .mixed
    let (ls, r') := runG (genComment st (i % 2 == 0)) r
    r := r'
    let p := placements.getD (i % placements.length) default
    docLocCase o ("random-" ++ p.name) (place p ls)
    if i % 4 == 0 then
      let (k, r') := r.below (ls.length + 1)
      r := r'
      let bad := malformedLines.getD ((i / 4) % malformedLines.length) "@"
      docLocCase o ("spliced-" ++ p.name) (place p (ls.take k ++ [bad] ++ ls.drop k))
  -- 7. spans that start left of column 3: `create_doc_comment` subtracts 3 (no `///` fits there; the Slice lexer never
  --    delivers such a span, the hook can)
  for c in [1, 2, 3] do
    for ls in [[" ov"], ["@param x"], [" ov", "@see X"]] do
      docLocCase o "column-underflow" (ls.zipIdx.map fun (s, i) => ⟨s.toList, ⟨i + 1, c⟩, ⟨i + 1, c + s.length⟩⟩)

/-! ## whole programs (engine `compile`, projection `c09:docspans`) -/

def docSpansCase (o : Out) (fam : String) (p : Program) (texts : List String) : IO Unit := do
  match docSpansDump p texts with
  | some d => o.line (compileCase fam "c09:docspans" "-" texts d)
  | none =>
    o.line (tab ["K", "compile", fam, "|".intercalate (texts.map hexOfString),
      "the doc lines of the rendered text are not the doc lines of the program's elements (or a comment panics)"])

/-- a program with one element of every shape the comment validators distinguish, each carrying the comment `doc` -/
def shapeProgram (doc : List String) : Program :=
  let file (m : String) (defs : List Def) : SFile := { fileAttrs := [], module := some ⟨[], m⟩, defs := defs }
  let pr (p : Prim) : TRef := .mk [] (.prim p) false
  let fld (d : List String) (n : String) : Field := { doc := d, attrs := [], tag := none, name := n, ty := pr .bool }
  let par (n : String) : Param := { attrs := [], tag := none, name := n, stream := false, ty := pr .int32 }
  let op (n : String) (ps : List Param) (r : Ret) : Op := { doc := doc, attrs := [], idempotent := false, name := n, params := ps, ret := r }
  [file "M"
    [ .struct doc [] false "S" [fld doc "x", fld [] "y"],
      .iface doc [] "I" []
        [op "none" [par "x", par "p"] .none, op "single" [par "x"] (.single none false (pr .bool)),
         op "tuple" [par "p0"] (.tuple [par "x", par "r"]), op "bare" [] .none],
      .enum doc [] false false "E" none
        [{ doc := doc, attrs := [], name := "A", fields := none, value := none },
         { doc := [], attrs := [], name := "B", fields := some [fld doc "x"], value := none }],
      .custom doc [] "C",
      .alias doc [] "T" (pr .string) ] ]

/-- comments for the shapes: tags that fit and tags that do not, with and without messages and continuation lines,
    links that resolve (to definitions, members) and links that do not -/
def shapeDocs : List (List String) :=
  [ [" Overview."],
    [" See {@link S} and {@link Nope}, {@link M::I::none}, {@link ::M::E::A} and {@link x}."],
    ["@param x: the x", "@param p: the p", "@param nope: none"],
    ["@param x", "@param nope", "   continued {@link Nope}", "", "@param p :", "  again"],
    ["@returns: a value"], ["@returns"], ["@returns  :  spaced"], ["@returns", "  continued", ""], ["@returns x: named"], ["@returns r: r", "@returns nope: n", "@returns"],
    [" Ov {@link Nope}.", "", "@param x: {@link S} and {@link Nope2}", "  more {@link ::Nope3}", "@returns r: {@link M::Nope4}", "@see Nope5", "@see S", "@see M::E::B"],
    ["@see Nope", "@see ::M::Nope", "@see S"],
    ["   @param x: indented tag", "      deeper", "   @returns: indented", "   @see S"],
    ["\t@param x:\tm é😀", "\t@returns\tr\t:\tm"],
    [" 😀 é ✓ {@link Nope} 😀", "@param 😀"], [" ov", "@param x: m", "@foo"], ["@param x: y {@link"], [" a", "{@link Nope} b {@see X}"], ["@returns x y"], ["@see X Y"],
    ["@see X", " trailing text"], ["@param", "@returns: x"], ["@param x: ok", "@see"], [" text", "@returns :: x"] ]

def genC09docp (tier : Tier) (seed : Nat) (o : Out) : IO Unit := do
  let thorough := tier == .thorough
  -- 1. every shape of element × the shape comments × layouts (canonical, and pseudo-random ones: tabs, CRLF, comments,
  --    other indentation)
  for d in shapeDocs do
    for style in (if thorough then [0, 1, 2, 3, 4, 5] else [0, 1, 3]) do
      let p := shapeProgram d
      let texts := p.zipIdx.map fun (f, i) => (render style (seed * 100 + i + style) (fileItems f)).1
      docSpansCase o (if style == 0 then "shapes" else "shapes-layout") p texts
  -- 2. C16's malformed catalogue on every shape: where the MalformedDocComment lint points
  for m in malformedLines do
    for ctx in ([[m], [" Overview.", m], [m, " @param x: y"], ["@param x: y", "  more", m]] : List (List String)) do
      let p := shapeProgram ctx
      let style := if ctx.length % 2 == 0 then 0 else 2
      let texts := p.zipIdx.map fun (f, i) => (render style (seed + i) (fileItems f)).1
      docSpansCase o "malformed" p texts
  -- 3. the shadowed-link programs of C16
  for p in shadowedLinkPrograms do
    for style in [0, 2] do
      let texts := p.zipIdx.map fun (f, i) => (render style (seed + i) (fileItems f)).1
      docSpansCase o "shadowed-links" p texts
  -- 4. generated programs decorated with generated comments (C16's generator: link targets of every kind and distance,
  --    tags that fit / do not fit the element, malformed lines spliced in), several layouts
  let nProg := if thorough then 8000 else 700
  let mut r := Rng.mk' (seed + 91616)
  for i in [0:nProg] do
    let cfg : GenCfg := { maxFiles := 1 + i % 2, maxDefs := 2 + i % 4, typeDepth := i % 2, docs := false, foreignAttrs := false }
    let (p0, r') := genProgram cfg r
    let (p, r'') := runG (decorate16 p0) r'
    r := r''
    let style := if i % 3 == 2 then 1 + i % 5 else 0
    let texts := p.map fun f => (render style (seed * 1000 + i) (fileItems f)).1
    docSpansCase o (if style == 0 then "docs" else "docs-layout") p texts

end Slicec.Drv
