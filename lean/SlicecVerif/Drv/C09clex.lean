/- Cases for C09, stream `C09clex`: the LOCATIONS of the comment lexer's tokens — model Model/CommentLoc.lean
   (`lexCommentLoc`) against the real lexer (engine `comments`, op `lexloc`, hook `verif_hooks::lex_comment`).
   Case line: `lexloc <fam> <located lines> <expected located stream>`; a located line is
   `<text hex>@<start row>.<start col>-<end row>.<end col>` (joined by `|`), an element of the stream is
   `<token as in C16's lex>@<start row>.<start col>-<end row>.<end col>`.
   Input families: the comment generators of Drv/C16.lean (lexical pieces, the malformed catalogue, structured random
   comments) and a catalogue aimed at the cursor, each laid out by several *placements* (which row and column every
   line's span starts at: behind `///` at column 1, indented, behind other tokens, on non-consecutive rows, different
   columns per line, ends that include a stripped CR). -/
import SlicecVerif.Drv.C16
import SlicecVerif.Model.CommentLoc

namespace Slicec.Drv.C09C

open Slicec Slicec.Drv

/-- where the lines of a comment sit in the file: line `i` with `n` characters gets the span
    `(row i):(col i) – (row i):(col i + n + extra)`; `extra = 1` is a line whose `'\r'` was stripped by the Slice lexer -/
structure Placement where
  name : String
  row : Nat → Nat
  col : Nat → Nat
  extra : Nat := 0
  deriving Inhabited

def placements : List Placement :=
  [ { name := "col1", row := fun i => i + 1, col := fun _ => 4 },                          -- `///` at 1:1, consecutive rows
    { name := "indented", row := fun i => i + 7, col := fun _ => 12 },                     -- `        ///x`
    { name := "behind", row := fun i => 2 * i + 3, col := fun i => 4 + (i * 7) % 11 },     -- other rows, a different column per line
    { name := "crlf", row := fun i => i + 2, col := fun _ => 5, extra := 1 },              -- the span's end lies behind a stripped CR
    { name := "far", row := fun i => 1000 + 3 * i, col := fun i => 250 - (i % 3) } ]

def place (p : Placement) (ls : List String) : List CLine :=
  ls.zipIdx.map fun (s, i) => ⟨s.toList, ⟨p.row i, p.col i⟩, ⟨p.row i, p.col i + s.length + p.extra⟩⟩

def lineField (l : CLine) : String :=
  hexOfString (String.ofList l.text) ++ "@" ++ locS l.start l.stop

def locLinesField (ls : List CLine) : String := "|".intercalate (ls.map lineField)

def lexLocCase (o : Out) (fam : String) (ls : List CLine) : IO Unit :=
  o.line (tab ["lexloc", fam, locLinesField ls, llexOutS (lexCommentLoc ls)])

/-- every placement -/
def allPlaced (o : Out) (fam : String) (ls : List String) : IO Unit := do
  for p in placements do lexLocCase o (fam ++ "-" ++ p.name) (place p ls)

/-- the first `k` placements -/
def somePlaced (o : Out) (fam : String) (k : Nat) (ls : List String) : IO Unit := do
  for p in placements.take k do lexLocCase o (fam ++ "-" ++ p.name) (place p ls)

/-- single lines aimed at the cursor: tabs, multi-byte and astral characters and every Unicode blank in front of and inside
    tokens, trailing blanks, CR at the line's end, every tag kind, links, located errors -/
def cursorLines : List String :=
  [ "", " ", "   ", "\t", "\t \t", "\u3000", "\u00A0\u2003 ", "\r", " \r", "text\r", "é", "😀", " 😀 é ✓ ", "a\tb", "ünï ✓ {x} 😀",
    -- block tags
    "@param x", "@param x: m", " @param x: m", "\t@param\tx\t:\tm", "\u3000@param\u3000x\u3000:\u3000m", "@param x:é😀", "@param   x   :   😀 {@link A::B} t",
    "@param x  ", "@param x:", "@param x:  ", "@param x :", "@param x\r", "@param x: m\r", "@param x:\r",
    "@returns", "@returns ", "@returns\t", "@returns:", "@returns: m", "@returns : m", "@returns x", "@returns x: m", "@returns   x   :   m", "   @returns", "@returns\r",
    "@returns: é✓", "@returns 😀", "@returns é: m",
    "@see X", "@see  X", "@see X::Y", "@see ::X::Y", "@see X :: Y", "@see\tX", "@see X ", "@see X\t\t", "  @see   A::B::C  ", "@see X\r", "@see", "@see ",
    -- inline links in messages
    "{@link X}", "{ @link X }", "{\t@link\tX\t}", "{\u3000@link\u3000X\u3000}", "{   @link A::B}", "a {@link X} b", "é😀 {@link X::Y} ✓", "{@link X}{@link Y}",
    "{@link ::A::B}", "{@link X} ", "😀{@link X}😀", "\t{@link X}", "x {@link X} y {@link Z} z", "@param p: see {@link X}.", "@returns: {@link X}", "@returns r: a {  @link ::X  } b",
    -- braces that open no tag
    "{", "{ ", "{}", "{ }", "{x}", "a{b", "{{", "{{@link X}", "{ {@link X}", "a { b { c", "{é", "é{", "😀{😀{", "} x", "a } b", ":", "::", "a: b", "x :: y",
    -- located errors: unknown symbol / tag, missing tag, wrong context, unterminated inline tag
    "@foo", " @foo", "\t\t@foo x", "@", " @", "@ param", "@é", "@param é", "@param x é", "@param 😀", "@param x 😀", "@param (x)", "@param x (", "@param 1", "@param x 1",
    "@see é", "@see X é", "@see X.Y", "@see X,", "@see X-", "@returns .", "@returns x .", "@link X", "  @link X", "@param @x", "@param x @y", "@see @", "@param x @",
    "{@link X", "{@link X ", "{@link X  \t", "{@link", "{@link ", "{ @link X", "a {@link X", "é😀 {@link X::", "{@link X::Y\r", "{@param x}", "{@see X}", "{@returns}", "{ @param}",
    "{@foo}", "{@}", "{@ link X}", "{@link é}", "{@link X é}", "{@link X.}", "{@link X 😀}", "a {@link X} b {@link", "a {@link X} b {@foo}", "{@link X}{@see Y}",
    "@param x: {@link X", "@param x: {@param y}", "@param x: a {@foo", "@returns: {@", "@param\u3000x\u3000é", "\u2003@foo", "@param x: a @b", "@param_ x", "@params", "@param1",
    "@PARAM x", "@seeX", "@returnsx", "@link", "{@linkx X}", "{@link1}", "@a_b_1 c", "@_", "@__x" ]

/-- lines that continue a comment (what a tag line is followed by) -/
def followers : List String :=
  ["", " ", "more", "  more text", "\tmore 😀", "{@link X}", "  {@link X} t", "@see Y", "@param y: n", "@returns", "@returns: n", "\u3000é", "x\r", "  @foo", "{@link"]

/-- lines in front -/
def leaders : List String := ["", " Overview.", "  é😀 ✓", "\t", "{@link A} b", "@param a: b", "@returns", "@see A"]

/-- a single random character / piece soup over the characters the lexer distinguishes plus multi-byte ones -/
def soupPieces : List String :=
  ["@", "@param", "@returns", "@see", "@link", "@foo", "{", "}", ":", "::", " ", "  ", "\t", "\u3000", "\u00A0", "x", "Ab_1", "_", "9", "é", "✓", "😀", ".", "(", "\r", "text"]

end Slicec.Drv.C09C

namespace Slicec.Drv

open Slicec Slicec.Drv.C09C

def genC09clex (tier : Tier) (seed : Nat) (o : Out) : IO Unit := do
  let thorough := tier == .thorough
  -- 1. the cursor catalogue: every line alone in every placement; followed by / following every kind of line
  for l in cursorLines do
    allPlaced o "cursor" [l]
    allPlaced o "cursor-twice" [l, l]
  for l in cursorLines do
    for f in followers do
      somePlaced o "cursor-followed" (if thorough then 5 else 3) [l, f]
    for h in leaders do
      somePlaced o "cursor-led" (if thorough then 5 else 3) [h, l]
      if thorough then
        for f in [" more", "@see Z", ""] do
          somePlaced o "cursor-mid" 3 [h, l, f]
  -- 2. every tag kind followed / not followed by further lines, with and without message, blank lines between
  let tagHeads := ["@param p", "@param p:", "@param p: inline", "@returns", "@returns:", "@returns: inline é", "@returns r", "@returns r: inline", "@see S", "@see A::B"]
  for h in tagHeads do
    for ind in ["", " ", "\t ", "\u3000"] do
      allPlaced o "tag-last" [ind ++ h]
      allPlaced o "tag-last" [" Overview 😀.", "", ind ++ h]
      for f in followers do
        somePlaced o "tag-followed" 3 [ind ++ h, f]
        somePlaced o "tag-followed" 3 [" Overview.", ind ++ h, f, ind ++ h]
        if thorough then
          for f2 in followers do
            somePlaced o "tag-followed2" 2 [ind ++ h, f, f2]
  -- 3. C16's catalogue of malformed lines: alone, after an overview, before a tag, between lines
  for m in malformedLines do
    allPlaced o "malformed" [m]
    somePlaced o "malformed" 3 [" Overview.", m]
    somePlaced o "malformed" 3 [m, " @param x: y"]
    somePlaced o "malformed" 3 [" a", m, " b", "@see X"]
  if thorough then
    for m in malformedLines do
      for m2 in malformedLines do
        somePlaced o "malformed2" 2 [m, m2]
  -- 4. bounded-exhaustive single lines over C16's lexical pieces (and pairs of lines over the shorter ones)
  let depth := if thorough then 4 else 3
  for s in seqsUpTo lexPieces depth do
    if !s.isEmpty then
      somePlaced o "lex-exh" 2 [String.join s]
  for s in seqsUpTo lexPieces 2 do
    for s2 in seqsUpTo lexPieces (if thorough then 2 else 1) do
      somePlaced o "lex-exh2" 2 [String.join s, String.join s2]
  -- 5. indentation grids of C16 (Unicode blanks of every width in front of text, links and tags)
  for a in gridIndents do
    for b in gridIndents do
      somePlaced o "indent-grid" 2 [a ++ "x é", b ++ "{@link S} y", a ++ b ++ "@param p:" ++ a ++ "z"]
  -- 6. pseudo-random structured comments (C16's generator) and the same with one malformed line spliced in
  let n := if thorough then 30000 else 3000
  let mut r := Rng.mk' (seed + 9016)
  for i in [0:n] do
    let st : IndentStyle := match i % 8 with | 0 | 1 | 2 => .ascii | 3 | 4 => .wide2 | 5 => .wide3 | _ => .mixed
    let (ls, r') := runG (genComment st (i % 2 == 0)) r
    r := r'
    let p := placements.getD (i % placements.length) default
    lexLocCase o ("random-" ++ p.name) (place p ls)
    if i % 5 == 0 then
      let (k, r') := r.below (ls.length + 1)
      r := r'
      let bad := malformedLines.getD ((i / 5) % malformedLines.length) "@"
      lexLocCase o ("spliced-" ++ p.name) (place p (ls.take k ++ [bad] ++ ls.drop k))
  -- 7. random soups of 1..3 lines, random rows (increasing, not consecutive) and columns
  let nSoup := if thorough then 60000 else 6000
  for _ in [0:nSoup] do
    let (nl, r1) := r.below 3
    r := r1
    let mut row := 1
    let mut ls : List CLine := []
    for _ in [0:nl + 1] do
      let (len, r2) := r.below 7
      r := r2
      let mut s := ""
      for _ in [0:len + 1] do
        let (p, r3) := r.pick soupPieces
        r := r3
        s := s ++ p
      let (dr, r4) := r.below 4
      let (c, r5) := r4.below 40
      r := r5
      row := row + dr + (if ls.isEmpty then 0 else 1)
      ls := ls ++ [⟨s.toList, ⟨row, c + 1⟩, ⟨row, c + 1 + s.length⟩⟩]
    lexLocCase o "soup" ls

end Slicec.Drv
