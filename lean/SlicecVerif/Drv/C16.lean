/- Cases for C16 (doc comments): engine `comments` (stream `C16`) and engine `compile`, projection `c16:docs` (stream `C16p`).
   Every case's expectation is the model's exact output (= the property's demand, `Props/C16.parse_eq_spec`). -/
import SlicecVerif.Model.Comment
import SlicecVerif.Model.CommentDocs
import SlicecVerif.Drv.Prog

namespace Slicec.Drv

open Slicec

/-! ## comment-line generators -/

def linesField (ls : List String) : String :=
  if ls.isEmpty then "~" else "|".intercalate (ls.map hexOfString)

def strs (ls : List String) : List Str := ls.map String.toList

/-- ASCII indentation -/
def asciiIndents : List String := ["", " ", "  ", "   ", "    ", "\t", " \t", "      "]
/-- non-ASCII whitespace, grouped by UTF-8 width -/
def ws2 : List String := ["\u00A0", "\u0085"]
def ws3 : List String := ["\u3000", "\u2003", "\u1680", "\u2028", "\u202F", "\u205F"]

def textFrags : List String :=
  ["Hello", "a b", "ünï ✓", "x: y", "tail ", "mid@dle", "}", "a } b", "::", "e.g. {", "{ x", "{{", "1, 2; 3", "see @param", "(p)", "a\tb", "x{y}z",
   "The quick brown fox", "é", "{ }", "{x} {y}", "trailing {", "http://x/y"]

def linkIds : List String := ["X", "Foo", "A::B", "::A::B", "a_1", "M::S::f", "x9::Y_z", "bool", "string"]

/-- well-formed spellings of an inline link -/
def linkForms (id : String) : List String :=
  ["{@link " ++ id ++ "}", "{ @link " ++ id ++ " }", "{@link\t" ++ id ++ "}", "{　@link " ++ id ++ " }", "{@link " ++ id ++ "  }"]

def genLink (ids : List String) : G String := do
  let id ← pickG ids
  pickG (linkForms id)

/-- content of one message line (no indentation): text fragments and links in every position -/
def genLineBody (ids : List String) : G String := do
  let c ← below 20
  let t1 ← pickG textFrags
  let t2 ← pickG textFrags
  if c < 11 then return t1
  else if c < 14 then return t1 ++ " " ++ (← genLink ids) ++ " " ++ t2      -- link in the middle
  else if c < 17 then return t1 ++ " " ++ (← genLink ids)                   -- at the end
  else if c == 17 then return (← genLink ids) ++ " " ++ t1                  -- at the start
  else if c == 18 then return (← genLink ids)                               -- alone
  else return (← genLink ids) ++ (← genLink ids) ++ t1 ++ (← genLink ids)   -- adjacent links

inductive IndentStyle where
  | ascii | wide2 | wide3 | mixed
  deriving DecidableEq

def genIndent (st : IndentStyle) : G String := do
  match st with
  | .ascii => pickG asciiIndents
  | .wide2 => do
    let n ← below 3
    let mut s := ""
    for _ in [0:n + 1] do s := s ++ (← pickG ws2)
    return s
  | .wide3 => do
    let n ← below 3
    let mut s := ""
    for _ in [0:n + 1] do s := s ++ (← pickG ws3)
    return s
  | .mixed => do
    let n ← below 3
    let mut s := ""
    for _ in [0:n + 1] do s := s ++ (← pickG ([" ", "\t"] ++ ws2 ++ ws3))
    return s

/-- 0..6 message lines: indented bodies, blank lines, (rarely) whitespace-only lines -/
def genMessageLines (ids : List String) (st : IndentStyle) (maxLines : Nat) (allowWsOnly : Bool) : G (List String) := do
  let n ← below (maxLines + 1)
  let base ← genIndent st
  let mut ls := []
  for _ in [0:n] do
    let c ← below 12
    if c == 0 then ls := ls ++ [""]
    else if c == 1 && allowWsOnly then ls := ls ++ [← genIndent st]
    else
      let extra ← (do if ← coin 1 3 then genIndent st else pure "")
      let ind ← (do if ← coin 1 6 then genIndent st else pure base)
      let body ← genLineBody ids
      -- a line whose first non-blank character is `{` has an all-whitespace first text (its whole length is indentation)
      let body ← (do if body.startsWith "{" && (← coin 1 3) then pure ((← pickG ["See ", "w ", "é "]) ++ body) else pure body)
      ls := ls ++ [ind ++ extra ++ body]
  return ls

def defaultTagIds : List String := ["x", "p0", "value", "a_b", "returnValue", "T1"]

/-- a block tag with inline and/or continuation message -/
def genBlock (ids tagIds : List String) (st : IndentStyle) (allowWsOnly : Bool) : G (List String) := do
  let lead ← pickG ["", "", " ", "   ", "\t"]
  let c ← below 10
  if c < 2 then
    let id ← pickG ids
    let trail ← pickG ["", " ", "\t "]
    return [lead ++ "@see " ++ id ++ trail]
  else
    let head ← (do
      if c < 6 then return "@param " ++ (← pickG tagIds)
      else if c < 8 then return "@returns"
      else return "@returns " ++ (← pickG tagIds))
    let sep ← pickG ["", "", " ", "  "]
    let k ← below 6
    let inl ← (do
      if k == 0 then pure ""                                  -- no colon at all
      else if k == 1 then pure (sep ++ ":")                   -- colon, nothing after it
      else if k == 2 then pure (sep ++ ": ")                  -- colon and whitespace only
      else if k == 3 then pure (sep ++ ":" ++ (← genLineBody ids))
      else pure (sep ++ ": " ++ (← genLineBody ids)))
    let cont ← genMessageLines ids st 3 allowWsOnly
    return [lead ++ head ++ inl] ++ cont

/-- a whole comment of the well-formed shape -/
def genCommentWith (ids tagIds : List String) (st : IndentStyle) (allowWsOnly : Bool) : G (List String) := do
  let ov ← genMessageLines ids st 6 allowWsOnly
  let nb ← pickG [0, 0, 1, 1, 2, 3, 4]
  let mut ls := ov
  for _ in [0:nb] do ls := ls ++ (← genBlock ids tagIds st allowWsOnly)
  if ls.isEmpty then return [""] else return ls

def genComment (st : IndentStyle) (allowWsOnly : Bool) : G (List String) := genCommentWith linkIds defaultTagIds st allowWsOnly

/-- the defect catalogue: single lines that are (mostly) malformed -/
def malformedLines : List String :=
  ["@foo", "@", "@ param x", "{@link X", "{@param x}", "{@link}", "{@link X Y}", "{@link X:}", "@link X", "@param", "@param x y", "@param 1x",
   "@see", "@see X Y", "@see X: m", "@returns a b", "{@}", "{@link X::}", "{@link ::}", "{@link ::X}", "@param x: {@link", "@see X}", "@param (x)",
   "@param x: ok {@see Y}", "text {@link A} {@link", "@returns: {@link A::}", "} @", "{ }", "{ {", "{\u3000@link X}", "@param x: y {@link Z} }",
   "@see {@link X}", "@param {x}", "@returns : : x", "@returns::", "@param x::y: m", "@param é", "@param x é", "@PARAM x", "@param_ x", "@see X::", "@see ::",
   "@see X :: Y", "@see X : : Y", "text @param x", "{@link X}}", "{{@link X}", "{@link {X}}", "@param x: @returns", "@@", "@param @x", "{@link @X}", "{@link X\t}",
   "{@ link X}", "{@link X}", "@param x", "@see\u3000X", "  @", "\u3000@see X", "x @", "@returns x:", "@returns x :y", "@see X @see Y", "@param x }",
   "{@returns}", "{@see X}", "{@foo}", "{@link1 X}", "{@linkX}", "@params x", "@seeX", "@returns1", "@param x_: m", "@param _x"]

/-! ## one case: the expectation is the model's exact output, which is the property's (`Props/C16.parse_eq_spec`) -/

/-- `doc` case: expected = the model of the comment parser as it is. By `parse_eq_spec` this is also what the property's
    stripping rule demands; the equality is re-checked here on every generated comment, so that a model that follows a source
    which went back to byte offsets (`Gen.sanitizeCountsChars = false`) shows up as model counterexamples with the comment. -/
def docCase (o : Out) (fam : String) (ls : List String) : IO Unit := do
  let m := parseComment (strs ls)
  o.line (tab ["doc", fam, linesField ls, outcomeS m])
  let s := parseCommentSpec (strs ls)
  if outcomeS m != outcomeS s then
    o.line (tab ["K", "doc", fam, linesField ls,
      "the model of sanitize_message_lines gives " ++ outcomeS m ++ " but the property's stripping rule demands " ++ outcomeS s])

def lexCase (o : Out) (fam : String) (ls : List String) : IO Unit :=
  o.line (tab ["lex", fam, linesField ls, lexOutS (lexComment (strs ls))])

/-- all sequences of at most `n` pieces -/
def seqsUpTo (pieces : List String) : Nat → List (List String)
  | 0 => [[]]
  | n + 1 => let r := seqsUpTo pieces n; r ++ (r.filter (·.length == n)).flatMap fun s => pieces.map fun p => s ++ [p]

def lexPieces : List String := ["@link", "@param", "@see", "@returns", "{", "}", ":", "::", " ", "x", "é", "@", "Ab_1"]

def runG {α} (act : G α) (r : Rng) : α × Rng :=
  let (a, st) := act.run { rng := r }
  (a, st.rng)

/-- indentations of the grids: ASCII, 2-byte, 3-byte and mixed-width whitespace -/
def gridIndents : List String :=
  asciiIndents ++ ws2 ++ ws3 ++ ["\u00A0 ", "\u3000 ", " \u3000", " \u00A0", "\u3000\u3000", "\u0085\u3000"]

/-- a smaller set for the families that multiply with several shapes -/
def fewIndents : List String := ["", " ", "   ", "\t ", "\u00A0", "\u3000", " \u3000", "\u3000\u00A0 ", "\u0085  "]

/-- all strings of at most `n` whitespace characters over a 1-byte, a 2-byte and a 3-byte one -/
def wsStrings : Nat → List String
  | 0 => [""]
  | n + 1 => let r := wsStrings n; r ++ (r.filter (·.length == n)).flatMap fun s => [" ", "\u00A0", "\u3000"].map fun c => s ++ c

/-- pairs of indentations whose order by number of characters and by number of UTF-8 bytes disagree
    (fewer characters but more bytes): the minimum taken in bytes picks the wrong line -/
def orderFlipPairs (n : Nat) : List (String × String) :=
  let ws := (wsStrings n).filter (· != "")
  ws.flatMap fun a => (ws.filter fun b => a.length < b.length && a.utf8ByteSize > b.utf8ByteSize).map fun b => (a, b)

/-- tag lines whose continuation lines are stripped together -/
def contHeads : List String := ["@param p: inline", "@param p", "@returns", "@returns r: {@link A::B} x", "  @param p:"]

def genC16 (tier : Tier) (seed : Nat) (o : Out) : IO Unit := do
  let thorough := tier == .thorough
  -- 1. the empty comment (`Lexer::new` panics; the Slice parser never gets there)
  o.line (tab ["doc", "empty", "~", outcomeS (parseComment [])])
  -- 2. bounded-exhaustive single lines over lexical pieces: token stream and parse result
  let depth := if thorough then 4 else 3
  for s in seqsUpTo lexPieces depth do
    if !s.isEmpty then
      let l := String.join s
      lexCase o "lex-exh" [l]
      docCase o "line-exh" [l]
  -- 3. the defect catalogue: alone, after an overview line, before a tag, and pairwise
  for m in malformedLines do
    lexCase o "lex-malformed" [m]
    docCase o "malformed" [m]
    docCase o "malformed" [" Overview.", m]
    docCase o "malformed" [m, " @param x: y"]
    docCase o "malformed" ["@param x: y", "  more", m]
    docCase o "malformed" [" a", m, " b", "@see X"]
  if thorough then
    for m in malformedLines do
      for m2 in malformedLines do
        docCase o "malformed2" [m, m2]
  -- 4. two-line indentation grid: every pair of (indent, indent) from ASCII and non-ASCII whitespace
  let inds := gridIndents
  for a in inds do
    for b in inds do
      docCase o "indent-grid" [a ++ "x", b ++ "y"]
      if thorough then
        docCase o "indent-grid" [a ++ "x", "", b ++ "y z", a ++ b ++ "w"]
        docCase o "indent-grid" ["@param p:" ++ a ++ "x", b ++ "y", a ++ "z"]
  -- 5. lines that start with a link after their indentation / whitespace-only lines next to indented text:
  --    `b` shorter than, equal to and longer than the common indentation, in every width
  for a in inds do
    for b in inds do
      docCase o "link-start" [a ++ "first", b ++ "{@link S} second"]
      docCase o "ws-only" [a ++ "first", b, a ++ "third"]
      if thorough || (asciiIndents.contains a && asciiIndents.contains b) then
        docCase o "link-start" ["@returns:" ++ a ++ "{@link S} x", b ++ "{@link T}", b ++ a ++ "y"]
  -- 6. messages in which no line has content: whitespace-only lines (and empty lines) only
  for a in inds do
    docCase o "ws-only-all" [a]
    for b in inds do
      docCase o "ws-only-all" [a, b]
      if thorough then
        docCase o "ws-only-all" [a, "", b]
        docCase o "ws-only-all" ["", a, b, ""]
  -- 7. whitespace followed by a link (or by a `{`, which starts a text of its own) as the first / the only indented line
  for a in inds do
    docCase o "ws-link" [a ++ "{@link S}"]
    docCase o "ws-link" [a ++ "{@link S} tail", a]
    docCase o "ws-link" [a ++ "{curly} x"]
    for b in inds do
      docCase o "ws-link" [a ++ "{@link S}", b ++ "text"]
      docCase o "ws-link" [a ++ "{@link S} tail", b ++ "{ @link A::B }"]
      if thorough then
        docCase o "ws-link" [b ++ "text", a ++ "{@link S}", b, a ++ b ++ "{x} {@link T}"]
        docCase o "ws-link" [a ++ "{curly}", b ++ "{@link S}{@link T}", "{@link U}"]
  -- 8. mixed-width indentation where the order by characters and the order by bytes disagree
  for (a, b) in orderFlipPairs (if thorough then 5 else 4) do
    docCase o "order-flip" [a ++ "x", b ++ "y"]
    docCase o "order-flip" [b ++ "y", "", a ++ "{@link S} x", b]
    if thorough then
      docCase o "order-flip" [b ++ "{@link S}", a ++ "x", a ++ b]
  -- 9. the same inside the continuation lines of block tags (stripped per tag, independently of the overview)
  let cinds := if thorough then inds else fewIndents ++ ["\u2003\u2003", "      ", "\u00A0\u00A0"]
  for h in contHeads do
    for a in cinds do
      docCase o "cont-ws-all" [h, a]
      docCase o "cont-ws-link" [h, a ++ "{@link S}"]
      for b in cinds do
        docCase o "cont-indent" [h, a ++ "x", b ++ "y"]
        docCase o "cont-ws-only" [h, a ++ "x", b, a ++ "z"]
        docCase o "cont-ws-all" ["   over", h, a, b]
        docCase o "cont-ws-link" [" over", h, a ++ "{@link S} t", b ++ "y", "@see X"]
    for (a, b) in orderFlipPairs (if thorough then 4 else 3) do
      docCase o "cont-order-flip" [h, a ++ "x", b ++ "y"]
      docCase o "cont-order-flip" ["  ov", h, b ++ "{@link S}", a ++ "x", b]
  -- `@throws` is not a tag of this grammar: the comment is malformed whatever follows
  for a in fewIndents do
    docCase o "throws-unknown" ["@throws E: x", a ++ "cont"]
    docCase o "throws-unknown" [" ov", a ++ "@throws E", a ++ "cont"]
  -- 10. pseudo-random structured comments
  let n := if thorough then 30000 else 4000
  let mut r := Rng.mk' (seed + 16)
  for i in [0:n] do
    let st : IndentStyle := match i % 8 with | 0 | 1 | 2 => .ascii | 3 | 4 => .wide2 | 5 => .wide3 | _ => .mixed
    let (ls, r') := runG (genComment st (i % 2 == 0)) r
    r := r'
    let fam := match st with | .ascii => "random-ascii" | .wide2 => "random-wide2" | .wide3 => "random-wide3" | .mixed => "random-mixed"
    docCase o fam ls
    if i % 4 == 0 then lexCase o "lex-random" ls
  -- 11. a well-formed comment with one malformed line spliced in at every position
  let nm := if thorough then 3000 else 300
  for i in [0:nm] do
    let (ls, r') := runG (genComment .ascii false) r
    r := r'
    let (k, r') := r.below (ls.length + 1)
    r := r'
    let bad := malformedLines.getD (i % malformedLines.length) "@"
    docCase o "spliced" (ls.take k ++ [bad] ++ ls.drop k)

/-! ## whole programs (engine `compile`, projection `c16:docs`) -/

def lastSegs (k : Nat) (key : String) : String :=
  let segs := key.splitOn "::"
  "::".intercalate (segs.drop (segs.length - k))

/-- spellings of link targets as seen from anywhere: definitions, members (`S::f`), operations, enumerators, parameters,
    modules, primitives and names that do not exist; bare, partially qualified, fully qualified and global -/
def genTargets (t : Table) (selfKey : String) : G (List String) := do
  let entries := t.filter fun e => e.2.kind != .primitive
  let mut out : List String := ["bool", "Nope", "M::Nope", "::Nope", lastSegs 1 selfKey, selfKey]
  for _ in [0:6] do
    if !entries.isEmpty then
      let e ← pickG entries
      let c ← below 5
      let sp := match c with
        | 0 => lastSegs 1 e.1
        | 1 => lastSegs 2 e.1
        | 2 => e.1
        | 3 => "::" ++ e.1
        | _ => lastSegs 3 e.1
      out := out ++ [sp]
  return out

def genElemDoc (t : Table) (e : DocElem) : G (List String) := do
  let c ← below 20
  if c < 7 then return []
  let ids ← genTargets t e.key
  let tagIds := match e.shape with
    | .operation ps rs => ps ++ rs ++ ["nope"]
    | _ => ["x", "f0"]
  let tagIds := if tagIds.isEmpty then ["x"] else tagIds
  let st : IndentStyle := if c == 7 then .wide3 else if c == 8 || c == 12 then .mixed else if c == 13 then .wide2 else .ascii
  -- identifiers in tags must lex as identifiers: keep only plain ones
  let tagIds := tagIds.filter fun s => isIdentLike s
  let tagIds := if tagIds.isEmpty then ["x"] else tagIds
  let ls ← genCommentWith ids tagIds st (c == 9 || c == 12 || c == 14)
  if c == 10 || c == 11 then
    -- a malformed line spliced in
    let k ← below (ls.length + 1)
    let bad ← pickG malformedLines
    return ls.take k ++ [bad] ++ ls.drop k
  else return ls

def setFieldDocs (docs : List (List String)) (fs : List Field) : List Field :=
  (fs.zip docs).map fun (f, d) => { f with doc := d }

/-- put `docs` (one entry per element, in `fileElems` order) on the elements of a definition; returns the rest -/
def setDefDocs (d : Def) (docs : List (List String)) : Def × List (List String) :=
  let hd := docs.headD []
  let r := docs.drop 1
  match d with
  | .struct _ attrs compact name fields =>
    (.struct hd attrs compact name (setFieldDocs (r.take fields.length) fields), r.drop fields.length)
  | .iface _ attrs name bases ops =>
    (.iface hd attrs name bases ((ops.zip (r.take ops.length)).map fun (o, dd) => { o with doc := dd }), r.drop ops.length)
  | .enum _ attrs compact unchecked name u es =>
    let (es', rest) := es.foldl (fun (acc : List Enumerator × List (List String)) e =>
      let nf := (e.fields.getD []).length
      let ed := acc.2.headD []
      let fr := acc.2.drop 1
      (acc.1 ++ [{ e with doc := ed, fields := e.fields.map (setFieldDocs (fr.take nf)) }], fr.drop nf)) ([], r)
    (.enum hd attrs compact unchecked name u es', rest)
  | .custom _ attrs name => (.custom hd attrs name, r)
  | .alias _ attrs name ty => (.alias hd attrs name ty, r)

def setFileDocs (f : SFile) (docs : List (List String)) : SFile :=
  let (defs, _) := f.defs.foldl (fun (acc : List Def × List (List String)) d =>
    let (d', rest) := setDefDocs d acc.2
    (acc.1 ++ [d'], rest)) ([], docs)
  { f with defs := defs }

def decorate16 (p : Program) : G Program := do
  let t := buildTable p
  let mut out := []
  for f in p do
    let mut docs := []
    for e in fileElems f do docs := docs ++ [← genElemDoc t e]
    out := out ++ [setFileDocs f docs]
  return out

/-- scoped link targets that exist both as a top-level path and relative to an enclosing scope of the documented element: the
    link binds like a type written in the same place — nearest scope first -/
def shadowedLinkPrograms : List Program :=
  let file (m : String) (defs : List Def) : SFile := { fileAttrs := [], module := some ⟨[], m⟩, defs := defs }
  let st (doc : List String) (n : String) (fs : List Field) : Def := .struct doc [] false n fs
  let fld (n : String) (ty : TRef) : Field := { doc := [], attrs := [], tag := none, name := n, ty := ty }
  let nm (id : String) : TRef := .mk [] (.named id) false
  let pr (p : Prim) : TRef := .mk [] (.prim p) false
  [ [file "Foo" [st [] "Thing" []], file "Bar::Foo" [st [] "Thing" []],
     file "Bar" [st [" Wraps a {@link Foo::Thing} and a {@link ::Foo::Thing}.", " @see Foo::Thing"] "Wrapper" [fld "thing" (nm "Foo::Thing")]]],
    [file "Bar" [st [" Wraps a {@link Foo::Thing}.", " @see Foo::Thing"] "Wrapper" [fld "thing" (nm "Foo::Thing")]],
     file "Bar::Foo" [st [] "Thing" []], file "Foo" [st [] "Thing" []]],
    [file "Net" [st [] "Port" [], st [] "Net" [fld "Port" (pr .uint16)],
       .iface [" Opens {@link Net::Port}.", " @see Net::Port"] [] "I" []
         [{ doc := [" Uses {@link Net::Port} and {@link ::Net::Port}.", " @see Net::Port"], attrs := [], idempotent := false, name := "op", params := [], ret := .none : Op }]]],
    [file "A" [st [] "X" []], file "A::A" [st [" {@link A::X} {@link X} {@link ::A::X}"] "X" [], st [" {@link A::X}", " @see A::A::X"] "Y" []]],
    [file "A::B" [.enum [] [] false false "E" none [{ doc := [" {@link E::M} {@link B::E::M} {@link M}"], attrs := [], name := "M", fields := none, value := none }]],
     file "B" [.enum [] [] false false "E" (some (pr .uint8)) [{ doc := [], attrs := [], name := "M", fields := none, value := none }]]] ]

def genC16p (tier : Tier) (seed : Nat) (o : Out) : IO Unit := do
  for p in shadowedLinkPrograms do
    for style in [0, 2] do
      let texts := p.zipIdx.map fun (f, i) => (render style (seed + i) (fileItems f)).1
      o.line (compileCase "shadowed-links" "c16:docs" "-" texts ((docsDump p).getD "panic"))
  let thorough := tier == .thorough
  let nProg := if thorough then 8000 else 700
  let mut r := Rng.mk' (seed + 1616)
  for i in [0:nProg] do
    let cfg : GenCfg := { maxFiles := 1 + i % 2, maxDefs := 2 + i % 4, typeDepth := i % 2, docs := false, foreignAttrs := false }
    let (p0, r') := genProgram cfg r
    let (p, r'') := runG (decorate16 p0) r'
    r := r''
    let style := if i % 3 == 2 then 1 + i % 5 else 0
    let texts := p.map fun f => (render style (seed * 1000 + i) (fileItems f)).1
    let fam := if style == 0 then "docs" else "docs-layout"
    -- expected = the model of the code as it is (`none` = a comment makes the parser panic: `attach_total` says never)
    let asIs := docsDump p
    o.line (compileCase fam "c16:docs" "-" texts (asIs.getD "panic"))
    if asIs != docsDumpSpec p then
      o.line (tab ["K", "compile", fam, "|".intercalate (texts.map hexOfString),
        "the model of sanitize_message_lines and the property's stripping rule give different c16:docs dumps"])

end Slicec.Drv
