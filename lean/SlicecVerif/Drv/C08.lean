/-
  Cases for C08 (the encoded generator request), engine `compile`, projection
  `c08:request[;r=<i>.<j>…][;a=<hexkey>:<hexvalue>,…]` (harness/src/proj_c08.rs).

  line:  compile <family> c08:request;r=…;a=… - <files hex|hex…> <expected>
  expected = `requestObservation`: the hex of `encodeRequest (convert P)` (++ `encodeArguments args` when `a=` is present).

  families
    hand        hand-written programs: every definition kind, the five built-in attributes, anonymous types nested to
                depth 3 directly and through aliases (also across files), tags 0 and 2^31−1, enumerator values at both
                limits of every integral type, explicit discriminants 0 and 2^31−1, doc comments with links / see tags /
                `@param` / continuation lines — each × every source/reference split × 3 argument lists
    nomodule    programs that contain files without a module declaration (skipped by `encode_generate_code_request`)
    prog        `genProgram` programs without doc comments × every split × 1 argument list (rotating)
    docs        `genProgram` programs + generated doc comments (overview lines, links, `@see`, `@param`) × splits
    args        one program × the whole argument catalogue
    regress-d08a  operations with `@returns` documentation (the witnesses of the repaired D-08a)
  `genC08p` (used by procrun/c08.py through `drv gen C08p`): <family> <refs> <args> <files hex> <expected hex> for the
  real binary; paths are `f<i>.slice`.
-/
import SlicecVerif.Model.Request
import SlicecVerif.Drv.Prog

namespace Slicec.Drv.C08d

open Slicec Slicec.Drv

/-- all subsets of `[0, n)` as ascending index lists, the empty one first -/
def splitsOf : Nat → List (List Nat)
  | 0 => [[]]
  | n + 1 => (splitsOf n).flatMap fun s => [s, s ++ [n]]

def hexRaw (s : String) : String := let h := hexOfString s; if h == "-" then "" else h

def projName (refs : List Nat) (args : Option (List (String × String))) : String :=
  "c08:request" ++ (if refs.isEmpty then "" else ";r=" ++ ".".intercalate (refs.map toString)) ++
  (match args with
   | none => ""
   | some a => ";a=" ++ ",".intercalate (a.map fun (k, v) => hexRaw k ++ ":" ++ hexRaw v))

def long (n : Nat) (c : Char) : String := String.ofList (List.replicate n c)

def genArgLists : List (List (String × String)) :=
  [[], [("a", "1")], [("key", "")], [("k", "v"), ("k", "w")], [("é✓", "ü"), ("b", "x y")],
   [("namespace", "A.B"), ("out", "/tmp/x"), ("flag", "")], [(long 70 'k', long 20000 'v')],
   (List.range 70).map fun i => ("k" ++ toString i, toString i)]

def reqFiles (pathOf : Nat → String) (refs : List Nat) (p : Program) : List ReqFile :=
  p.zipIdx.map fun (f, i) => { path := pathOf i, isSource := !refs.contains i, file := f }

def stringPath (i : Nat) : String := "string-" ++ toString i

def texts (style seed : Nat) (p : Program) : List String :=
  p.zipIdx.map fun (f, i) => (render style (seed + i) (fileItems f)).1

def emitCase (o : Out) (fam : String) (mode : DocMode) (p : Program) (refs : List Nat)
    (args : Option (List (String × String))) (style seed : Nat) : IO Unit :=
  o.line (compileCase fam (projName refs args) "-" (texts style seed p)
    (requestObservation mode (reqFiles stringPath refs p) args))

/-! ### hand-written programs -/

def mkOp (doc : List String) (attrs : List Attr) (idempotent : Bool) (name : String) (params : List Param) (ret : Ret) : Op :=
  { doc := doc, attrs := attrs, idempotent := idempotent, name := name, params := params, ret := ret }

def tr (ty : TyExpr) (opt : Bool := false) (attrs : List Attr := []) : TRef := .mk attrs ty opt
def pr (p : Prim) : TyExpr := .prim p
def lit (v : Int) (base : Nat := 10) : IntLit := ⟨decide (v < 0), base, v.natAbs, false⟩
def fld (name : String) (ty : TRef) (tag : Option Int := none) (doc : List String := []) (attrs : List Attr := []) : Field :=
  { doc := doc, attrs := attrs, tag := tag.map (lit ·), name := name, ty := ty }
def prm (name : String) (ty : TRef) (tag : Option Int := none) (stream : Bool := false) (attrs : List Attr := []) : Param :=
  { attrs := attrs, tag := tag.map (lit ·), name := name, stream := stream, ty := ty }
def enr (name : String) (value : Option Int := none) (fields : Option (List Field) := none) (doc : List String := [])
    (attrs : List Attr := []) : Enumerator :=
  { doc := doc, attrs := attrs, name := name, fields := fields, value := value.map (lit ·) }
def file (modPath : String) (defs : List Def) (fileAttrs : List Attr := []) (modAttrs : List Attr := []) : SFile :=
  { fileAttrs := fileAttrs, module := some ⟨modAttrs, modPath⟩, defs := defs }

def tagMax : Int := 2147483647

/-- drop enumerators whose value repeats an earlier one (for unsigned types `Lo` = 0 = `Zero`) -/
def dedupEnumerators (es : List Enumerator) : List Enumerator :=
  let vals := enumValues none es
  let rec go : List (Enumerator × Int) → List Int → List Enumerator
    | [], _ => []
    | (e, v) :: rest, seen => if seen.contains v then go rest seen else e :: go rest (v :: seen)
  go (es.zip vals) []

def handPrograms : List (String × Program) :=
  let d3 : TRef := tr (.seq (tr (.dict (tr (pr .string)) (tr (.result (tr (pr .int32) true) (tr (pr .string))) true)) true))
  [ ("empty-module", [file "M" []]),
    ("struct-basic", [file "M" [.struct [] [] false "S" [fld "a" (tr (pr .int32)), fld "b" (tr (pr .string) true)]]]),
    ("struct-compact", [file "A::B" [.struct [] [] true "S" [fld "a" (tr (pr .bool))]]]),
    ("tags", [file "M" [.struct [] [] false "S" [fld "a" (tr (pr .int32) true) (some 0), fld "b" (tr (pr .string) true) (some tagMax),
                                                   fld "c" (tr (pr .uint8) true) (some 31), fld "d" (tr (pr .uint8) true) (some 32),
                                                   fld "e" (tr (pr .uint8) true) (some 8191), fld "f" (tr (pr .uint8) true) (some 8192),
                                                   fld "g" (tr (pr .uint8) true) (some 536870911), fld "h" (tr (pr .uint8) true) (some 536870912)]]]),
    ("anon-depth3", [file "M" [.struct [] [] false "S" [fld "x" d3, fld "y" (tr (.seq (tr (pr .bool)))), fld "z" d3]]]),
    ("anon-in-all-places",
      [file "M" [.alias [] [] "T" (tr (.seq (tr (pr .int8)))),
                 .iface [] [] "I" [] [mkOp [] [] true "op" ([prm "p" (tr (.seq (tr (pr .bool)))), prm "q" (tr (.dict (tr (pr .int32)) (tr (.named "T")))) ]) (.tuple [prm "r" (tr (.result (tr (pr .bool)) (tr (pr .string)))), prm "s" (tr (.named "T") true [⟨"cs::attr", ["x"]⟩]) (some 1)])],
                 .enum [] [] false false "V" none [enr "A" none (some [fld "f" (tr (.seq (tr (.seq (tr (pr .bool))))))]), enr "B"]]]),
    ("alias-chain-across-files",
      [file "A" [.alias [] [] "T1" (tr (.seq (tr (pr .string) true)) false [⟨"cs::a1", []⟩])],
       file "A::B" [.alias [] [] "T2" (tr (.named "T1") false [⟨"cs::a2", ["x"]⟩]),
                    .struct [] [] false "S" [fld "f" (tr (.named "T2") true [⟨"cs::a3", []⟩]) (some 7), fld "g" (tr (.named "::A::T1"))]],
       file "C" [.struct [] [] false "U" [fld "h" (tr (.named "A::B::T2")), fld "i" (tr (.named "A::B::S") true),
                                           fld "j" (tr (.dict (tr (pr .uint8)) (tr (.named "::A::T1"))))]]]),
    ("alias-of-prim-and-named",
      [file "M" [.alias [] [] "P" (tr (pr .varuint62)), .custom [] [] "C", .alias [] [] "Q" (tr (.named "C")),
                 .struct [] [] false "S" [fld "a" (tr (.named "P")), fld "b" (tr (.named "Q") true), fld "c" (tr (.seq (tr (.named "Q"))))],
                 .enum [] [] false true "E" (some (tr (.named "P"))) [enr "A" (some 4611686018427387903)]]]),
    ("interfaces",
      [file "M" [.iface [] [] "Base" [] [],
                 .iface [] [] "Other" [] [mkOp ([]) ([]) false "o" ([]) (.none)]],
       file "N" [.iface [] [] "D" [tr (.named "M::Base"), tr (.named "::M::Other")]
                   [mkOp ([]) ([⟨"oneway", []⟩]) false "a" ([prm "x" (tr (pr .int32))]) (.none),
                    mkOp ([]) ([⟨"compress", ["Return", "Args"]⟩, ⟨"slicedFormat", ["Args"]⟩]) true "b" ([prm "x" (tr (pr .int32)), prm "s" (tr (pr .uint8)) none true]) (.single none true (tr (pr .string))),
                    mkOp ([]) ([]) false "c" ([]) (.single (some (lit 3)) false (tr (pr .string) true))]]]),
    ("builtin-attributes",
      [file "M" [.struct [] [⟨"deprecated", ["use T"]⟩, ⟨"allow", ["Deprecated", "All"]⟩] false "S" [fld "a" (tr (pr .bool)) none [] [⟨"deprecated", []⟩]],
                 .custom [] [⟨"cs::type", ["System.Int32"]⟩, ⟨"cs::x", ["a b", "", "q\"uote", "back\\slash"]⟩] "C"]
            [⟨"allow", ["All"]⟩, ⟨"cs::file", ["1"]⟩] [⟨"cs::identifier", ["Foo.Bar"]⟩]]),
    ("enum-extremes", [file "M" (integralPrims.zipIdx.map fun (p, i) =>
        let (lo, hi) := primBounds p
        Def.enum [] [] false (i % 2 == 0) ("E" ++ p.kw) (some (tr (pr p)))
          (dedupEnumerators [enr "Lo" (some lo), enr "Zero" (some 0), enr "Next", enr "NearHi" (some (hi - 1)), enr "Hi" (some hi)]))]),
    ("enum-empty-unchecked", [file "M" [.enum [] [] false true "E" (some (tr (pr .uint8))) [], .enum [] [] false true "V" none []]]),
    ("variant-discriminants",
      [file "M" [.enum [] [] false false "V" none [enr "A" (some 0), enr "B" (some 5) (some []), enr "C" none (some [fld "x" (tr (pr .bool))]),
                                                    enr "D" (some tagMax) (some [fld "y" (tr (pr .string) true) (some 0), fld "z" (tr (pr .int8))])],
                 .enum [] [] true false "W" none [enr "A" none (some [fld "x" (tr (.seq (tr (pr .bool))))]), enr "B"]]]),
    ("same-name-across-modules",
      [file "Geometry" [.struct [] [] false "Point" [fld "x" (tr (pr .float64)), fld "y" (tr (pr .float64))], .custom [] [] "Id",
                        .enum [] [] false false "Kind" (some (tr (pr .uint8))) [enr "A"]],
       file "Screen" [.struct [] [] true "Point" [fld "x" (tr (pr .int32)), fld "y" (tr (pr .int32))], .enum [] [] false false "Id" (some (tr (pr .uint8))) [enr "Red", enr "Green"],
                      .custom [] [] "Kind"],
       file "Drawing" [.struct [] [] false "Segment" [fld "start" (tr (.named "Geometry::Point")), fld "end" (tr (.named "Geometry::Point"))],
                       .struct [] [] false "Blit" [fld "source" (tr (.named "Geometry::Point")), fld "target" (tr (.named "Screen::Point")),
                                                    fld "tint" (tr (.named "Screen::Id")), fld "id" (tr (.named "Geometry::Id") true),
                                                    fld "k1" (tr (.named "Screen::Kind")), fld "k2" (tr (.named "Geometry::Kind"))],
                       .iface [] [] "Canvas" [] [mkOp [] [] false "project" [prm "p" (tr (.named "Geometry::Point"))]
                                                   (.single none false (tr (.seq (tr (.named "Screen::Point")))))],
                       .struct [] [] false "Point" [fld "g" (tr (.named "Geometry::Point")), fld "s" (tr (.named "Screen::Point"))]]]),
    ("keywords-as-names",
      [file "M" [.struct [] [] false "struct" [fld "string" (tr (pr .string)), fld "tag" (tr (pr .bool))],
                 .struct [] [] false "S" [fld "module" (tr (.named "struct"))]]]),
    ("docs-overview",
      [file "M" [.struct [" First line.", " second {@link S::a} line", "", "   indented more"] [] false "S"
                   [fld "a" (tr (pr .bool)) none [" a field {@link M::S}", " @see S", " @see ::M::T"]],
                 .alias [" An alias of {@link bool} and {@link Nope::X} {not a tag} x"] [] "T" (tr (pr .bool)),
                 .custom [" {@link S} starts the line", "   and this line keeps its blanks"] [] "C",
                 .enum [" e"] [] false false "E" (some (tr (pr .uint8))) [enr "X" none none [" x {@link E}", " @see X"]]]]),
    ("docs-params",
      [file "M" [.iface [" I"] [] "I" []
                  [mkOp [" Does it.", " @param a: the {@link I} a", "   continued", " @param b", " @param zz: no such parameter", " @see op"]
                     [] false "op" [prm "a" (tr (pr .bool)), prm "b" (tr (pr .bool)), prm "c" (tr (pr .bool))] .none,
                   mkOp [" @param a: only a"] [] false "op2" [prm "a" (tr (.seq (tr (pr .bool))))] (.tuple [prm "x" (tr (pr .bool)), prm "y" (tr (pr .bool))])]]]),
    ("docs-link-kinds",
      [file "A::B" [.struct [] [] false "S" [fld "f" (tr (pr .bool))],
                    .iface [" {@link S::f} {@link op} {@link I::op::p} {@link B} {@link A::B::S} {@link ::A::B::E::X} {@link string}"] [] "I" []
                      [mkOp ([" {@link p} {@link S} {@link I}"]) ([]) false "op" ([prm "p" (tr (pr .bool))]) (.none)],
                    .enum [] [] false false "E" none [enr "X" none (some [fld "g" (tr (pr .bool)) none [" {@link X} {@link g} {@link E::X::g}"]])]]]) ]

/-- string lengths and element counts at the boundaries of the variable-length size encoding (1 byte up to 63, 2 bytes up to 16 383,
    4 bytes beyond): identifiers, doc-comment lines, attribute arguments; numbers of fields, enumerators, definitions -/
def sizePrograms (tier : Tier) : List (String × Program) :=
  let strLens := [61, 62, 63, 64, 65, 16381, 16382, 16383, 16384, 16385, 16386]
  let counts := if tier == .thorough then [63, 64, 65, 16383, 16384, 16385] else [63, 64, 65, 16384]
  strLens.flatMap (fun n =>
    [("ident-" ++ toString n, [file "M" [.struct [] [] false (long n 'a') [fld "f" (tr (pr .bool))]]]),
     ("doc-" ++ toString n, [file "M" [.struct [" " ++ long n 'd'] [] false "S" [fld "f" (tr (pr .bool)) none [long n 'e', " @see S"]]]]),
     ("attr-" ++ toString n, [file "M" [.custom [] [⟨"cs::a", [long n 'x', ""]⟩] "C"]])]) ++
  counts.flatMap (fun n =>
    [("fields-" ++ toString n, [file "M" [.struct [] [] false "S" ((List.range n).map fun i => fld ("f" ++ toString i) (tr (pr .bool)))]]),
     ("enumerators-" ++ toString n, [file "M" [.enum [] [] false false "E" (some (tr (pr .uint16))) ((List.range n).map fun i => enr ("X" ++ toString i))]]),
     ("definitions-" ++ toString n, [file "M" ((List.range n).map fun i => Def.custom [] [] ("C" ++ toString i))])])

def nomodulePrograms : List (String × Program) :=
  let m : SFile := file "M" [.struct [] [] false "S" [fld "a" (tr (pr .bool))]]
  let e : SFile := { fileAttrs := [], module := none, defs := [] }
  [("only-empty", [e]), ("empty-first", [e, m]), ("empty-last", [m, e]), ("empty-middle", [m, e, file "N" [.custom [] [] "C"]]), ("two-empty", [e, e])]

/-! ### generated doc comments -/

/-- names a comment on an element of file `fi` may link to: every definition and member of the program -/
def linkTargets (p : Program) : List String :=
  p.flatMap fun f =>
    let m := match f.module with | some m => m.path | none => ""
    f.defs.flatMap fun d =>
      let k := scopedId d.name m
      [d.name, k, "::" ++ k] ++
      (match d with
       | .struct _ _ _ _ fs => fs.map fun x => d.name ++ "::" ++ x.name
       | .iface _ _ _ _ ops => ops.map fun x => k ++ "::" ++ x.name
       | .enum _ _ _ _ _ _ es => es.map fun x => "::" ++ k ++ "::" ++ x.name
       | _ => [])

def genDocLines (targets : List String) (params rets : List String) : G (List String) := do
  if ← coin 1 2 then return []
  let words := ["A doc line.", "second line", "ünïcode ✓ text", "with, punctuation; and: colons", "braces { are } text", "x"]
  let link : G String := do
    if targets.isEmpty || (← coin 1 6) then pickG ["{@link Missing}", "{@link bool}", "{@link ::No::Such}"]
    else return "{@link " ++ (← pickG targets) ++ "}"
  let msg : G String := do
    let n ← below 3
    let mut s := ← pickG words
    for _ in [0:n] do
      s := s ++ (← pickG [" ", "  ", ""]) ++ (← link) ++ (← pickG ["", " ", " and " ]) ++ (← pickG ["", "more", "✓"])
    return s
  let mut ls : List String := []
  let nOv ← below 4
  let lead ← pickG [" ", " ", "  ", ""]
  for i in [0:nOv] do
    let c ← below 8
    if c == 0 && i > 0 then ls := ls ++ [""]
    else if c == 1 then ls := ls ++ [lead ++ "  " ++ (← msg)]
    else if c == 2 && i > 0 then ls := ls ++ [lead ++ (← link) ++ " " ++ (← msg)]
    else ls := ls ++ [lead ++ (← msg)]
  for pn in params do
    if ← coin 2 3 then
      let c ← below 4
      if c == 0 then ls := ls ++ [" @param " ++ pn]
      else ls := ls ++ [" @param " ++ pn ++ ":" ++ (← pickG [" ", "", "   "]) ++ (← msg)]
      if ← coin 1 4 then ls := ls ++ ["   " ++ (← msg)]
  if !params.isEmpty && (← coin 1 8) then ls := ls ++ [" @param nosuch: " ++ (← msg)]
  -- `@returns` tags: by identifier, unnamed, now and then for a name that is no return member
  for rn in rets do
    if ← coin 2 3 then
      let c ← below 4
      if c == 0 then ls := ls ++ [" @returns " ++ rn]
      else if c == 1 && rets.length == 1 then ls := ls ++ [" @returns:" ++ (← pickG [" ", "", "  "]) ++ (← msg)]
      else ls := ls ++ [" @returns " ++ rn ++ ":" ++ (← pickG [" ", "", "   "]) ++ (← msg)]
      if ← coin 1 4 then ls := ls ++ ["   " ++ (← msg)]
  if !params.isEmpty && !rets.isEmpty && (← coin 1 6) then ls := ls ++ [" @returns " ++ (← pickG params) ++ ": " ++ (← msg)]
  let nSee ← pickG [0, 0, 1, 2]
  for _ in [0:nSee] do
    if targets.isEmpty || (← coin 1 6) then ls := ls ++ [" @see Missing"]
    else ls := ls ++ [" @see " ++ (← pickG targets)]
  return ls

/-- put generated doc comments on every commentable element of a doc-less program -/
def addDocs (p : Program) : G Program := do
  let targets := (linkTargets p).filter fun s => (s.splitOn "::").all fun seg => !(keywords.contains seg)
  let docF (fs : List Field) : G (List Field) := fs.mapM fun f => do return { f with doc := ← genDocLines targets [] [] }
  p.mapM fun f => do
    let defs ← f.defs.mapM fun d => do
      match d with
      | .struct _ a c n fs => return Def.struct (← genDocLines targets [] []) a c n (← docF fs)
      | .iface _ a n b ops =>
        let ops ← ops.mapM fun o => do
          let ps := (o.params.map (·.name)).filter fun s => !(keywords.contains s)
          let rnames : List String := match o.ret with
            | .none => []
            | .single .. => ["returnValue"]
            | .tuple ms => ms.map fun (m : Param) => m.name
          let rs := rnames.filter fun s => !(keywords.contains s)
          return { o with doc := ← genDocLines targets ps rs }
        return Def.iface (← genDocLines targets [] []) a n b ops
      | .enum _ a c u n ul es =>
        let es ← es.mapM fun e => do
          let fs ← (match e.fields with | some fs => do pure (some (← docF fs)) | none => pure none)
          return { e with doc := ← genDocLines targets [] [], fields := fs }
        return Def.enum (← genDocLines targets [] []) a c u n ul es
      | .custom _ a n => return Def.custom (← genDocLines targets [] []) a n
      | .alias _ a n t => return Def.alias (← genDocLines targets [] []) a n t
    return { f with defs := defs }

/-- variant enums of generated programs get explicit discriminants now and then (0, 2^31−1, gaps) -/
def spiceDiscriminants (p : Program) : G Program :=
  p.mapM fun f => do
    let defs ← f.defs.mapM fun d => do
      match d with
      | .enum doc a c u n none es =>
        if es.isEmpty || !(← coin 1 2) then return d
        let step ← pickG [1, 1, 2]
        let start ← pickG [0, 0, 1, 7, 1000, 2147483647 - (es.length - 1) * step]
        let es' := es.zipIdx.map fun (e, i) =>
          { e with value := if i == 0 || step != 1 then some (lit (start + i * step : Nat)) else none }
        return Def.enum doc a c u n none es'
      | _ => return d
    return { f with defs := defs }

/-! ### D-08a: documentation of return members -/

def d08aPrograms : List (String × Program) :=
  let op (doc : List String) (params : List Param) (ret : Ret) : Def :=
    .iface [] [] "I" [] [mkOp (doc) ([]) false "op" (params) (ret)]
  [ ("returns-single", [file "M" [op [" Does it.", " @returns: the answer"] [prm "a" (tr (pr .bool))] (.single none false (tr (pr .string)))]]),
    ("returns-tuple", [file "M" [op [" @returns x: first", " @returns y: second {@link I}"] [] (.tuple [prm "x" (tr (pr .bool)), prm "y" (tr (pr .bool))])]]),
    ("return-named-like-param",
      [file "M" [op [" @param a: the parameter", " @returns a: the return value"] [prm "a" (tr (pr .bool))]
                    (.tuple [prm "a" (tr (pr .string)), prm "b" (tr (pr .string))])]]),
    ("return-named-like-param-no-returns-doc",
      [file "M" [op [" @param a: the parameter"] [prm "a" (tr (pr .bool))] (.tuple [prm "a" (tr (pr .string)), prm "b" (tr (pr .string))])]]) ]

end Slicec.Drv.C08d

namespace Slicec.Drv

open Slicec Slicec.Drv.C08d

structure C08Case where
  fam : String
  mode : DocMode
  prog : Program
  refs : List Nat
  args : List (String × String)
  style : Nat
  seed : Nat

/-- the case list shared by the in-process stream (`C08`) and the binary stream (`C08p`, a sample) -/
def c08Cases (tier : Tier) (seed : Nat) : List C08Case := Id.run do
  let mut out : List C08Case := []
  let argN := genArgLists.length
  -- hand-written programs × every split × 3 argument lists
  let mut k := 0
  for (_, p) in handPrograms do
    for refs in splitsOf p.length do
      for a in [0, 1, 2] do
        out := ⟨"hand", DocMode.current, p, refs, genArgLists.getD ((k + a) % argN) [], (k + a) % 3, seed * 100 + k⟩ :: out
      k := k + 1
  for (_, p) in nomodulePrograms do
    for refs in splitsOf p.length do
      out := ⟨"nomodule", DocMode.current, p, refs, genArgLists.getD (k % argN) [], 0, seed⟩ :: out
      k := k + 1
  for (_, p) in sizePrograms tier do
    out := ⟨"sizes", DocMode.current, p, [], genArgLists.getD (k % argN) [], k % 3, seed⟩ :: out
    k := k + 1
  -- the whole argument catalogue on one program
  for a in genArgLists do
    out := ⟨"args", DocMode.current, (handPrograms.getD 1 default).2, [], a, 0, seed⟩ :: out
  -- generated programs
  let nProg := if tier == .thorough then 8000 else 600
  let mut r := Rng.mk' (seed + 8)
  for i in [0:nProg] do
    let cfg : GenCfg := { maxFiles := 1 + i % 3, maxDefs := 1 + i % 5, typeDepth := [3, 1, 2, 0, 3].getD (i % 5) 3, docs := false }
    let (p0, r1) := genProgram cfg r
    let withDocs := i % 2 == 1
    let act : G Program := do
      let p ← spiceDiscriminants p0
      if withDocs then addDocs p else return p
    let (p, st) := act.run { rng := r1, cfg := cfg }
    r := st.rng
    let splits := splitsOf p.length
    let mut j := 0
    for refs in splits do
      out := ⟨if withDocs then "docs" else "prog", DocMode.current, p, refs, genArgLists.getD ((i + j) % 6) [], (i + j) % 3, seed * 1000 + i⟩ :: out
      j := j + 1
  for (_, p) in d08aPrograms do
    out := ⟨"regress-d08a", DocMode.current, p, [], [], 0, seed⟩ :: out
  return out.reverse

def genC08 (tier : Tier) (seed : Nat) (o : Out) : IO Unit := do
  for c in c08Cases tier seed do
    emitCase o c.fam c.mode c.prog c.refs (some c.args) c.style c.seed

def binPath (i : Nat) : String := "f" ++ toString i ++ ".slice"

/-- cases for the real binary (procrun/c08.py): `<fam> <refs i.j|-> <args hexk:hexv,…|-> <files hex|hex> <expected hex>`;
    paths as given on the command line (`f<i>.slice`); the compiler lists sources before references -/
def genC08p (tier : Tier) (seed : Nat) (o : Out) : IO Unit := do
  let all := c08Cases .quick seed
  let want := if tier == .thorough then 400 else 120
  let hand := all.filter fun c => c.fam != "prog" && c.fam != "docs"
  let gen := all.filter fun c => c.fam == "prog" || c.fam == "docs"
  let stepH := max 1 (hand.length / (want / 3))
  let stepG := max 1 (gen.length / (want - want / 3))
  let pick (l : List C08Case) (step : Nat) : List C08Case := (l.zipIdx.filter fun (_, i) => i % step == 0).map (·.1)
  for c in pick hand stepH ++ pick gen stepG do
    -- the binary compiles sources first, then references, each in the order given
    let idx := List.range c.prog.length
    let order := idx.filter (fun i => !c.refs.contains i) ++ idx.filter (fun i => c.refs.contains i)
    let fs : List ReqFile := order.map fun i => { path := binPath i, isSource := !c.refs.contains i, file := c.prog.getD i default }
    let txt := texts c.style c.seed c.prog
    let argS := if c.args.isEmpty then "-" else ",".intercalate (c.args.map fun (k, v) => hexRaw k ++ ":" ++ hexRaw v)
    o.line (tab ["bin", c.fam, if c.refs.isEmpty then "-" else ".".intercalate (c.refs.map toString), argS,
      "|".intercalate (txt.map hexOfString), requestObservation c.mode fs (some c.args)])

end Slicec.Drv
