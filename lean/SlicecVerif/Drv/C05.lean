/- Cases for C05 (cycle detection): containment graphs, alias graphs, inheritance graphs, printed as Slice programs.
   Engine `compile`, projections `c05:cycles`, `c05:alias`, `c05:inherit` (harness/src/proj_c05.rs). -/
import SlicecVerif.Model.Cycles
import SlicecVerif.Drv.Prog

namespace Slicec.Drv.C05

open Slicec Slicec.Cyc Slicec.Drv

/-! ## abstract graph → program -/

/-- a node of a generated containment graph: struct or enum, and the containment view of its fields -/
structure NSpec where
  isEnum : Bool
  fields : List CTy
  deriving Inhabited

abbrev GSpec := List NSpec

def nodeName (g : GSpec) (i : Nat) : String := (if (g.getD i default).isEnum then "E" else "S") ++ toString i

partial def trefOfTy (g : GSpec) : CTy → TRef
  | .node j => .mk [] (.named (nodeName g j)) false
  | .terminal => .mk [] (.prim .int32) false
  | .opt t => match trefOfTy g t with | .mk a ty _ => .mk a ty true
  | .seq t => .mk [] (.seq (trefOfTy g t)) false
  | .dict k v => .mk [] (.dict (trefOfTy g k) (trefOfTy g v)) false
  | .result s f => .mk [] (.result (trefOfTy g s) (trefOfTy g f)) false

def mkField (name : String) (ty : TRef) : Field := { doc := [], attrs := [], tag := none, name := name, ty := ty }

def defOfNode (g : GSpec) (i : Nat) (nd : NSpec) : Def :=
  let fs := nd.fields.zipIdx.map fun (t, k) => mkField ("f" ++ toString k) (trefOfTy g t)
  if nd.isEnum then
    .enum [] [] false false (nodeName g i) none
      ((fs.zipIdx.map fun (f, k) => { doc := [], attrs := [], name := "X" ++ toString k, fields := some [f], value := none : Enumerator }) ++
       [{ doc := [], attrs := [], name := "Z", fields := none, value := none : Enumerator }])
  else .struct [] [] false (nodeName g i) fs

def fileOf (defs : List Def) : SFile := { fileAttrs := [], module := some ⟨[], "M"⟩, defs := defs }

def programOfGraph (g : GSpec) : Program := [fileOf (g.zipIdx.map fun (nd, i) => defOfNode g i nd)]

/-- the graph the program is meant to have (independent of Model/Resolve.lean) -/
def graphOfSpec (g : GSpec) : Graph :=
  g.zipIdx.map fun (nd, i) =>
    { name := "M::" ++ nodeName g i, isEnum := nd.isEnum,
      fields := nd.fields.zipIdx.map fun (t, k) => { name := "f" ++ toString k, ty := t } }

/-! ## rendering of the observation -/

def sortStrings (l : List String) : List String := (l.toArray.qsort (· < ·)).toList

def nameOf (g : Graph) (i : Nat) : String := (g.getD i default).name
def fieldNameOf (g : Graph) (i k : Nat) : String := ((g.getD i default).fields.getD k default).name

/-- `root:c0.f0,c1.f1,…` — the type being checked and, link by link, the holder of the field and the field -/
def reportS (g : Graph) (r : Report) : String :=
  nameOf g r.root ++ ":" ++ ",".intercalate (r.stack.map fun e => nameOf g e.container ++ "." ++ fieldNameOf g e.container e.field)

def listS (l : List String) : String := "[" ++ "|".intercalate l ++ "]"

def cyclesS (g : Graph) (reports : List Report) (e019 : List String) (oncycle : List Nat) : String :=
  "E032=" ++ listS (sortStrings (reports.map (reportS g))) ++ ";E019=" ++ listS (sortStrings e019) ++
  ";oncycle=" ++ listS (sortStrings (oncycle.map (nameOf g))) ++ " oracle=ok"

def textOf (p : Program) : List String := p.map fun f => (render 0 0 (fileItems f)).1

/-- the property's predicate on the *model's* reports, from the abstract graph (K line if the model itself breaks it) -/
def modelOracle (gs : Graph) (reports : List Report) : Option String :=
  let E := edges gs
  let n := gs.length
  let cyc := onCycle E n
  if reports.any (fun r => !(chainOk E r.root r.root r.stack)) then some "a reported chain is not a closed path of fields"
  else if cyc.any (fun a => !(reports.any fun r => r.ids.contains a)) then some "a type on a cycle is not named by any report"
  else if cyc.isEmpty && !reports.isEmpty then some "a report for an acyclic graph"
  else none

/-- one containment case; `runModel = false` (dense-big only): the expectation is what the property demands for an
    acyclic graph, the detector model is not run -/
def emitGraph (o : Out) (fam : String) (g : GSpec) (runModel : Bool := true) : IO Unit := do
  let p := programOfGraph g
  let gs := graphOfSpec g
  let texts := textOf p
  let cyc := onCycle (edges gs) gs.length
  if runModel then
    let gm := graphOfProgram p
    if gm != gs then
      o.line (tab ["K", "C05", fam, "|".intercalate (texts.map hexOfString), "graphOfProgram differs from the generated graph"])
    let reports := detectCycles gm
    match modelOracle gs reports with
    | some why => o.line (tab ["K", "C05", fam, "|".intercalate (texts.map hexOfString), why])
    | none => pure ()
    o.line (compileCase fam "c05:cycles" "-" texts (cyclesS gm reports (e019s p) cyc))
  else
    o.line (compileCase fam "c05:cycles" "-" texts (cyclesS gs [] [] cyc))

/-! ## families -/

/-- the 8 ways an edge to `t` is written -/
def wrap (w : Nat) (t : CTy) : CTy :=
  match w % 8 with
  | 0 => t
  | 1 => .opt t
  | 2 => .seq t
  | 3 => .seq (.opt t)
  | 4 => .dict .terminal t
  | 5 => .dict t .terminal
  | 6 => .result t .terminal
  | _ => .result .terminal t

def bit (m i : Nat) : Bool := (m >>> i) % 2 == 1

/-- graph on `n` nodes from an adjacency mask (bit `i*n+j` = edge i → j), every edge through wrapper `w`,
    node kinds from `kinds` -/
def graphOfMask (n mask w kinds : Nat) : GSpec :=
  (List.range n).map fun i =>
    let fs := (List.range n).filterMap fun j => if bit mask (i * n + j) then some (wrap w (.node j)) else none
    { isEnum := bit kinds i, fields := if fs.isEmpty then [.terminal] else fs }

def denseGraph (n : Nat) : GSpec :=
  (List.range n).map fun i =>
    { isEnum := false, fields := ((List.range n).filter (· > i)).map fun j => CTy.node j }

/-- multiplicities 0..2 for each of the 4 edges of a 2-node graph; a double edge is written as two fields
    (different wrappers) or as one field with two leaves -/
def multiGraph (code w : Nat) : GSpec :=
  (List.range 2).map fun i =>
    let fs := (List.range 2).flatMap fun j =>
      let m := (code / 3 ^ (i * 2 + j)) % 3
      if m == 0 then [] else if m == 1 then [wrap w (.node j)]
      else if w % 3 == 0 then [wrap w (.node j), wrap (w + 3) (.node j)]
      else if w % 3 == 1 then [CTy.dict (.node j) (.node j)]
      else [CTy.result (.seq (.node j)) (.opt (.node j))]
    { isEnum := bit w (i + 1), fields := if fs.isEmpty then [.terminal] else fs }

/-- a leaf: a node (any when `lo = 0`; otherwise mostly one behind `lo`, which keeps many graphs acyclic) or a terminal -/
def genLeaf (n lo : Nat) (r : Rng) : CTy × Rng :=
  let (c, r) := r.below 4
  if c == 0 then (.terminal, r)
  else
    let (back, r) := r.below 12
    if lo == 0 || back == 0 then let (j, r) := r.below n; (.node j, r)
    else if lo < n then let (j, r) := r.below (n - lo); (.node (lo + j), r)
    else (.terminal, r)

def genTy (n lo : Nat) : Nat → Bool → Rng → CTy × Rng
  | 0, _, r => genLeaf n lo r
  | d + 1, allowOpt, r =>
    let (c, r) := r.below 10
    if c < 4 then genLeaf n lo r
    else if c == 4 && allowOpt then let (t, r) := genTy n lo d false r; (.opt t, r)
    else if c < 7 then let (t, r) := genTy n lo d true r; (.seq t, r)
    else if c < 9 then let (k, r) := genTy n lo d true r; let (v, r) := genTy n lo d true r; (.dict k v, r)
    else let (s, r) := genTy n lo d true r; let (f, r) := genTy n lo d true r; (.result s f, r)

def genRandGraph (r : Rng) : GSpec × Rng := Id.run do
  let mut r := r
  let (n, r1) := r.below 10
  let (fwd, r0) := r1.below 2
  r := r0
  let n := n + 1
  let mut g : GSpec := []
  for i in [0:n] do
    let (nf, r2) := r.below 4
    r := r2
    let (en, r3) := r.below 3
    r := r3
    let mut fs : List CTy := []
    for _ in [0:nf] do
      let (d, r4) := r.below 3
      let (t, r5) := genTy n (if fwd == 0 then 0 else i + 1) d true r4
      r := r5
      fs := fs ++ [t]
    g := g ++ [{ isEnum := en == 0, fields := if fs.isEmpty then [.terminal] else fs }]
  return (g, r)

/-! ## aliases -/

def aliasName (i : Nat) : String := "A" ++ toString i

/-- alias graph: `targets[i] = some j` ⇒ `typealias Ai = Aj`, `none` ⇒ `typealias Ai = int32`; one use site -/
def aliasProgram (targets : List (Option Nat)) (use : Option Nat) : Program :=
  let defs := targets.zipIdx.map fun (t, i) =>
    Def.alias [] [] (aliasName i) (match t with | some j => .mk [] (.named (aliasName j)) false | none => .mk [] (.prim .int32) false)
  let useDef := match use with
    | some k => [Def.struct [] [] false "U" [mkField "x" (.mk [] (.named (aliasName k)) false)]]
    | none => []
  [fileOf (defs ++ useDef)]

def aliasS (p : Program) : String :=
  let e := e019s p
  let n := e033Count p
  "E019=" ++ listS (sortStrings e) ++ ";E033=" ++ toString n ++ ";rejected=" ++ (if n > 0 || !e.isEmpty then "1" else "0")

/-- all functions {0..n-1} → {alias 0..n-1, int32}, encoded in base n+1 -/
def aliasTargets (n code : Nat) : List (Option Nat) :=
  (List.range n).map fun i => let d := (code / (n + 1) ^ i) % (n + 1); if d == n then none else some d

/-! ## interfaces -/

def ifaceName (i : Nat) : String := "I" ++ toString i

def ifaceProgram (ig : IGraph) : Program :=
  [fileOf (ig.zipIdx.map fun (bs, i) =>
    Def.iface [] [] (ifaceName i) (bs.map fun b => .mk [] (.named (ifaceName b)) false)
      [{ doc := [], attrs := [], idempotent := false, name := "op" ++ toString i, params := [], ret := .none : Op }])]

def igraphOfMask (n mask : Nat) : IGraph :=
  (List.range n).map fun i => (List.range n).filter fun j => bit mask (i * n + j)

def igEdges (ig : IGraph) : EdgeFn := fun i => (ig.getD i []).map fun b => (0, b)

def inheritS (ig : IGraph) : String :=
  let n := ig.length
  "accepted:" ++ "|".intercalate ((List.range n).map fun i =>
    ifaceName i ++ "=" ++ (match allBases ig (n + 1) i with
      | some bs => "[" ++ ",".intercalate (bs.map ifaceName) ++ "]"
      | none => "fuel"))

/-! ## the stream -/

def gen (tier : Tier) (seed : Nat) (o : Out) : IO Unit := do
  let thorough := tier == .thorough
  -- every graph on ≤ 3 nodes, every edge through each of the 8 wrapper forms; node kinds rotate
  for n in [1:4] do
    for mask in [0:2 ^ (n * n)] do
      for w in [0:8] do
        emitGraph o ("exh-" ++ toString n) (graphOfMask n mask w (mask + w + mask / 8))
  if thorough then
    -- every graph on 4 nodes, one wrapper form and one kind assignment each (rotating)
    for mask in [0:2 ^ 16] do
      emitGraph o "exh-4" (graphOfMask 4 mask (mask % 8 + mask / 256) (mask / 16 + mask))
  else
    let mut r := Rng.mk' (seed + 54)
    for _ in [0:1500] do
      let (mask, r1) := r.below (2 ^ 16)
      let (w, r2) := r1.below 8
      let (k, r3) := r2.below 16
      r := r3
      emitGraph o "exh-4-sample" (graphOfMask 4 mask w k)
  -- multi-edges on two nodes
  for code in [0:81] do
    for w in [0:6] do
      emitGraph o "multi" (multiGraph code w)
  -- dense DAGs: the detector's running time doubles with every struct (D-05b)
  for n in [1:(if thorough then 19 else 17)] do
    emitGraph o ("dense-" ++ toString n) (denseGraph n)
  -- random graphs ≤ 10 nodes, mixed wrappers, multi-edges, mixed struct/enum nodes
  let mut r := Rng.mk' (seed + 5)
  for _ in [0:(if thorough then 20000 else 2000)] do
    let (g, r') := genRandGraph r
    r := r'
    emitGraph o "rand" g
  -- alias graphs: every target function on ≤ 3 (thorough 4) aliases, every use site and none
  for n in [1:(if thorough then 5 else 4)] do
    for code in [0:(n + 1) ^ n] do
      let ts := aliasTargets n code
      for use in (none :: (List.range n).map some) do
        let p := aliasProgram ts use
        o.line (compileCase ("alias-" ++ toString n) "c05:alias" "-" (textOf p) (aliasS p))
  -- aliases whose underlying type is anonymous: every target function on ≤ 2 (thorough 3) aliases, every edge direct or
  -- through `Result<T, int32>` / `Sequence<Result<T, int32>>`. A loop through an anonymous type is not seen by the patcher
  -- (D-05c): those programs go to the known-finding family at the end of the stream
  let mut anonLoops : List String := []
  for n in [1:(if thorough then 4 else 3)] do
    for code in [0:(n + 1) ^ n] do
      for wcode in [0:3 ^ n] do
        let ts := aliasTargets n code
        let defs := ts.zipIdx.map fun (tg, i) =>
          let base : TRef := match tg with | some j => .mk [] (.named (aliasName j)) false | none => .mk [] (.prim .int32) false
          let i32 : TRef := .mk [] (.prim .int32) false
          let w := (wcode / 3 ^ i) % 3
          Def.alias [] [] (aliasName i)
            (if w == 0 then base else if w == 1 then .mk [] (.result base i32) false
             else .mk [] (.seq (.mk [] (.result base i32) false)) false)
        for use in (if thorough && n == 3 then [none] else none :: (List.range n).map some) do
          let useDef := match use with
            | some k => [Def.struct [] [] false "U" [mkField "x" (.mk [] (.named (aliasName k)) false)]]
            | none => []
          let p : Program := [fileOf (defs ++ useDef)]
          if anonLoop p && e033Count p == 0 then
            -- the patcher is silent, the validators then never return
            if (descendT (buildTable p) 400 "M" (.mk [] (.named (aliasName 0)) false)).isSome &&
               (List.range n).all (fun i => (descendT (buildTable p) 400 "M" (.mk [] (.named (aliasName i)) false)).isSome) then
              o.line (tab ["K", "C05", "alias-anon-loop", "|".intercalate ((textOf p).map hexOfString), "anonLoop holds but every descent ends"])
            -- repaired in /repo (D-05c): the cycle gate reports E019 for every alias from which a looping anonymous type is reachable
            anonLoops := anonLoops ++ [compileCase "alias-anon-loop" "c05:alias" "-" (textOf p)
              ("E019=" ++ listS (sortStrings (anonLoopAliases p)) ++ ";E033=0;rejected=1")]
          else
            o.line (compileCase ("alias-anon-" ++ toString n) "c05:alias" "-" (textOf p) (aliasS p))
  -- inheritance graphs: every graph on ≤ 3 (thorough 4) interfaces; acyclic ones are accepted with the model's base lists
  let mut inheritLoops : List String := []
  for n in [1:(if thorough then 5 else 4)] do
    for mask in [0:2 ^ (n * n)] do
      let ig := igraphOfMask n mask
      let loops := !(onCycle (igEdges ig) n).isEmpty
      if !loops then
        o.line (compileCase ("inherit-dag-" ++ toString n) "c05:inherit" "-" (textOf (ifaceProgram ig)) (inheritS ig))
      else if n ≤ 3 || mask % 64 == 21 then
        -- loops must be rejected (they overflow the stack instead: D-05a): every loop on ≤ 3 interfaces, a sample on 4
        inheritLoops := inheritLoops ++ [compileCase "inherit-loop" "c05:inherit" "-" (textOf (ifaceProgram ig)) "rejected"]
  /- known findings last (the runner prints only the first 200 DIFF lines of a run) -/
  -- 2^28 steps: longer than the 20 s watchdog of the engine; expected = what the property demands of an acyclic graph
  emitGraph o "dense-28" (denseGraph 28) (runModel := false)
  -- Sequence / Dictionary-value self-loops become a tail-call loop and hang (20 s each): thorough only
  if thorough then
    let a0 : TRef := .mk [] (.named "A0") false
    let i32 : TRef := .mk [] (.prim .int32) false
    for defs in [[Def.alias [] [] "A0" (.mk [] (.seq a0) false)],
                 [Def.alias [] [] "A0" (.mk [] (.dict i32 a0) false), Def.struct [] [] false "U" [mkField "x" a0]]] do
      anonLoops := anonLoops ++ [compileCase "alias-anon-loop" "c05:alias" "-" (textOf [fileOf defs])
        ("E019=" ++ listS (sortStrings (anonLoopAliases [fileOf defs])) ++ ";E033=0;rejected=1")]
  for l in anonLoops do o.line l
  for l in inheritLoops do o.line l

end Slicec.Drv.C05

def Slicec.Drv.genC05 (tier : Slicec.Drv.Tier) (seed : Nat) (o : Slicec.Drv.Out) : IO Unit := Slicec.Drv.C05.gen tier seed o
