/- Cases for C05 (cycle detection): containment graphs, alias graphs, inheritance graphs, printed as Slice programs.
   Engine `compile`, projections `c05:cycles`, `c05:alias`, `c05:inherit` (harness/src/proj_c05.rs). -/
import SlicecVerif.Model.Cycles
import SlicecVerif.Drv.Prog

namespace Slicec.Drv.C05

open Slicec Slicec.Cyc Slicec.Drv

/-! ## abstract graph → program -/

/-- a node of a generated containment graph: struct or enum, and the containment view of its fields -/
structure NSpec where
  isEnum : Bool
  fields : List CTy
  deriving Inhabited

abbrev GSpec := List NSpec

def nodeName (g : GSpec) (i : Nat) : String := (if (g.getD i default).isEnum then "E" else "S") ++ toString i

partial def trefOfTy (g : GSpec) : CTy → TRef
  | .node j => .mk [] (.named (nodeName g j)) false
  | .terminal => .mk [] (.prim .int32) false
  | .opt t => match trefOfTy g t with | .mk a ty _ => .mk a ty true
  | .seq t => .mk [] (.seq (trefOfTy g t)) false
  | .dict k v => .mk [] (.dict (trefOfTy g k) (trefOfTy g v)) false
  | .result s f => .mk [] (.result (trefOfTy g s) (trefOfTy g f)) false

def mkField (name : String) (ty : TRef) : Field := { doc := [], attrs := [], tag := none, name := name, ty := ty }

def defOfNode (g : GSpec) (i : Nat) (nd : NSpec) : Def :=
  -- every other optional field is written as a tagged field (`tag(k) fk: T?`): tags do not take a field out of the containment graph
  let fs := nd.fields.zipIdx.map fun (t, k) =>
    let f := mkField ("f" ++ toString k) (trefOfTy g t)
    match t with
    | .opt _ => if (i + k) % 2 == 0 then { f with tag := some ⟨false, 10, k, false⟩ } else f
    | _ => f
  if nd.isEnum then
    .enum [] [] false false (nodeName g i) none
      ((fs.zipIdx.map fun (f, k) => { doc := [], attrs := [], name := "X" ++ toString k, fields := some [f], value := none : Enumerator }) ++
       [{ doc := [], attrs := [], name := "Z", fields := none, value := none : Enumerator }])
  else .struct [] [] false (nodeName g i) fs

def fileOf (defs : List Def) : SFile := { fileAttrs := [], module := some ⟨[], "M"⟩, defs := defs }

def programOfGraph (g : GSpec) : Program := [fileOf (g.zipIdx.map fun (nd, i) => defOfNode g i nd)]

/-- the graph the program is meant to have (independent of Model/Resolve.lean) -/
def graphOfSpec (g : GSpec) : Graph :=
  g.zipIdx.map fun (nd, i) =>
    { name := "M::" ++ nodeName g i, isEnum := nd.isEnum,
      fields := nd.fields.zipIdx.map fun (t, k) => { name := "f" ++ toString k, ty := t } }

/-! ## rendering of the observation -/

def sortStrings (l : List String) : List String := (l.toArray.qsort (· < ·)).toList

def nameOf (g : Graph) (i : Nat) : String := (g.getD i default).name
def fieldNameOf (g : Graph) (i k : Nat) : String := ((g.getD i default).fields.getD k default).name

/-- `root:c0.f0,c1.f1,…` — the type being checked and, link by link, the holder of the field and the field -/
def reportS (g : Graph) (r : Report) : String :=
  nameOf g r.root ++ ":" ++ ",".intercalate (r.stack.map fun e => nameOf g e.container ++ "." ++ fieldNameOf g e.container e.field)

def listS (l : List String) : String := "[" ++ "|".intercalate l ++ "]"

def cyclesS (g : Graph) (reports : List Report) (e019 : List String) (oncycle : List Nat) : String :=
  "E032=" ++ listS (sortStrings (reports.map (reportS g))) ++ ";E019=" ++ listS (sortStrings e019) ++
  ";oncycle=" ++ listS (sortStrings (oncycle.map (nameOf g))) ++ " oracle=ok"

def textOf (p : Program) : List String := p.map fun f => (render 0 0 (fileItems f)).1

/-- the property's predicate on the *model's* reports, from the abstract graph (K line if the model itself breaks it) -/
def modelOracle (gs : Graph) (reports : List Report) : Option String :=
  let E := edges gs
  let n := gs.length
  let cyc := onCycle E n
  if reports.any (fun r => !(chainOk E r.root r.root r.stack)) then some "a reported chain is not a closed path of fields"
  else if cyc.any (fun a => !(reports.any fun r => r.ids.contains a)) then some "a type on a cycle is not named by any report"
  else if cyc.isEmpty && !reports.isEmpty then some "a report for an acyclic graph"
  else none

/-- one containment case; `checkSpec`: also run the detector as it was before dd206d7 (it walks every simple path, so
    only on graphs where that is affordable) and emit a K line if its reports differ (`prune_preserves_reports`) -/
def emitGraph (o : Out) (fam : String) (g : GSpec) (checkSpec : Bool := true) : IO Unit := do
  let p := programOfGraph g
  let gs := graphOfSpec g
  let texts := textOf p
  let cyc := onCycle (edges gs) gs.length
  let gm := graphOfProgram p
  if gm != gs then
    o.line (tab ["K", "C05", fam, "|".intercalate (texts.map hexOfString), "graphOfProgram differs from the generated graph"])
  let st := detectE (edges gm) gm.length
  let reports := st.reports
  if st.exhausted then
    o.line (tab ["K", "C05", fam, "|".intercalate (texts.map hexOfString), "the detector model ran out of fuel"])
  match modelOracle gs reports with
  | some why => o.line (tab ["K", "C05", fam, "|".intercalate (texts.map hexOfString), why])
  | none => pure ()
  if checkSpec && (detectUnpruned (edges gm) gm.length).reports != reports then
    o.line (tab ["K", "C05", fam, "|".intercalate (texts.map hexOfString), "the reports differ from those of the detector without the skip rule"])
  if cyc.isEmpty && st.steps != ((List.range gm.length).map fun i => (edges gm i).length).sum then
    o.line (tab ["K", "C05", fam, "|".intercalate (texts.map hexOfString), "acyclic graph, but the number of steps is not the number of edges"])
  o.line (compileCase fam "c05:cycles" "-" texts (cyclesS gm reports (e019s p) cyc))

/-- the same graph with EVERY node called `T`, node `i` in its own module `M<i>` (one file each) and every reference written
    `M<j>::T`: the types differ only in their module -/
partial def trefOfTyModules (g : GSpec) : CTy → TRef
  | .node j => .mk [] (.named ("M" ++ toString j ++ "::T")) false
  | .terminal => .mk [] (.prim .int32) false
  | .opt t => match trefOfTyModules g t with | .mk a ty _ => .mk a ty true
  | .seq t => .mk [] (.seq (trefOfTyModules g t)) false
  | .dict k v => .mk [] (.dict (trefOfTyModules g k) (trefOfTyModules g v)) false
  | .result s f => .mk [] (.result (trefOfTyModules g s) (trefOfTyModules g f)) false

def programOfGraphModules (g : GSpec) : Program :=
  g.zipIdx.map fun (nd, i) =>
    let fs := nd.fields.zipIdx.map fun (t, k) => mkField ("f" ++ toString k) (trefOfTyModules g t)
    let d : Def :=
      if nd.isEnum then
        .enum [] [] false false "T" none
          ((fs.zipIdx.map fun (f, k) => { doc := [], attrs := [], name := "X" ++ toString k, fields := some [f], value := none : Enumerator }) ++
           [{ doc := [], attrs := [], name := "Z", fields := none, value := none : Enumerator }])
      else .struct [] [] false "T" fs
    ({ fileAttrs := [], module := some ⟨[], "M" ++ toString i⟩, defs := [d] } : SFile)

def emitGraphModules (o : Out) (fam : String) (g : GSpec) : IO Unit := do
  let p := programOfGraphModules g
  let gm := graphOfProgram p
  let st := detectE (edges gm) gm.length
  if st.exhausted then
    o.line (tab ["K", "C05", fam, "|".intercalate ((textOf p).map hexOfString), "the detector model ran out of fuel"])
  o.line (compileCase fam "c05:cycles" "-" (textOf p) (cyclesS gm st.reports (e019s p) (onCycle (edges gm) gm.length)))

/-- a containment case whose expectation is only the verdict (`accepted` / `rejected`): the detector model is NOT run
    (on the complete digraph it enumerates every simple cycle, like the code); the verdict is `rejected` exactly when some
    type contains itself (`Props/C05.exact_acyclic`) -/
def emitVerdict (o : Out) (fam : String) (g : GSpec) : IO Unit := do
  let p := programOfGraph g
  let gs := graphOfSpec g
  let cyc := onCycle (edges gs) gs.length
  o.line (compileCase fam "c05:verdict" "-" (textOf p) (if cyc.isEmpty then "accepted" else "rejected"))

/-! ## families -/

/-- the 8 ways an edge to `t` is written -/
def wrap (w : Nat) (t : CTy) : CTy :=
  match w % 8 with
  | 0 => t
  | 1 => .opt t
  | 2 => .seq t
  | 3 => .seq (.opt t)
  | 4 => .dict .terminal t
  | 5 => .dict t .terminal
  | 6 => .result t .terminal
  | _ => .result .terminal t

def bit (m i : Nat) : Bool := (m >>> i) % 2 == 1

/-- graph on `n` nodes from an adjacency mask (bit `i*n+j` = edge i → j), every edge through wrapper `w`,
    node kinds from `kinds` -/
def graphOfMask (n mask w kinds : Nat) : GSpec :=
  (List.range n).map fun i =>
    let fs := (List.range n).filterMap fun j => if bit mask (i * n + j) then some (wrap w (.node j)) else none
    { isEnum := bit kinds i, fields := if fs.isEmpty then [.terminal] else fs }

def denseGraph (n : Nat) : GSpec :=
  (List.range n).map fun i =>
    { isEnum := false, fields := ((List.range n).filter (· > i)).map fun j => CTy.node j }

/-- the complete digraph: struct `i` has an optional field of every struct `j ≠ i` -/
def completeGraph (n : Nat) : GSpec :=
  (List.range n).map fun i =>
    { isEnum := false, fields := ((List.range n).filter (· != i)).map fun j => CTy.opt (.node j) }

/-- the dense DAG whose last struct has an optional field of the first (`Props/C05.cyclic_steps_exponential`) -/
def denseBackGraph (n : Nat) : GSpec :=
  (List.range n).map fun i =>
    { isEnum := false,
      fields := (((List.range n).filter (· > i)).map fun j => CTy.node j) ++ (if i + 1 == n then [CTy.opt (.node 0)] else []) }

/-- `k` layers of complete digraphs on `m` nodes chained by single forward edges, plus a dense acyclic part: many
    cycles, all short -/
def clustersGraph (k m : Nat) : GSpec :=
  (List.range (k * m)).map fun i =>
    let c := i / m
    let inside := ((List.range m).map (· + c * m)).filter (· != i)
    let fwd := if c + 1 < k then [(c + 1) * m + i % m] else []
    { isEnum := i % 3 == 2, fields := (inside ++ fwd).map fun j => CTy.seq (.node j) }

/-- multiplicities 0..2 for each of the 4 edges of a 2-node graph; a double edge is written as two fields
    (different wrappers) or as one field with two leaves -/
def multiGraph (code w : Nat) : GSpec :=
  (List.range 2).map fun i =>
    let fs := (List.range 2).flatMap fun j =>
      let m := (code / 3 ^ (i * 2 + j)) % 3
      if m == 0 then [] else if m == 1 then [wrap w (.node j)]
      else if w % 3 == 0 then [wrap w (.node j), wrap (w + 3) (.node j)]
      else if w % 3 == 1 then [CTy.dict (.node j) (.node j)]
      else [CTy.result (.seq (.node j)) (.opt (.node j))]
    { isEnum := bit w (i + 1), fields := if fs.isEmpty then [.terminal] else fs }

/-- a leaf: a node (any when `lo = 0`; otherwise mostly one behind `lo`, which keeps many graphs acyclic) or a terminal -/
def genLeaf (n lo : Nat) (r : Rng) : CTy × Rng :=
  let (c, r) := r.below 4
  if c == 0 then (.terminal, r)
  else
    let (back, r) := r.below 12
    if lo == 0 || back == 0 then let (j, r) := r.below n; (.node j, r)
    else if lo < n then let (j, r) := r.below (n - lo); (.node (lo + j), r)
    else (.terminal, r)

def genTy (n lo : Nat) : Nat → Bool → Rng → CTy × Rng
  | 0, _, r => genLeaf n lo r
  | d + 1, allowOpt, r =>
    let (c, r) := r.below 10
    if c < 4 then genLeaf n lo r
    else if c == 4 && allowOpt then let (t, r) := genTy n lo d false r; (.opt t, r)
    else if c < 7 then let (t, r) := genTy n lo d true r; (.seq t, r)
    else if c < 9 then let (k, r) := genTy n lo d true r; let (v, r) := genTy n lo d true r; (.dict k v, r)
    else let (s, r) := genTy n lo d true r; let (f, r) := genTy n lo d true r; (.result s f, r)

def genRandGraph (r : Rng) : GSpec × Rng := Id.run do
  let mut r := r
  let (n, r1) := r.below 10
  let (fwd, r0) := r1.below 2
  r := r0
  let n := n + 1
  let mut g : GSpec := []
  for i in [0:n] do
    let (nf, r2) := r.below 4
    r := r2
    let (en, r3) := r.below 3
    r := r3
    let mut fs : List CTy := []
    for _ in [0:nf] do
      let (d, r4) := r.below 3
      let (t, r5) := genTy n (if fwd == 0 then 0 else i + 1) d true r4
      r := r5
      fs := fs ++ [t]
    g := g ++ [{ isEnum := en == 0, fields := if fs.isEmpty then [.terminal] else fs }]
  return (g, r)

/-! ## aliases -/

def aliasName (i : Nat) : String := "A" ++ toString i

/-- alias graph: `targets[i] = some j` ⇒ `typealias Ai = Aj`, `none` ⇒ `typealias Ai = int32`; one use site -/
def aliasProgram (targets : List (Option Nat)) (use : Option Nat) : Program :=
  let defs := targets.zipIdx.map fun (t, i) =>
    Def.alias [] [] (aliasName i) (match t with | some j => .mk [] (.named (aliasName j)) false | none => .mk [] (.prim .int32) false)
  let useDef := match use with
    | some k => [Def.struct [] [] false "U" [mkField "x" (.mk [] (.named (aliasName k)) false)]]
    | none => []
  [fileOf (defs ++ useDef)]

/-- the same alias graphs spread over modules: alias `i` is `T` of module `P::A<i>` (one file per module) and refers to its target
    by the RELATIVE name `A<j>::T`, which every module resolves through its own enclosing scopes; decoy modules `P::A<i>::A<k>`
    (`typealias T = int32`) for every `k` that alias `i` does not refer to make the same relative name mean something else when it
    is looked up from the wrong module. The use site is in module `P::A<k>` and writes `T`. -/
def aliasProgramModules (targets : List (Option Nat)) (use : Option Nat) : Program :=
  let n := targets.length
  let fileIn := fun (m : String) (defs : List Def) => ({ fileAttrs := [], module := some ⟨[], m⟩, defs := defs } : SFile)
  let main := targets.zipIdx.map fun (t, i) =>
    fileIn ("P::" ++ aliasName i)
      ([Def.alias [] [] "T" (match t with | some j => .mk [] (.named (aliasName j ++ "::T")) false | none => .mk [] (.prim .int32) false)] ++
       (if use == some i then [Def.struct [] [] false "U" [mkField "x" (.mk [] (.named "T") false)]] else []))
  let decoys := targets.zipIdx.flatMap fun (t, i) =>
    (List.range n).filterMap fun k =>
      if k == i || t == some k then none
      else some (fileIn ("P::" ++ aliasName i ++ "::" ++ aliasName k) [Def.alias [] [] "T" (.mk [] (.prim .int32) false)])
  main ++ decoys

def aliasS (p : Program) : String :=
  let e := e019s p
  let n := e033Count p
  "E019=" ++ listS (sortStrings e) ++ ";E033=" ++ toString n ++ ";rejected=" ++ (if n > 0 || !e.isEmpty then "1" else "0")

/-- all functions {0..n-1} → {alias 0..n-1, int32}, encoded in base n+1 -/
def aliasTargets (n code : Nat) : List (Option Nat) :=
  (List.range n).map fun i => let d := (code / (n + 1) ^ i) % (n + 1); if d == n then none else some d

/-- underlying types for the alias-gate families. `code` selects a form and its leaves among `int32, A0 … A(n-1)`:
    `X`, `Sequence<X>`, `Result<X, Y>`, `Dictionary<int32, Result<X, Y>>`, `Result<Sequence<X>, Dictionary<int32, Y>>` -/
def aliasFormCount (n : Nat) : Nat := 2 * (n + 1) + 3 * (n + 1) * (n + 1)

def aliasForm (n code : Nat) (maxLeaf : Nat := 1000) : TRef :=
  let l := n + 1
  -- `maxLeaf`: aliases with a larger number are replaced by the one with number `maxLeaf - 1` (or `int32`)
  let leaf := fun (k : Nat) =>
    let k := if k > maxLeaf then maxLeaf else k
    if k == 0 then TRef.mk [] (.prim .int32) false else TRef.mk [] (.named (aliasName (k - 1))) false
  let i32 : TRef := .mk [] (.prim .int32) false
  if code < l then leaf code
  else if code < 2 * l then .mk [] (.seq (leaf (code - l))) false
  else
    let c := code - 2 * l
    let x := leaf (c % l)
    let y := leaf (c / l % l)
    match c / (l * l) with
    | 0 => .mk [] (.result x y) false
    | 1 => .mk [] (.dict i32 (.mk [] (.result x y) false)) false
    | _ => .mk [] (.result (.mk [] (.seq x) false) (.mk [] (.dict i32 y) false)) false

/-- `layers` layers of alias diamonds: `typealias A0 = Sequence<int32>`, `typealias Ak = Result<A(k-1), A(k-1)>` -/
def aliasDiamonds (layers : Nat) : Program :=
  [fileOf ((List.range layers).map fun k =>
    if k == 0 then Def.alias [] [] (aliasName 0) (.mk [] (.seq (.mk [] (.prim .int32) false)) false)
    else Def.alias [] [] (aliasName k)
      (.mk [] (.result (.mk [] (.named (aliasName (k - 1))) false) (.mk [] (.named (aliasName (k - 1))) false)) false))]

/-- one alias-gate case (projection `c05:alias`). When the patcher reports nothing the gate decides: E019 for exactly the
    aliases `revisits_anonymous_type` answers true for. K line: that list differs from the declarative one (aliases from
    which an alias lying on a loop of the alias graph is reachable). -/
def emitAliasGate (o : Out) (fam : String) (p : Program) : IO Unit := do
  let texts := textOf p
  if e033Count p == 0 && (e019s p).isEmpty then
    let errs := sortStrings (aliasGateErrors p)
    if errs != sortStrings (anonLoopAliases p) then
      o.line (tab ["K", "C05", fam, "|".intercalate (texts.map hexOfString), "revisits_anonymous_type model differs from the closure over the alias graph"])
    o.line (compileCase fam "c05:alias" "-" texts ("E019=" ++ listS errs ++ ";E033=0;rejected=" ++ (if errs.isEmpty then "0" else "1")))
  else
    o.line (compileCase fam "c05:alias" "-" texts (aliasS p))

/-! ## interfaces -/

def ifaceName (i : Nat) : String := "I" ++ toString i

def ifaceDef (ops : Bool) (i : Nat) (bs : List Nat) : Def :=
  Def.iface [] [] (ifaceName i) (bs.map fun b => .mk [] (.named (ifaceName b)) false)
    (if ops then [{ doc := [], attrs := [], idempotent := false, name := "op" ++ toString i, params := [], ret := .none : Op }] else [])

/-- one file, interfaces in index order; `ops`: every interface has one operation of its own (when a loop is wrongly
    accepted, the inherited operation then clashes with itself: the variant WITHOUT operations has no such second net) -/
def ifaceProgram (ig : IGraph) (ops : Bool := true) : Program :=
  [fileOf (ig.zipIdx.map fun (bs, i) => ifaceDef ops i bs)]

/-- the interfaces in the order `order` (a permutation of the indices), split after `cut` definitions over two files
    (one file when `cut = 0`) -/
def ifaceProgramOrdered (ig : IGraph) (ops : Bool) (order : List Nat) (cut : Nat) : Program :=
  let defs := order.map fun i => ifaceDef ops i (ig.getD i [])
  if cut == 0 then [fileOf defs] else [fileOf (defs.take cut), fileOf (defs.drop cut)]

def igraphOfMask (n mask : Nat) : IGraph :=
  (List.range n).map fun i => (List.range n).filter fun j => bit mask (i * n + j)

def inheritS (ig : IGraph) : String :=
  let n := ig.length
  "accepted:" ++ "|".intercalate ((List.range n).map fun i =>
    ifaceName i ++ "=" ++ (match allBases ig (n + 1) i with
      | some bs => "[" ++ ",".intercalate (bs.map ifaceName) ++ "]"
      | none => "fuel"))

/-- `layers` layers of `width` interfaces, each inheriting every interface of the previous layer (layer 0 has no base);
    the last layer comes first in the file when `rev` -/
def layeredIGraph (layers width : Nat) : IGraph :=
  (List.range (layers * width)).map fun i =>
    if i < width then [] else (List.range width).map fun k => (i / width - 1) * width + k

/-- observation of projection `c05:gate` -/
def gateS (p : Program) (gm : Graph) (o : GateOutcome) : String :=
  let inames := (ifaceDefs p).map (·.1)
  "E019=" ++ listS (sortStrings o.aliasErrors) ++
  ";IFACE=" ++ listS (sortStrings (o.ifaceErrors.map fun e => inames.getD e.1 "?")) ++
  ";E032=" ++ listS (sortStrings (o.reports.map (reportS gm))) ++ " oracle=ok"

/-- plain identifiers of the interfaces of a program in AST order -/
def ifaceIdents (p : Program) : List String :=
  p.flatMap fun f => f.defs.filterMap fun d => match d with | .iface _ _ name _ _ => some name | _ => none

/-- observation of projection `c05:inherit` for a program, from the model: the gate's interface errors (one E032 per
    interface that inherits from itself) or the base lists in AST order -/
def inheritObs (p : Program) : String :=
  let igm := igraphOfProgram p
  let names := ifaceIdents p
  let errs := ifaceLoopErrors igm
  if errs.isEmpty then
    "accepted:" ++ "|".intercalate ((List.range igm.length).map fun i =>
      names.getD i "?" ++ "=" ++ (match allBases igm (igm.length + 1) i with
        | some bs => "[" ++ ",".intercalate (bs.map fun b => names.getD b "?") ++ "]"
        | none => "fuel"))
  else "rejected:" ++ "|".intercalate (sortStrings (errs.map fun e => "E032@" ++ names.getD e.1 "?"))

/-- one inheritance case (projection `c05:inherit`: WHICH interfaces are reported, or the base lists in order).
    `ig` is the generated graph over the indices in the names (`I<k>`), `p` the program (any definition order, one or two
    files). K lines: the model's graph is not the generated one (up to the order of definitions); the model's flagged set
    is not the set of interfaces that reach themselves (`inheritance_loop_rejected`); a reported chain is not a closed chain;
    `allBases` runs out of fuel (`allBases_total`); `allBases` differs from the old definition where that one returns
    (`allBases_eq_spec`, checked when `checkSpec`: the old definition is exponential on layered graphs) -/
def emitIProgram (o : Out) (fam : String) (ig : IGraph) (p : Program) (checkSpec : Bool := true) : IO Unit := do
  let texts := textOf p
  let hex := "|".intercalate (texts.map hexOfString)
  let igm := igraphOfProgram p
  let n := igm.length
  let names := ifaceIdents p
  -- the model's graph, translated back to the indices in the names
  let idxOfName := fun (s : String) => (s.drop 1).toNat!
  let back := (List.range ig.length).map fun k =>
    match names.idxOf? (ifaceName k) with
    | some pos => (igm.getD pos []).map fun b => idxOfName (names.getD b "I0")
    | none => []
  if back != ig || n != ig.length then
    o.line (tab ["K", "C05", fam, hex, "igraphOfProgram differs from the generated inheritance graph"])
  let flagged := (ifaceLoopErrors igm).map (·.1)
  if flagged != onCycle (igEdges igm) n then
    o.line (tab ["K", "C05", fam, hex, "the flagged interfaces are not the interfaces that inherit from themselves"])
  if (ifaceLoopErrors igm).any (fun e => !(chainOk (igEdges igm) e.1 e.1 ((e.2.zip (e.2.drop 1)).map fun ab => ⟨ab.2, ab.1, 0⟩))) then
    o.line (tab ["K", "C05", fam, hex, "a reported inheritance chain is not a closed path of bases"])
  if (List.range n).any (fun i => (allBases igm (n + 1) i).isNone) then
    o.line (tab ["K", "C05", fam, hex, "allBases ran out of fuel"])
  if checkSpec && (List.range n).any (fun i => match allBasesSpec igm (n + 1) i with | some l => allBases igm (n + 1) i != some l | none => false) then
    o.line (tab ["K", "C05", fam, hex, "allBases differs from the definition before 323593c"])
  o.line (compileCase fam "c05:inherit" "-" texts (inheritObs p))

/-- the graph in index order in one file, in both variants: with one operation per interface, and without operations -/
def emitIGraph (o : Out) (fam : String) (ig : IGraph) (checkSpec : Bool := true) : IO Unit := do
  emitIProgram o fam ig (ifaceProgram ig true) checkSpec
  emitIProgram o (fam ++ "-noops") ig (ifaceProgram ig false) checkSpec

/-- random inheritance graph on `n` interfaces: `density`/8 of the forward pairs, plus `back` backward edges -/
def genIGraph (n : Nat) (r : Rng) : IGraph × Rng := Id.run do
  let mut r := r
  let (density, r0) := r.below 7
  let (back, r1) := r0.below 4
  r := r1
  let mut ig : IGraph := []
  for i in [0:n] do
    let mut bs : List Nat := []
    for j in [0:n] do
      let (c, r2) := r.below 8
      r := r2
      -- bases are written in a scrambled order so that the order of the result matters
      if j < i && c ≤ density then bs := if c % 2 == 0 then bs ++ [j] else j :: bs
    ig := ig ++ [bs]
  for _ in [0:(if back ≥ 2 then back - 1 else 0)] do
    let (i, r3) := r.below n
    let (j, r4) := r3.below n
    r := r4
    if i ≤ j then ig := ig.set i (ig.getD i [] ++ (if (ig.getD i []).contains j then [] else [j]))
  return (ig, r)

/-- a ring of 1..4 interfaces, the other interfaces inherit from ring members and from each other (acyclically), now
    and then a ring member inherits from one of them too; returns the graph and a random order of its definitions -/
def genLoopTailGraph (n : Nat) (r : Rng) : (IGraph × List Nat) × Rng := Id.run do
  let mut r := r
  let (l0, r0) := r.below 4
  r := r0
  let l := min (l0 + 1) (n - 1)
  -- a random permutation: positions → indices
  let mut order : List Nat := []
  for i in [0:n] do
    let (k, r1) := r.below (order.length + 1)
    r := r1
    order := order.take k ++ [i] ++ order.drop k
  -- ring members: the first `l` entries of a second permutation
  let mut perm : List Nat := []
  for i in [0:n] do
    let (k, r1) := r.below (perm.length + 1)
    r := r1
    perm := perm.take k ++ [i] ++ perm.drop k
  let ring := perm.take l
  let others := perm.drop l
  let mut ig : IGraph := (List.range n).map fun _ => []
  for k in [0:l] do
    ig := ig.set (ring.getD k 0) [ring.getD ((k + 1) % l) 0]
  for k in [0:others.length] do
    let x := others.getD k 0
    let mut bs : List Nat := []
    for c in ring ++ others.take k do
      let (d, r1) := r.below 3
      r := r1
      if d == 0 then bs := bs ++ [c]
    -- most of them reach the ring
    let (d, r1) := r.below 4
    r := r1
    if bs.isEmpty && d != 0 then bs := [ring.getD (d % l) 0]
    ig := ig.set x bs
  let (d, r1) := r.below 4
  r := r1
  if d == 0 && !others.isEmpty then
    let m := ring.getD 0 0
    ig := ig.set m (ig.getD m [] ++ [others.getD (others.length - 1) 0])
  return ((ig, order), r)

/-- one case for the whole gate: aliases (possibly looping through an anonymous type), interfaces, structs -/
def emitGate (o : Out) (fam : String) (p : Program) : IO Unit := do
  let gm := graphOfProgram p
  o.line (compileCase fam "c05:gate" "-" (textOf p) (gateS p gm (gateOfProgram p)))

/-! ## the stream -/

def gen (tier : Tier) (seed : Nat) (o : Out) : IO Unit := do
  let thorough := tier == .thorough
  -- every graph on ≤ 3 nodes, every edge through each of the 8 wrapper forms; node kinds rotate
  for n in [1:4] do
    for mask in [0:2 ^ (n * n)] do
      for w in [0:8] do
        emitGraph o ("exh-" ++ toString n) (graphOfMask n mask w (mask + w + mask / 8))
  -- the graphs on 2 and 3 nodes once more with all types called `T`, each in its own module (types that differ only in their module)
  for n in [2:4] do
    for mask in [0:2 ^ (n * n)] do
      emitGraphModules o ("same-name-" ++ toString n) (graphOfMask n mask (mask % 8) (mask + mask / 8))
  if thorough then
    -- every graph on 4 nodes, one wrapper form and one kind assignment each (rotating)
    for mask in [0:2 ^ 16] do
      emitGraph o "exh-4" (graphOfMask 4 mask (mask % 8 + mask / 256) (mask / 16 + mask))
  else
    let mut r := Rng.mk' (seed + 54)
    for _ in [0:1500] do
      let (mask, r1) := r.below (2 ^ 16)
      let (w, r2) := r1.below 8
      let (k, r3) := r2.below 16
      r := r3
      emitGraph o "exh-4-sample" (graphOfMask 4 mask w k)
  -- multi-edges on two nodes
  for code in [0:81] do
    for w in [0:6] do
      emitGraph o "multi" (multiGraph code w)
  -- dense DAGs (the D-05b family; since dd206d7 one step per edge): every size up to 16, then 28, 40 (thorough: 60 too).
  -- The detector without the skip rule takes 2^n steps on them, so it is only run as a cross-check up to 12 structs
  for n in [1:17] do
    emitGraph o ("dense-" ++ toString n) (denseGraph n) (checkSpec := n ≤ 12)
  for n in (if thorough then [28, 40, 60] else [28, 40]) do
    emitGraph o ("dense-" ++ toString n) (denseGraph n) (checkSpec := false)
  -- complete digraphs (erroneous programs; every simple cycle through every root is enumerated: D-05d) while affordable,
  -- and chains of small complete digraphs (many short cycles, polynomial)
  for n in [2:(if thorough then 8 else 7)] do
    emitGraph o ("complete-" ++ toString n) (completeGraph n)
  -- the dense DAG closed by one back edge: everything contains S0, 2^n steps from there (still D-05d); small sizes only
  for n in (if thorough then [2, 3, 4, 8, 12, 14] else [2, 3, 4, 8, 12]) do
    emitGraph o ("denseback-" ++ toString n) (denseBackGraph n) (checkSpec := n ≤ 12)
  for km in (if thorough then [(2, 3), (3, 3), (4, 4), (6, 4), (10, 3)] else [(2, 3), (3, 3), (4, 4)]) do
    emitGraph o ("clusters-" ++ toString km.1 ++ "x" ++ toString km.2) (clustersGraph km.1 km.2) (checkSpec := km.1 * km.2 ≤ 12)
  -- random graphs ≤ 10 nodes, mixed wrappers, multi-edges, mixed struct/enum nodes
  let mut r := Rng.mk' (seed + 5)
  for _ in [0:(if thorough then 20000 else 2000)] do
    let (g, r') := genRandGraph r
    r := r'
    emitGraph o "rand" g
  -- alias graphs: every target function on ≤ 3 (thorough 4) aliases, every use site and none
  for n in [1:(if thorough then 5 else 4)] do
    for code in [0:(n + 1) ^ n] do
      let ts := aliasTargets n code
      for use in (none :: (List.range n).map some) do
        let p := aliasProgram ts use
        o.line (compileCase ("alias-" ++ toString n) "c05:alias" "-" (textOf p) (aliasS p))
  -- the same graphs with one module per alias, relative names and decoy modules (≤ 3 aliases)
  for n in [1:4] do
    for code in [0:(n + 1) ^ n] do
      let ts := aliasTargets n code
      for use in (none :: (List.range n).map some) do
        let p := aliasProgramModules ts use
        o.line (compileCase ("alias-modules-" ++ toString n) "c05:alias" "-" (textOf p) (aliasS p))
  -- aliases whose underlying type is anonymous: every target function on ≤ 2 (thorough 3) aliases, every edge direct or
  -- through `Result<T, int32>` / `Sequence<Result<T, int32>>`. A loop through an anonymous type is not seen by the patcher
  -- (D-05c): those programs go to the known-finding family at the end of the stream
  let mut anonLoops : List String := []
  for n in [1:(if thorough then 4 else 3)] do
    for code in [0:(n + 1) ^ n] do
      for wcode in [0:3 ^ n] do
        let ts := aliasTargets n code
        let defs := ts.zipIdx.map fun (tg, i) =>
          let base : TRef := match tg with | some j => .mk [] (.named (aliasName j)) false | none => .mk [] (.prim .int32) false
          let i32 : TRef := .mk [] (.prim .int32) false
          let w := (wcode / 3 ^ i) % 3
          Def.alias [] [] (aliasName i)
            (if w == 0 then base else if w == 1 then .mk [] (.result base i32) false
             else .mk [] (.seq (.mk [] (.result base i32) false)) false)
        for use in (if thorough && n == 3 then [none] else none :: (List.range n).map some) do
          let useDef := match use with
            | some k => [Def.struct [] [] false "U" [mkField "x" (.mk [] (.named (aliasName k)) false)]]
            | none => []
          let p : Program := [fileOf (defs ++ useDef)]
          if anonLoop p && e033Count p == 0 then
            -- the patcher is silent, the validators then never return
            if (descendT (buildTable p) 400 "M" (.mk [] (.named (aliasName 0)) false)).isSome &&
               (List.range n).all (fun i => (descendT (buildTable p) 400 "M" (.mk [] (.named (aliasName i)) false)).isSome) then
              o.line (tab ["K", "C05", "alias-anon-loop", "|".intercalate ((textOf p).map hexOfString), "anonLoop holds but every descent ends"])
            -- repaired in /repo (D-05c): the cycle gate reports E019 for every alias from which a looping anonymous type is reachable
            anonLoops := anonLoops ++ [compileCase "alias-anon-loop" "c05:alias" "-" (textOf p)
              ("E019=" ++ listS (sortStrings (anonLoopAliases p)) ++ ";E033=0;rejected=1")]
          else
            o.line (compileCase ("alias-anon-" ++ toString n) "c05:alias" "-" (textOf p) (aliasS p))
  let a0 : TRef := .mk [] (.named "A0") false
  let i32 : TRef := .mk [] (.prim .int32) false
  -- the alias gate (`revisits_anonymous_type`): aliases of anonymous types mentioned once, twice (diamonds: must be
  -- ACCEPTED) or by themselves (must get E019). A catalogue, then every pair of aliases over 5 forms × all leaves, with and
  -- without a struct that uses them, then sampled triples
  let str : TRef := .mk [] (.prim .string) false
  let nm := fun (s : String) => TRef.mk [] (.named s) false
  let al := fun (name : String) (ty : TyExpr) => Def.alias [] [] name (.mk [] ty false)
  for defs in ([
      -- the coordinator's witness: a diamond through an alias of an anonymous type
      [al "Names" (.seq str), al "Pair" (.result (nm "Names") (nm "Names")), Def.struct [] [] false "S" [mkField "p" (nm "Pair")]],
      [al "A" (.seq i32), al "D" (.dict i32 (.mk [] (.result (nm "A") (nm "A")) false))],
      [al "A" (.seq i32), al "P" (.result (.mk [] (.seq (nm "A")) false) (.mk [] (.dict i32 (nm "A")) false))],
      [al "A" (.seq i32), al "B" (.result (nm "A") (nm "A")), al "C" (.result (nm "B") (nm "B")),
       al "D" (.dict i32 (.mk [] (.result (nm "C") (nm "C")) false)), Def.struct [] [] false "S" [mkField "a" (nm "D"), mkField "b" (nm "D")]],
      [al "N" (.seq str), al "N2" (.named "N"), al "P" (.result (nm "N") (nm "N2"))],
      [al "N" (.seq str), Def.struct [] [] false "S" [mkField "a" (nm "N"), mkField "b" (nm "N"), mkField "c" (.mk [] (.result (nm "N") (nm "N")) false)]],
      -- used before it is defined
      [al "P" (.result (nm "N") (nm "N")), al "N" (.seq str)],
      -- genuinely self-containing ones
      [al "A" (.result (nm "A") (nm "A"))],
      [al "A" (.seq i32), al "B" (.result (nm "A") (nm "B"))],
      [al "A" (.result (nm "B") (nm "B")), al "B" (.seq (nm "A"))],
      [al "N" (.seq str), al "P" (.result (nm "N") (.mk [] (.seq (nm "P")) false))],
      [al "N" (.seq str), al "P" (.result (nm "N") (.mk [] (.seq (nm "P")) false)), al "U" (.result (nm "N") (nm "P"))],
      [al "N" (.seq str), al "P" (.result (nm "N") (.mk [] (.seq (nm "P")) false)), al "U" (.result (nm "N") (nm "N"))],
      [al "A" (.dict i32 (.mk [] (.result (nm "B") (nm "B")) false)), al "B" (.named "C"), al "C" (.seq (nm "A"))]]
      : List (List Def)) do
    emitAliasGate o "alias-gate-catalogue" [fileOf defs]
  -- layered diamonds of aliases (valid): the gate walks every path, 2^layers steps (D-05f); small ones here, with the
  -- model run in full; the 28-layer one is the known finding at the end of the stream
  for k in [2, 3, 6, 10, 14] do
    emitAliasGate o ("alias-diamond-" ++ toString k) (aliasDiamonds k)
  for c0 in [0:aliasFormCount 2] do
    for c1 in [0:aliasFormCount 2] do
      let defs := [Def.alias [] [] "A0" (aliasForm 2 c0), Def.alias [] [] "A1" (aliasForm 2 c1)]
      emitAliasGate o "alias-gate-2" [fileOf defs]
      emitAliasGate o "alias-gate-2" [fileOf (defs ++ [Def.struct [] [] false "U" [mkField "x" (nm "A1"), mkField "y" (nm "A1")]])]
  let mut ra := Rng.mk' (seed + 91)
  for _ in [0:(if thorough then 15000 else 1500)] do
    let (c0, r0) := ra.below (aliasFormCount 3)
    let (c1, r1) := r0.below (aliasFormCount 3)
    let (c2, r2) := r1.below (aliasFormCount 3)
    let (u, r3) := r2.below 4
    let (fwd, r4) := r3.below 3
    ra := r4
    -- two thirds refer to earlier aliases only (diamonds, no loop), in forward or backward definition order
    let defs := if fwd == 0 then [Def.alias [] [] "A0" (aliasForm 3 c0), Def.alias [] [] "A1" (aliasForm 3 c1), Def.alias [] [] "A2" (aliasForm 3 c2)]
      else
        let ds := [Def.alias [] [] "A0" (aliasForm 3 c0 0), Def.alias [] [] "A1" (aliasForm 3 c1 1), Def.alias [] [] "A2" (aliasForm 3 c2 2)]
        if fwd == 1 then ds else ds.reverse
    let useDef := if u == 3 then [] else [Def.struct [] [] false "U" [mkField "x" (nm (aliasName u)), mkField "y" (.mk [] (.result (nm (aliasName u)) (nm "A0")) false)]]
    emitAliasGate o "alias-gate-3" [fileOf (defs ++ useDef)]
  -- inheritance graphs: every graph on ≤ 3 (thorough 4) interfaces, each WITHOUT operations and with one operation per
  -- interface (thorough, 4 interfaces, with operations: loops sampled 1/16). Acyclic ones are accepted with the model's base
  -- lists, the others are rejected with one E032 for each interface that reaches itself. All definition orders are
  -- covered by exhaustiveness.
  for n in [1:(if thorough then 5 else 4)] do
    for mask in [0:2 ^ (n * n)] do
      let ig := igraphOfMask n mask
      let loops := !(onCycle (igEdges ig) n).isEmpty
      let fam := if loops then "inherit-loop" else "inherit-dag-" ++ toString n
      emitIProgram o (fam ++ "-noops") ig (ifaceProgram ig false)
      if !loops || n ≤ 3 || mask % 16 == 5 then emitIProgram o fam ig (ifaceProgram ig true)
  -- loops of several shapes: self loop; rings of 2, 3, 50; a loop reachable from an interface that is not on it; a loop
  -- with a tail leading out of it; two loops sharing an interface; a diamond above a loop; two disjoint loops
  for ig in ([[[0]], [[1], [0]], [[1], [2], [0]], (List.range 50).map (fun i => [(i + 1) % 50]),
              [[1], [2], [1]], [[1], [2], [3], [2]], [[1, 2], [2], [1]], [[1], [2], [1], [0], [2]], [[1], [0, 2], []], [[1, 2], [0], [0]],
              [[1, 2], [3], [3], [4], [3]], [[1], [0], [3], [2]], [[], [0, 1], [1, 0]],
              [[1], [2], [3], [4], [5], [2], [0]]] : List IGraph) do
    emitIGraph o "inherit-loop-shapes" ig
  -- layered diamonds: every interface of a layer inherits every interface of the previous one. Before 323593c each
  -- interface was expanded once per inheritance path: 26 layers of 2 interfaces did not compile within minutes
  for lw in (if thorough then [(3, 2), (4, 3), (10, 2), (26, 2), (40, 2), (12, 4), (60, 3)] else [(3, 2), (4, 3), (10, 2), (26, 2), (40, 2)]) do
    emitIGraph o ("layered-" ++ toString lw.1 ++ "x" ++ toString lw.2) (layeredIGraph lw.1 lw.2) (checkSpec := lw.1 ≤ 10)
    -- the same with the last layer first in the file
    let n := lw.1 * lw.2
    emitIProgram o ("layered-" ++ toString lw.1 ++ "x" ++ toString lw.2 ++ "-rev") (layeredIGraph lw.1 lw.2)
      (ifaceProgramOrdered (layeredIGraph lw.1 lw.2) false ((List.range n).reverse) 0) (checkSpec := lw.1 ≤ 10)
  -- random inheritance graphs on ≤ 9 interfaces, a third of them with 1-2 backward edges (loops)
  let mut ri := Rng.mk' (seed + 77)
  for _ in [0:(if thorough then 6000 else 600)] do
    let (n, r1) := ri.below 9
    let (ig, r2) := genIGraph (n + 1) r1
    ri := r2
    emitIGraph o "inherit-rand" ig
  -- 5..8 interfaces: a ring and interfaces that are not on it but inherit from it, in a random definition order (so that
  -- the non-loop interfaces come before, between and after the loop members), in one file and split over two files in
  -- both file orders; without operations (3 layouts) and with operations (1 layout)
  for _ in [0:(if thorough then 3000 else 300)] do
    let (n, r1) := ri.below 4
    let ((ig, order), r2) := genLoopTailGraph (n + 5) r1
    let (cut, r3) := r2.below (n + 4)
    ri := r3
    let cut := cut + 1
    emitIProgram o "inherit-tails" ig (ifaceProgramOrdered ig false order 0)
    emitIProgram o "inherit-tails-2files" ig (ifaceProgramOrdered ig false order cut)
    emitIProgram o "inherit-tails-2files" ig (ifaceProgramOrdered ig false (order.drop cut ++ order.take cut) (n + 5 - cut))
    emitIProgram o "inherit-tails-ops" ig (ifaceProgramOrdered ig true order cut)
  -- the three gates together: {no alias loop, alias looping through an anonymous type} × {no interface, DAG, loop,
  -- loop below a non-loop interface} × {no struct cycle, self cycle, 2-cycle + acyclic struct}: the alias gate returns
  -- alone, the interface gate does not stop the containment detector
  for adefs in ([[], [Def.alias [] [] "A0" i32], [Def.alias [] [] "A0" (.mk [] (.result a0 i32) false)]] : List (List Def)) do
    for ig in ([[], [[], [0]], [[1], [0]], [[1], [2], [1]], [[0], []]] : List IGraph) do
      for g in ([[], [⟨false, [.terminal]⟩], [⟨false, [.opt (.node 0)]⟩],
                 [⟨false, [.node 1]⟩, ⟨true, [.seq (.node 0)]⟩, ⟨false, [.node 1]⟩]] : List GSpec) do
        let idefs := match ifaceProgram ig with | [f] => f.defs | _ => []
        let gdefs := match programOfGraph g with | [f] => f.defs | _ => []
        emitGate o "gate-order" [fileOf (adefs ++ idefs ++ gdefs)]
        emitGate o "gate-order" [fileOf (gdefs ++ idefs ++ adefs)]
  -- Sequence / Dictionary-value self-loops of an alias (repaired D-05c; they used to hang): thorough only
  if thorough then
    for defs in [[Def.alias [] [] "A0" (.mk [] (.seq a0) false)],
                 [Def.alias [] [] "A0" (.mk [] (.dict i32 a0) false), Def.struct [] [] false "U" [mkField "x" a0]]] do
      anonLoops := anonLoops ++ [compileCase "alias-anon-loop" "c05:alias" "-" (textOf [fileOf defs])
        ("E019=" ++ listS (sortStrings (anonLoopAliases [fileOf defs])) ++ ";E033=0;rejected=1")]
  for l in anonLoops do o.line l
  /- known findings last (the runner prints only the first 200 DIFF lines of a run); each costs the 20 s watchdog -/
  -- D-05d: the complete digraph on 11 structs; every simple cycle through the root is enumerated, no verdict within the
  -- 20 s watchdog of the engine. Expected = the model's verdict (`rejected`, by exactness); the detector model is not run
  emitVerdict o "known-d05b-complete" (completeGraph 11)
  -- D-05f: 28 layers of alias diamonds (valid, 0.9 KB): `revisits_anonymous_type` walks 2^28 paths. Expected = accepted, from
  -- the declarative closure over the alias graph (`revisits` of the model is as exponential as the code and is not run)
  o.line (compileCase "known-d05f-alias-diamond" "c05:alias" "-" (textOf (aliasDiamonds 28))
    ("E019=" ++ listS (sortStrings (anonLoopAliases (aliasDiamonds 28))) ++ ";E033=0;rejected=0"))

end Slicec.Drv.C05

def Slicec.Drv.genC05 (tier : Slicec.Drv.Tier) (seed : Nat) (o : Slicec.Drv.Out) : IO Unit := Slicec.Drv.C05.gen tier seed o
