/- Case generation for C11: decoding untrusted bytes. -/
import SlicecVerif.Model.Reply
import SlicecVerif.Drv.C10

namespace Slicec.Drv

open Slicec

def decCase (fam : String) (t : Ty) (bs : Bytes) : String :=
  tab ["dec", fam, showTy t, hexField bs, showDec t (decode t bs)]

def skipCase (fam : String) (bs : Bytes) : String :=
  tab ["skip", fam, hexField bs,
    match skipTaggedFields bs with
    | .ok (_, rest) => "ok " ++ toString rest.length
    | .error _ => "err"]

def showGenFile (f : GenFile) : String := showStr f.path ++ ":" ++ showStr f.contents
def showGDiag (d : GDiag) : String :=
  toString d.level ++ ":" ++ showStr d.message ++ ":" ++ (match d.source with | some s => showStr s | none => "-")

def showReply : Dec (List GenFile × List GDiag) → String
  | .ok ((fs, ds), rest) =>
    "ok " ++ showList showGenFile "[" "]" fs ++ " " ++ showList showGDiag "[" "]" ds ++ " " ++ toString rest.length
  | .error _ => "err"

def replyCase (fam : String) (bs : Bytes) : String :=
  tab ["reply", fam, hexField bs, showReply (decReply bs)]

def c11Types : List Ty :=
  leafTys ++ [.seq (.uint .w1), .seq .str, .seq (.seq .bool), .dictB (.uint .w1) .bool, .dictH (.uint .w1) .bool,
              .dictH .str .varint32, .dictB .varint32 (.seq (.uint .w1))]

def allBytes : List UInt8 := (List.range 256).map UInt8.ofNat

/-- third-byte values used by the thorough length-3 family -/
def edgeBytes : List UInt8 :=
  ([0, 1, 2, 3, 4, 5, 7, 8, 12, 0x3f, 0x40, 0x41, 0x7f, 0x80, 0x81, 0xbf, 0xc0, 0xc1, 0xc2, 0xdf, 0xe0, 0xed, 0xef, 0xf0,
    0xf4, 0xf5, 0xfb, 0xfc, 0xfd, 0xfe, 0xff] : List Nat).map UInt8.ofNat

def genRandBytes (maxLen : Nat) (r : Rng) : Bytes × Rng :=
  let (n, r) := r.below (maxLen + 1)
  let rec go : Nat → Rng → Bytes → Bytes × Rng
    | 0, r, acc => (acc, r)
    | k + 1, r, acc =>
      let (c, r) := r.below 4
      let (x, r) := r.next
      -- bias towards small numbers / size-like prefixes so that structure is reached
      let b : Nat := match c with
        | 0 => x.toNat % 256
        | 1 => (x.toNat % 8) * 4
        | 2 => x.toNat % 4
        | _ => [0xfc, 0x00, 0x01, 0xff, 0x80, 0x04, 0x08].getD (x.toNat % 7) 0
      go k r (UInt8.ofNat b :: acc)
  go n r []

def corruptions (bs : Bytes) : List Bytes :=
  let n := bs.length
  -- every truncation
  let truncs := (List.range n).map (fun k => bs.take k)
  -- single-byte corruptions
  let flips := (List.range n).flatMap fun i =>
    [bs.set i (bs.getD i 0 ^^^ 0x01), bs.set i (bs.getD i 0 ^^^ 0x80), bs.set i 0xFF, bs.set i (bs.getD i 0 + 4)]
  truncs ++ flips

def genFileSamples : List GenFile :=
  [⟨"a.cs".toUTF8.toList, "x".toUTF8.toList⟩, ⟨[], []⟩, ⟨"d/é.txt".toUTF8.toList, "line1\nline2".toUTF8.toList⟩]
def gdiagSamples : List GDiag :=
  [⟨0, "i".toUTF8.toList, none⟩, ⟨2, "boom".toUTF8.toList, some "f.slice".toUTF8.toList⟩, ⟨1, [], some []⟩]

def genC11 (tier : Tier) (seed : Nat) (o : Out) : IO Unit := do
  -- all short byte strings, every type
  for t in c11Types do
    o.line (decCase "len0" t [])
    for a in allBytes do
      o.line (decCase "len1" t [a])
    for a in allBytes do
      for b in allBytes do
        o.line (decCase "len2" t [a, b])
  o.line (skipCase "len0" [])
  o.line (replyCase "len0" [])
  for a in allBytes do
    o.line (skipCase "len1" [a])
    o.line (replyCase "len1" [a])
    for b in allBytes do
      o.line (skipCase "len2" [a, b])
      o.line (replyCase "len2" [a, b])
  if tier == .thorough then
    for t in [Ty.bool, .varint32, .varuint62, .str, .seq (.uint .w1), .dictH (.uint .w1) .bool, .seq .str] do
      for a in allBytes do
        for b in allBytes do
          for c in edgeBytes do
            o.line (decCase "len3" t [a, b, c])
    for a in allBytes do
      for b in allBytes do
        for c in edgeBytes do
          o.line (skipCase "len3" [a, b, c])
          o.line (replyCase "len3" [a, b, c])
  -- huge announced sizes
  for t in [Ty.str, .seq (.uint .w8), .seq .str, .dictH (.uint .w1) (.uint .w1), .dictB (.uint .w1) (.uint .w1), .dictH .str .str] do
    for bs in ([[0x02, 0x00, 0x00, 0x40], [0xfe, 0xff, 0xff, 0xff], [0xff, 0xff, 0xff, 0xff, 0xff, 0xff, 0xff, 0xff],
                [0xff, 0xff, 0xff, 0xff, 0xff, 0xff, 0xff, 0x7f, 0x00], [0xfe, 0xff, 0xff, 0x0f, 1, 1, 1, 1]] : List Bytes) do
      o.line (decCase "announce" t bs)
  -- truncations and single-byte corruptions of valid encodings
  let nVals := if tier == .thorough then 3000 else 400
  let mut r := Rng.mk' (seed + 17)
  for _ in [0:nVals] do
    let (d, r1) := r.below 4
    let (t, r2) := genTy d r1
    let (v, r3) := genVal t r2
    r := r3
    match encode t v with
    | some bs =>
      o.line (decCase "valid" t bs)
      for c in corruptions bs do o.line (decCase "corrupt" t c)
    | none => pure ()
  -- replies: valid, truncated, corrupted
  for fs in [[], genFileSamples.take 1, genFileSamples] do
    for ds in [[], gdiagSamples.take 2, gdiagSamples] do
      match encReply fs ds with
      | some bs =>
        o.line (replyCase "valid" bs)
        o.line (replyCase "valid-trailing" (bs ++ [1, 2, 3]))
        for c in corruptions bs do o.line (replyCase "corrupt" c)
      | none => pure ()
  -- random strings for random types
  let nRand := if tier == .thorough then 200000 else 20000
  for _ in [0:nRand] do
    let (t, r1) := r.pick c11Types
    let (bs, r2) := genRandBytes 64 r1
    r := r2
    o.line (decCase "random" t bs)
  for _ in [0:nRand / 4] do
    let (bs, r2) := genRandBytes 64 r
    r := r2
    o.line (skipCase "random" bs)
    o.line (replyCase "random" bs)

end Slicec.Drv
