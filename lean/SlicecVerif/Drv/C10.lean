/- Case generation for C10 (and the value/type text formats shared with C11). -/
import SlicecVerif.Model.Codec
import SlicecVerif.Drv.Common

namespace Slicec.Drv

open Slicec

def showWidth : Width → String
  | .w1 => "8" | .w2 => "16" | .w4 => "32" | .w8 => "64"

def showTy : Ty → String
  | .bool => "bool"
  | .uint w => "u" ++ showWidth w
  | .sint w => "i" ++ showWidth w
  | .f32 => "f32" | .f64 => "f64"
  | .varint32 => "vi32" | .varuint32 => "vu32" | .varint62 => "vi62" | .varuint62 => "vu62"
  | .size => "size" | .str => "str"
  | .seq t => "seq(" ++ showTy t ++ ")"
  | .dictB k v => "db(" ++ showTy k ++ "," ++ showTy v ++ ")"
  | .dictH k v => "dh(" ++ showTy k ++ "," ++ showTy v ++ ")"

def showList {α} (f : α → String) (l r : String) (xs : List α) : String :=
  l ++ ";".intercalate (xs.map f) ++ r

def showBool (b : Bool) : String := if b then "1" else "0"
def showInt (v : Int) : String := toString v
def showNat (v : Nat) : String := toString v
def showStr (s : Bytes) : String := "x" ++ hexOfBytes s
def boolLt (a b : Bool) : Bool := !a && b
def intLt (a b : Int) : Bool := decide (a < b)
def natOfInt (p : Int × Rng) : Nat × Rng := (p.1.toNat, p.2)

def showVal : (t : Ty) → Val t → String
  | .bool, b => showBool b
  | .uint _, v => showInt v
  | .sint _, v => showInt v
  | .f32, b => showNat b
  | .f64, b => showNat b
  | .varint32, v => showInt v
  | .varuint32, v => showInt v
  | .varint62, v => showInt v
  | .varuint62, v => showInt v
  | .size, v => showInt v
  | .str, s => showStr s
  | .seq t, vs => showList (showVal t) "[" "]" vs
  | .dictB k v, es => showList (fun (p : Val k × Val v) => showVal k p.1 ++ ":" ++ showVal v p.2) "{" "}" es
  | .dictH k v, es => showList (fun (p : Val k × Val v) => showVal k p.1 ++ ":" ++ showVal v p.2) "{" "}" es

def showEnc : Option Bytes → String
  | some bs => hexField bs
  | none => "none"

def showDec (t : Ty) : Dec (Val t) → String
  | .ok (v, rest) => "ok " ++ showVal t v ++ " " ++ toString rest.length
  | .error _ => "err"

def specU (v : Int) : Option Bytes := if 0 ≤ v then specVaruint v.toNat else none

/-- the wire format the property states, for the variable-width leaves (independent of the arm tables) -/
def specEnc : (t : Ty) → Val t → Option (Option Bytes)
  | .varint32, v => some (specVarint v)
  | .varint62, v => some (specVarint v)
  | .varuint32, v => some (specU v)
  | .varuint62, v => some (specU v)
  | .size, v => some (specU v)
  | _, _ => none

/-- one `enc` case: type, value, expected encoding. For variable-width leaves the expectation is the
    *specified* wire format; if the table-driven model disagrees with it, a `K` line records the
    model-level counterexample (the arm tables regenerated from the source violate the property). -/
def encCase (fam : String) (t : Ty) (v : Val t) : String :=
  let m := encode t v
  match specEnc t v with
  | some s =>
    let line := tab ["enc", fam, showTy t, showVal t v, showEnc s]
    if s == m then line
    else line ++ "\n" ++ tab ["K", fam, showTy t, showVal t v, "model=" ++ showEnc m ++ " spec=" ++ showEnc s]
  | none => tab ["enc", fam, showTy t, showVal t v, showEnc m]

/-! ### deterministic families -/

def intRange (lo hi : Int) : List Int :=
  (List.range (hi - lo + 1).toNat).map (fun (i : Nat) => lo + (i : Int))

/-- values within `d` of every power of two up to `2^maxPow`, positive and (if signed) negative,
    clipped to `[lo, hi]` -/
def nearPowers (d : Nat) (maxPow : Nat) (signed : Bool) (lo hi : Int) : List Int :=
  let ps := (List.range (maxPow + 1)).map (fun k => ((2 : Int) ^ k))
  let around (c : Int) := intRange (c - d) (c + d)
  let pos := ps.flatMap around
  let all := if signed then pos ++ (ps.flatMap fun p => around (-p)) else pos
  (all ++ around lo ++ around hi ++ around 0).filter (fun v => lo ≤ v ∧ v ≤ hi) |>.eraseDups

def strideSweep (step : Nat) (bound : Nat) (signed : Bool) : List Int :=
  let n := bound / step
  let pos := (List.range n).map (fun i => ((i * step : Nat) : Int))
  if signed then pos ++ pos.map (fun v => -v - 1) else pos

/-! ### random values -/

def keyTys : List Ty := [.bool, .uint .w1, .sint .w2, .uint .w4, .sint .w8, .varint32, .varuint62, .str]
def leafTys : List Ty :=
  [.bool, .uint .w1, .uint .w2, .uint .w4, .uint .w8, .sint .w1, .sint .w2, .sint .w4, .sint .w8, .f32, .f64,
   .varint32, .varuint32, .varint62, .varuint62, .size, .str]

def genTy : Nat → Rng → Ty × Rng
  | 0, r => r.pick leafTys
  | d + 1, r =>
    let (c, r) := r.below 6
    match c with
    | 0 | 1 => let (t, r) := genTy d r; (.seq t, r)
    | 2 => let (k, r) := r.pick keyTys; let (v, r) := genTy d r; (.dictB k v, r)
    | 3 => let (k, r) := r.pick keyTys; let (v, r) := genTy d r; (.dictH k v, r)
    | _ => r.pick leafTys

/-- a random integer in `[lo, hi]`, biased towards the interesting magnitudes -/
def genInt (lo hi : Int) (r : Rng) : Int × Rng :=
  let (c, r) := r.below 8
  let span := (hi - lo + 1).toNat
  let (x, r) := r.next
  let (y, r) := r.next
  let big : Nat := x.toNat * 2 ^ 64 + y.toNat
  let v : Int :=
    match c with
    | 0 => lo + ((big % span : Nat) : Int)
    | 1 => lo + ((big % 3 : Nat) : Int)
    | 2 => hi - ((big % 3 : Nat) : Int)
    | 3 => ((big % 64 : Nat) : Int) - 32
    | 4 => ((big % 16384 : Nat) : Int) - 8192
    | 5 => ((big % 2 ^ 30 : Nat) : Int) - 2 ^ 29
    | _ => let k := big % 63; ((2 : Int) ^ k) + ((big / 64 % 5 : Nat) : Int) - 2
  (if v < lo then lo else if hi < v then hi else v, r)

def utf8Of (c : Nat) : Bytes := (String.singleton (Char.ofNat c)).toUTF8.toList

/-- a random code point from all planes (never a surrogate: `Char.ofNat` maps those to 0) -/
def genCodePoint (r : Rng) : Nat × Rng :=
  let (c, r) := r.below 6
  let (x, r) := r.next
  let n := x.toNat
  let cp := match c with
    | 0 => n % 128
    | 1 => 128 + n % (2048 - 128)
    | 2 => 2048 + n % (0xD800 - 2048)
    | 3 => 0xE000 + n % (0x10000 - 0xE000)
    | 4 => 0x10000 + n % (0x110000 - 0x10000)
    | _ => [0, 0x7F, 0x80, 0x7FF, 0x800, 0xD7FF, 0xE000, 0xFFFF, 0x10000, 0x10FFFF].getD (n % 10) 0
  (cp, r)

def genStr (maxLen : Nat) (r : Rng) : Bytes × Rng :=
  let (n, r) := r.below (maxLen + 1)
  let rec go : Nat → Rng → Bytes → Bytes × Rng
    | 0, r, acc => (acc, r)
    | k + 1, r, acc => let (cp, r) := genCodePoint r; go k r (acc ++ utf8Of cp)
  go n r []

def genListOf {α} (g : Rng → α × Rng) : Nat → Rng → List α × Rng
  | 0, r => ([], r)
  | n + 1, r => let (x, r) := g r; let (xs, r) := genListOf g n r; (x :: xs, r)

def dedupKeys {α β} [DecidableEq α] : List (α × β) → List α → List (α × β)
  | [], _ => []
  | (k, v) :: es, seen => if k ∈ seen then dedupKeys es seen else (k, v) :: dedupKeys es (k :: seen)

def bytesLt : Bytes → Bytes → Bool
  | [], [] => false
  | [], _ :: _ => true
  | _ :: _, [] => false
  | a :: as, b :: bs => if a < b then true else if b < a then false else bytesLt as bs

/-- Rust `Ord` on the key types the generator uses -/
def keyLt : (t : Ty) → Val t → Val t → Bool
  | .bool, a, b => boolLt a b
  | .uint _, a, b => intLt a b
  | .sint _, a, b => intLt a b
  | .varint32, a, b => intLt a b
  | .varuint32, a, b => intLt a b
  | .varint62, a, b => intLt a b
  | .varuint62, a, b => intLt a b
  | .size, a, b => intLt a b
  | .str, a, b => bytesLt a b
  | _, _, _ => false

def insertSorted {α β} (lt : α → α → Bool) (e : α × β) : List (α × β) → List (α × β)
  | [] => [e]
  | x :: xs => if lt e.1 x.1 then e :: x :: xs else x :: insertSorted lt e xs

def sortEntries {α β} (lt : α → α → Bool) (es : List (α × β)) : List (α × β) :=
  es.foldl (fun acc e => insertSorted lt e acc) []

def genBool (r : Rng) : Bool × Rng := let (b, r) := r.below 2; (b == 1, r)

def genVal : (t : Ty) → Rng → Val t × Rng
  | .bool, r => genBool r
  | .uint w, r => genInt 0 (2 ^ (8 * w.n) - 1) r
  | .sint w, r => genInt (-(2 ^ (8 * w.n - 1))) (2 ^ (8 * w.n - 1) - 1) r
  | .f32, r => natOfInt (genInt 0 (2 ^ 32 - 1) r)
  | .f64, r => natOfInt (genInt 0 (2 ^ 64 - 1) r)
  | .varint32, r => genInt (-(2 ^ 31)) (2 ^ 31 - 1) r
  | .varuint32, r => genInt 0 (2 ^ 32 - 1) r
  | .varint62, r => genInt (-(2 ^ 61)) (2 ^ 61 - 1) r
  | .varuint62, r => genInt 0 (2 ^ 62 - 1) r
  | .size, r => genInt 0 (2 ^ 62 - 1) r
  | .str, r => genStr 6 r
  | .seq t, r => let (n, r) := r.below 4; genListOf (genVal t) n r
  | .dictB k v, r =>
    let (n, r) := r.below 4
    let (es, r) := genListOf (fun r => let (a, r) := genVal k r; let (b, r) := genVal v r; ((a, b), r)) n r
    (sortEntries (keyLt k) (dedupKeys es []), r)
  | .dictH k v, r =>
    let (n, r) := r.below 4
    let (es, r) := genListOf (fun r => let (a, r) := genVal k r; let (b, r) := genVal v r; ((a, b), r)) n r
    (dedupKeys es [], r)

def floatCorpus32 : List Nat :=
  [0, 0x80000000, 0x3F800000, 0xBF800000, 0x7F800000, 0xFF800000, 0x7FC00000, 0x7FC00001, 0xFFC00000,
   0x7F800001, 0x7FFFFFFF, 0xFFFFFFFF, 1, 0x007FFFFF, 0x00800000, 0x7F7FFFFF, 0x7FA5A5A5]
def floatCorpus64 : List Nat :=
  [0, 0x8000000000000000, 0x3FF0000000000000, 0x7FF0000000000000, 0xFFF0000000000000, 0x7FF8000000000000,
   0x7FF8000000000001, 0x7FF0000000000001, 0xFFFFFFFFFFFFFFFF, 1, 0x000FFFFFFFFFFFFF, 0x0010000000000000,
   0x7FEFFFFFFFFFFFFF, 0x7FF5A5A5A5A5A5A5]

def genC10 (tier : Tier) (seed : Nat) (o : Out) : IO Unit := do
  -- fixed width, exhaustive for 8/16 bits
  for b in [false, true] do o.line (encCase "bool" .bool b)
  for v in intRange 0 255 do o.line (encCase "u8" (.uint .w1) v)
  for v in intRange (-128) 127 do o.line (encCase "i8" (.sint .w1) v)
  for v in intRange 0 65535 do o.line (encCase "u16" (.uint .w2) v)
  for v in intRange (-32768) 32767 do o.line (encCase "i16" (.sint .w2) v)
  for v in nearPowers 64 32 false 0 (2 ^ 32 - 1) do o.line (encCase "u32" (.uint .w4) v)
  for v in nearPowers 64 31 true (-(2 ^ 31)) (2 ^ 31 - 1) do o.line (encCase "i32" (.sint .w4) v)
  for v in nearPowers 64 64 false 0 (2 ^ 64 - 1) do o.line (encCase "u64" (.uint .w8) v)
  for v in nearPowers 64 63 true (-(2 ^ 63)) (2 ^ 63 - 1) do o.line (encCase "i64" (.sint .w8) v)
  for b in floatCorpus32 do o.line (encCase "f32" .f32 b)
  for b in floatCorpus64 do o.line (encCase "f64" .f64 b)
  -- variable width: small magnitudes exhaustively, thresholds, strided sweep
  let small : Nat := if tier == .thorough then 2 ^ 20 else 2 ^ 16
  for v in intRange 0 (small - 1) do
    o.line (encCase "vu62-small" .varuint62 v)
    o.line (encCase "vi62-small" .varint62 v)
    o.line (encCase "vi62-small" .varint62 (-v - 1))
  for v in intRange 0 (2 ^ 14 + 64) do
    o.line (encCase "vu32-small" .varuint32 v)
    o.line (encCase "vi32-small" .varint32 v)
    o.line (encCase "vi32-small" .varint32 (-v - 1))
    o.line (encCase "size-small" .size v)
  for v in nearPowers 64 64 false 0 (2 ^ 64 - 1) do o.line (encCase "vu62-pow" .varuint62 v)
  for v in nearPowers 64 63 true (-(2 ^ 63)) (2 ^ 63 - 1) do o.line (encCase "vi62-pow" .varint62 v)
  for v in nearPowers 64 32 false 0 (2 ^ 32 - 1) do o.line (encCase "vu32-pow" .varuint32 v)
  for v in nearPowers 64 31 true (-(2 ^ 31)) (2 ^ 31 - 1) do o.line (encCase "vi32-pow" .varint32 v)
  for v in nearPowers 64 64 false 0 (2 ^ 64 - 1) do o.line (encCase "size-pow" .size v)
  let step := if tier == .thorough then 257 else 4099
  for v in strideSweep step (2 ^ 30) false do o.line (encCase "vu62-stride" .varuint62 v)
  for v in strideSweep step (2 ^ 30) true do o.line (encCase "vi62-stride" .varint62 v)
  -- random strings and random structured values
  let nRand := if tier == .thorough then 50000 else 2000
  let mut r := Rng.mk' seed
  for _ in [0:nRand] do
    let (s, r') := genStr 12 r
    r := r'
    o.line (encCase "str" .str s)
  o.line (encCase "str" .str [])
  -- long strings: a multi-byte character straddling every offset near the boundaries of the size encoding (63/64, 16 383/16 384
  -- bytes) and near the powers of two a chunked copy would use; also plain ASCII of exactly those lengths
  for bnd in [64, 128, 256, 512, 1024, 2048, 4096, 8192, 16384] do
    for back in [0, 1, 2, 3, 4] do
      let pre : Bytes := List.replicate (bnd - back) 0x78
      o.line (encCase "str-long" .str pre)
      for cp in [0xE9, 0x20AC, 0x1F600] do
        o.line (encCase "str-long" .str (pre ++ utf8Of cp ++ [0x7A]))
        o.line (encCase "str-long" .str (pre ++ utf8Of cp ++ utf8Of cp ++ List.replicate (bnd - 2) 0x79 ++ utf8Of cp))
  for _ in [0:nRand] do
    let (d, r1) := r.below 4
    let (t, r2) := genTy d r1
    let (v, r3) := genVal t r2
    r := r3
    o.line (encCase "rand" t v)

end Slicec.Drv
