/- Cases for C06 through the whole compiler (engine `compile`, projection `codes`): the symbols given with `-D` reach the
   preprocessor exactly as written — every identifier the directive lexer accepts (`[a-zA-Z][_a-zA-Z0-9]*`), no other symbol is
   defined by them, and symbols are per file. The expectation follows by construction from which branch defines `A`. -/
import SlicecVerif.Drv.Prog

namespace Slicec.Drv

/-- `U` needs `A`, which only the `#if sym` branch defines -/
def c06cText (sym : String) (negated : Bool) : String :=
  "module Test\n#if " ++ (if negated then "!" else "") ++ sym ++ "\nstruct A {}\n#else\nstruct B {}\n#endif\nstruct U { x: A }\n"

def genC06c (_tier : Tier) (_seed : Nat) (o : Out) : IO Unit := do
  let syms := ["Foo", "HAS_V2", "HAS_V1", "HAS", "a_b_c", "X__", "A1", "A1_", "z9_9z", "V", "V_", "Vv", "V2", "snake_case_symbol_with_a_long_name_1"]
  for s in syms do
    -- defined: the `#if s` branch is taken; `!s` is not
    o.line (compileCase "defined" "codes" ("D=" ++ s) [c06cText s false] "-")
    o.line (compileCase "defined" "codes" ("D=" ++ s) [c06cText s true] "E033")
    -- not defined
    o.line (compileCase "undefined" "codes" "-" [c06cText s false] "E033")
    o.line (compileCase "undefined" "codes" "-" [c06cText s true] "-")
    -- every OTHER symbol of the list is defined, this one is not: prefixes / extensions / other spellings do not define it
    let others := ";".intercalate ((syms.filter (· != s)).map ("D=" ++ ·))
    o.line (compileCase "only-others-defined" "codes" others [c06cText s false] "E033")
    o.line (compileCase "only-others-defined" "codes" others [c06cText s true] "-")
    -- defined twice, and next to others
    o.line (compileCase "defined-among-others" "codes" (others ++ ";D=" ++ s ++ ";D=" ++ s) [c06cText s false] "-")
  -- `-D` applies to every file; `#define` / `#undef` inside a file do not leak into the next one
  o.line (compileCase "per-file" "codes" "D=HAS_V2" ["#undef HAS_V2\nmodule M\n#if HAS_V2\nstruct X {}\n#endif\n", "module M\n#if HAS_V2\nstruct A {}\n#endif\nstruct U { x: A }\n"] "-")
  o.line (compileCase "per-file" "codes" "-" ["#define HAS_V2\nmodule M\n", "module M\n#if HAS_V2\nstruct A {}\n#endif\nstruct U { x: A }\n"] "E033")

end Slicec.Drv
