/- Cases for C09, stream `C09lex`: the LOCATIONS of the Slice lexer's tokens — model Model/SliceLexerLoc.lean
   (`lexRunLoc`, one block starting at 1:1) against the real lexer (engine `slicelex`, op `lexloc`, hook
   `verif_hooks::lex_slice`).  Case line: `lexloc <fam> <text hex> <expected located stream>`; an element of the
   stream is `<token as in C02lex>@<start row>.<start col>-<end row>.<end col>`.
   Families (the input families of Drv/C02lex.lean, reused): `soup` (bounded-exhaustive sequences of lexical pieces),
   `malformed` (the catalogue of malformed / boundary inputs in 4 contexts) and `located` (a catalogue aimed at the
   cursor: tabs, CR LF, lone CR, multi-byte characters in comments / strings / doc comments, tokens after multi-line
   comments, errors that end at a line break) each also shifted by a prefix that moves row and column,
   `rendered` (generated programs in several layouts; the theorems' conclusions are re-checked on them: `K` lines),
   `random` (random piece soups). -/
import SlicecVerif.Drv.C02lex
import SlicecVerif.Model.SliceLexerLoc

namespace Slicec.Drv.C09L

open Slicec Slicec.SLex Slicec.Drv Slicec.Drv.C02L

def showLoc (a b : Loc) : String := s!"{a.row}.{a.col}-{b.row}.{b.col}"

def showLItem (i : LLexItem) : String := showLexItem i.item ++ "@" ++ showLoc i.start i.stop

def showLStream (items : List LLexItem) : String :=
  if items.isEmpty then "-" else ",".intercalate (items.map showLItem)

def lexLocCase (fam : String) (text : String) : String :=
  tab ["lexloc", fam, hexOfString text, showLStream (lexRunLoc false ⟨1, 1⟩ text.toList).items]

/-- inputs aimed at the cursor bookkeeping -/
def locatedCatalogue : List String :=
  [ -- tabs, CR, CR LF, multi-byte characters are one column each; LF starts a row
    "\ta", "\t\tstruct\tS", "a\rb", "a\r\nb", "a\r\n\r\nb", "a\n\rb", "é a", "/*é✓ü*/a", "/* 😀 */ a", "\u00a0a", "\u2028a\u2029b", "\u3000struct",
    "a\u000bb\u000cc", "\u0085a",
    -- strings: quotes included, multi-byte and escapes inside
    "\"\"", "\"é✓\" x", "\"a\\\"b\" x", "\"\t\" x", "\"😀😀\"\n\"b\"", "x \"a\rb\" y", "\"a\\\\\" b",
    -- unterminated strings end in front of the line break / at the end of the block
    "\"abc", "\"abc\nx", "\"é\\\nx", " \"a\\", "\"a\r\nb\"",
    -- comments: the token after a multi-line comment; nested openers; unterminated block comment
    "/* a\n b\n  c */ x", "/*\n*/x", "/**/x", "/* é\n ✓ */\tx", "// c\nx", "// é✓\r\nx", "//\nx", "////x\ny", "/* a", "/* a\n\n b", "x /* é\n",
    "a /* b */ c /* d\n */ e",
    -- doc comments start after the three slashes and end at the end of the line (CR walked over)
    "///", "///a", "/// a b \nx", "///é✓\nx", "  /// d\r\n  x", "\t///\tq\n", "/// a\r\r\nb", "/// a\rb\nc", "x ///y\n///z", "///\n///\n",
    "/// 😀\n/// é\nstruct",
    -- escaped identifiers start at the backslash
    "\\a", " \\struct x", "\\a\\b", "\t\\x_1:\\y", "\\é", "\\", "a\\",
    -- two-character tokens
    "::", "a::b", "->", "[[", "]]", "[[a]]", ":::", "-->", "[[[", "x->y", "- >", ": :",
    -- unknown symbols and the lone slash
    "/", "/ x", "a / b\n/ c", "$", "é", "a é b", "😀", "a\n😀\nb", "#\n#",
    -- a small program
    "module M\n\n/// doc\nstruct S {\n\ta: int32\r\n\tb: \\tag // é\n}\n",
    "[[a::b(\"é\", x)]]\r\nmodule \\module::Sub\r\ninterface I {\r\n    idempotent op(a: int32, tag(1) b: string?) -> (x: bool, y: Sequence<int8>)\r\n}\r\n" ]

/-- prefixes that move the starting row / column of what follows -/
def shifts : List String := ["", " ", "\n", "\t\n  ", "é", "/* x\n y */", "\r\n\r\n "]

end Slicec.Drv.C09L

namespace Slicec.Drv

open Slicec Slicec.SLex Slicec.Drv.C02L Slicec.Drv.C09L

def genC09lex (tier : Tier) (seed : Nat) (o : Out) : IO Unit := do
  -- bounded-exhaustive soups, smallest first
  let maxLen := if tier == .thorough then 3 else 2
  for n in [0:maxLen + 1] do
    for s in soups n do o.line (lexLocCase "soup" s)
  -- the cursor catalogue, shifted
  for s in locatedCatalogue do
    for p in shifts do
      o.line (lexLocCase "located" (p ++ s))
    o.line (lexLocCase "located" (s ++ "\n" ++ s))
    o.line (lexLocCase "located" (s ++ " " ++ s))
  -- the catalogue of C02lex, alone and followed / preceded by a token
  for s in malformedCatalogue do
    o.line (lexLocCase "malformed" s)
    o.line (lexLocCase "malformed" (s ++ " struct"))
    o.line (lexLocCase "malformed" ("[x " ++ s))
    o.line (lexLocCase "malformed" (s ++ "\n" ++ s))
  -- generated programs, rendered; the conclusions of the theorems of Props/C09.lean are re-evaluated on them
  -- (`K` lines would show a disagreement between the theorems' hypotheses and the generator)
  let nProg := if tier == .thorough then 4000 else 400
  let layouts := if tier == .thorough then 6 else 3
  let mut r := Rng.mk' (seed + 909)
  for i in [0:nProg] do
    let cfg : GenCfg := { maxFiles := 1 + i % 2, maxDefs := 1 + i % 4, typeDepth := i % 4 }
    let (p, r') := genProgram cfg r
    r := r'
    for f in p do
      let items := fileItems f
      if !(fileOk f && fileTight f) then
        o.line (tab ["K", "C09lex", "fileTight", hexOfString (printFile f), "a generated program does not satisfy the hypotheses fileOk / fileTight of spans_are_token_extents"])
      if !(itemsTight items) then
        o.line (tab ["K", "C09lex", "itemsTight", hexOfString (printFile f), "a generated program writes an item whose text does not start and end with a token (itemsTight)"])
      for style in [0:layouts] do
        let sd := seed * 1000 + i * 10 + style
        let rr := render style sd items
        o.line (lexLocCase (if style == 0 then "rendered-canonical" else "rendered-layout") rr.1)
        let toks := tokenLocs style sd items
        if lexSliceLoc rr.1.toList != .ok toks then
          o.line (tab ["K", "C09lex", "tokenLocs", hexOfString rr.1, "the rendered text does not lex to the located tokens the printer's bookkeeping names"])
        let sp := (spanTokens style sd items).map (spanOfTokens toks)
        if sp.map (fun s => (s.path, s.start, s.stop)) != rr.2.map (fun s => (s.path, s.start, s.stop)) then
          o.line (tab ["K", "C09lex", "spanTokens", hexOfString rr.1, "a reported span is not (start of its first token, end of its last token)"])
  -- random soups
  let nRand := if tier == .thorough then 120000 else 12000
  for _ in [0:nRand] do
    let (len, r1) := r.below 9
    r := r1
    let mut s := ""
    for _ in [0:len + 3] do
      let (p, r2) := r.pick lexPieces
      r := r2
      s := s ++ p
    o.line (lexLocCase "random" s)

end Slicec.Drv
