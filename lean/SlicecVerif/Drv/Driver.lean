/-
  Scenario plumbing shared by the C07 and C18 streams (process engine `procrun/driver.py`).

  One scenario per line, tab separated:

    run <fam> <files> <argv> <gens> <outdir> <expected>

  Strings/bytes travel hex-encoded (`-` = empty string / empty list). The runner materialises
  `<scratch>/{src,gen,work}`, runs `slicec --diagnostic-format json <argv…> ../src/<file>… -G ../gen/<g>… [-O dir]`
  with `work` as the current directory.

  <files>   `;`-joined, in command-line order:  hex(name)=hex(text)  file `src/<name>` with that content
                                                 hex(name)=!          named on the command line, not created
                                                 hex(name)=+          named once more, nothing created
  <argv>    `,`-joined hex(arg): extra arguments (`--dry-run`, `-A`, `All`, …)
  <gens>    `;`-joined  hex(name),hex(suffix),<beh> : passed as `-G ../gen/<name><suffix>`
              <beh> = missing                    no such file                                  (ENOENT)
                    | noexec                     a file without any execute bit                (EACCES)
                    | x:<code>:<err>:<out>       reads all of stdin, writes hex <err> to stderr and hex <out>
                                                 to stdout, exits with <code>
                    | s:<sig>:<err>:<out>        the same, then kills itself with signal <sig> (9, 11)
                    | n:<code>:<out>             closes stdin WITHOUT reading, writes <out>, exits with <code>
                                                 (the compiler's write may or may not hit EPIPE: the expected
                                                 field then lists both model answers separated by `|`)
  <outdir>  <mode>,hex(dir),<pre>   mode a: no `-O`;  d: `-O dir`, directory created;
                                    f: `-O dir`, the first component of dir is a regular file (ENOTDIR);
                                    m: `-O dir`, dir does not exist (ENOENT)
              <pre> = `;`-joined hex(path)=hex(content): files present before the run (paths relative to `work`,
              parents created, mtime set to the past)
  <expected> one or more `|`-separated alternatives, each
       exit=<n>;att=<hex(name),…>;args=<hex(name)=hex(stdin after the shared payload),…>;cd=<sev:code,… sorted>;
       gd=<r:hex(generator path) | w:hex(file path), … in order>;files=<hex(path)=hex(content),… sorted>;kept=<hex(path),…>
     att   generators for which a spawn was attempted (scripts leave a marker file)
     args  generators whose process existed: what follows the shared request on their stdin
     cd    diagnostics of the compilation that are printed (level ≠ Allowed), as a sorted multiset
     gd    E001 diagnostics of the generator block, in order: r = "run code-generator", w = "write generated file"
     files regular files below `work` after the run
     kept  files present before the run for which the model performs no write (inode and mtime must survive)
-/
import SlicecVerif.Model.Driver
import SlicecVerif.Drv.Common

namespace Slicec.Drv.Proc

open Slicec Slicec.Drv Slicec.Driver

def b (s : String) : Bytes := s.toUTF8.toList

def hx (bs : Bytes) : String := hexField bs

def joinOr (sep : String) (xs : List String) : String := if xs.isEmpty then "-" else sep.intercalate xs

/-! ### generators on the wire -/

inductive BehSpec where
  | missing
  | noexec
  | x (code : Nat) (err out : Bytes)
  | s (sig : Nat) (err out : Bytes)
  | n (code : Nat) (out : Bytes)
  deriving Repr, Inhabited

def BehSpec.show : BehSpec → String
  | .missing => "missing"
  | .noexec => "noexec"
  | .x c e o => s!"x:{c}:{hx e}:{hx o}"
  | .s g e o => s!"s:{g}:{hx e}:{hx o}"
  | .n c o => s!"n:{c}:{hx o}"

/-- the behaviours of the model a scripted generator can show (more than one only for `n`) -/
def BehSpec.behaviours : BehSpec → List Behaviour
  | .missing => [.spawnError]
  | .noexec => [.spawnError]
  | .x c e o => [.exited c e o]
  | .s _ e o => [.signalled e o]
  | .n c o => [.stdinError, .exited c [] o]

structure GenSpec where
  name : String
  args : List (String × String)
  beh : BehSpec
  deriving Inhabited

def genPath (name : String) : Path := b ("../gen/" ++ name)

/-- `,k=v` per argument (`,k` when the value is empty): simple keys and values, no escapes (C19 owns the parser) -/
def GenSpec.suffix (g : GenSpec) : String :=
  String.join (g.args.map fun (k, v) => if v.isEmpty then "," ++ k else "," ++ k ++ "=" ++ v)

def GenSpec.generator (g : GenSpec) : Generator :=
  ⟨genPath g.name, g.args.map fun (k, v) => (b k, b v)⟩

def GenSpec.show (g : GenSpec) : String :=
  ",".intercalate [hexOfString g.name, hexOfString g.suffix, g.beh.show]

/-- all combinations of the behaviours of the generators (one unless an `n` generator is present) -/
def genRuns : List GenSpec → List (List GenRun)
  | [] => [[]]
  | g :: rest =>
    let tails := genRuns rest
    g.beh.behaviours.flatMap fun bh => tails.map fun t => ⟨g.generator, bh⟩ :: t

/-! ### output directory and initial files -/

structure OutSpec where
  mode : String                  -- a d f m
  dir : String
  pre : List (String × Bytes)
  deriving Inhabited

def OutSpec.show (o : OutSpec) : String :=
  ",".intercalate [o.mode, hexOfString o.dir,
    joinOr ";" (o.pre.map fun (p, c) => hexOfString p ++ "=" ++ hx c)]

def OutSpec.outputDir (o : OutSpec) : Option Path := if o.mode == "a" then none else some (b o.dir)

/-- everything before the last `/` -/
def parentOf (p : Path) : Path :=
  let r := p.reverse.dropWhile (· != slash)
  (r.drop 1).reverse

/-- all ancestors of a relative path, including the empty one (the current directory) -/
def ancestors (p : Path) : List Path :=
  let rec go : Nat → Path → List Path
    | 0, _ => [[]]
    | k + 1, q => if q.isEmpty then [[]] else q :: go k (parentOf q)
  go (p.length + 1) (parentOf p)

/-- directories that exist in `work` before the run -/
def OutSpec.dirs (o : OutSpec) : List Path :=
  let fromPre := o.pre.flatMap fun (p, _) => ancestors (b p)
  let fromOut := if o.mode == "d" then b o.dir :: ancestors (b o.dir) else []
  [[]] ++ fromPre ++ fromOut

def OutSpec.fs (o : OutSpec) : FileSystem :=
  let pre := o.pre.map fun (p, c) => (b p, c)
  let dirs := o.dirs
  { files := fun p => (pre.find? (·.1 == p)).map (·.2),
    unwritable := fun p => !(dirs.contains (parentOf p)) }

/-! ### scenario → line -/

inductive FileSpec where
  | text (t : Bytes)
  | absent
  | again
  /-- a symbolic link to itself: the path exists as a directory entry but cannot be opened or examined (ELOOP — an I/O failure
      other than "no such file") -/
  | selfLink
  deriving Inhabited

structure Scenario where
  fam : String
  files : List (String × FileSpec)
  argv : List String
  dryRun : Bool
  allowed : List String
  outcomes : PhaseOutcomes
  gens : List GenSpec
  out : OutSpec

def insertSortedStr (x : String) : List String → List String
  | [] => [x]
  | y :: ys => if x ≤ y then x :: y :: ys else y :: insertSortedStr x ys

def sortStrs (xs : List String) : List String := xs.foldr insertSortedStr []

def dedupBytes : List Bytes → List Bytes
  | [] => []
  | x :: xs => x :: (dedupBytes xs).filter (· != x)

def showLevel : DLevel → String
  | .error => "error" | .warning => "warning" | .allowed => "allowed"

def isGenDiag : Diag → Bool
  | .io .runGenerator _ => true
  | .io .writeGenerated _ => true
  | _ => false

def showGenDiag : Diag → String
  | .io .runGenerator p => "r:" ++ hx p
  | .io .writeGenerated p => "w:" ++ hx p
  | _ => "?"

def baseName (p : Path) : Bytes := (p.reverse.takeWhile (· != slash)).reverse

def showResult (o : OutSpec) (r : Result) : String :=
  let printed := r.diags.filter (fun d => d.2 != .allowed)
  let cd := sortStrs ((printed.filter (fun d => !isGenDiag d.1)).map fun d => showLevel d.2 ++ ":" ++ d.1.code)
  let gd := (printed.filter (fun d => isGenDiag d.1)).map (fun d => showGenDiag d.1)
  let prePaths := o.pre.map (fun (p, _) => b p)
  let written := r.world.writes.map (·.1)
  let cands := dedupBytes (prePaths ++ written)
  let files := sortStrs (cands.filterMap fun p => (r.world.fs.files p).map fun c => hx p ++ "=" ++ hx c)
  let kept := sortStrs ((prePaths.filter fun p => !written.contains p).map hx)
  ";".intercalate [
    "exit=" ++ toString r.status,
    "att=" ++ joinOr "," (r.attempted.map fun g => hx (baseName g.path)),
    "args=" ++ joinOr "," (r.requests.map fun (g, bs) => hx (baseName g.path) ++ "=" ++ hx bs),
    "cd=" ++ joinOr "," cd,
    "gd=" ++ joinOr "," gd,
    "files=" ++ joinOr "," files,
    "kept=" ++ joinOr "," kept]

def dedupStrs : List String → List String
  | [] => []
  | x :: xs => x :: (dedupStrs xs).filter (· != x)

/-- the model is run with an EMPTY shared payload, so that `requests` holds exactly what follows the
    shared request on each generator's stdin -/
def Scenario.expected (s : Scenario) : String :=
  let opts : Options := ⟨s.dryRun, s.out.outputDir, s.allowed⟩
  let alts := (genRuns s.gens).map fun runs => showResult s.out (runDriver opts s.outcomes (some []) runs s.out.fs)
  "|".intercalate (dedupStrs alts)

def showFileSpec : String × FileSpec → String
  | (n, .text t) => hexOfString n ++ "=" ++ hx t
  | (n, .absent) => hexOfString n ++ "=!"
  | (n, .again) => hexOfString n ++ "=+"
  | (n, .selfLink) => hexOfString n ++ "=@"

def Scenario.line (s : Scenario) : String :=
  tab ["run", s.fam, joinOr ";" (s.files.map showFileSpec), joinOr "," (s.argv.map hexOfString),
       joinOr ";" (s.gens.map GenSpec.show), s.out.show, s.expected]

/-! ### programs: per-file kinds and the phase outcomes they stand for -/

structure FileKind where
  tag : String
  /-- text of the file with index `i` (identifiers are made unique by `i`) -/
  text : Nat → FileSpec
  /-- the phase in which this file makes the compiler speak, and what it says -/
  emits : Option (Phase × (String → Diag))
  deriving Inhabited

/-- how many times the file makes the compiler say it -/
def FileKind.count (k : FileKind) : Nat :=
  if k.tag == "wdepmany" then 120 else if k.tag == "wdocmany" then 110 else 1

def srcText (s : String) : FileSpec := .text (b s)

def kClean : FileKind := ⟨"clean", fun i => srcText s!"module M\nstruct C{i} \{ x: int32 }\n", none⟩
def kWDep : FileKind :=
  ⟨"wdep", fun i => srcText s!"module M\n[deprecated] struct D{i} \{}\nstruct U{i} \{ d: D{i} }\n",
   some (.typeRefs, fun _ => .lint "Deprecated" false)⟩
def kWAllow : FileKind :=
  ⟨"wallow", fun i => srcText s!"module M\n[deprecated] struct DA{i} \{}\n[allow(Deprecated)] struct UA{i} \{ d: DA{i} }\n",
   some (.typeRefs, fun _ => .lint "Deprecated" true)⟩
def kWLink : FileKind :=
  ⟨"wlink", fun i => srcText s!"module M\n/// See \{@link Nope{i}}.\nstruct L{i} \{}\n",
   some (.links, fun _ => .lint "BrokenDocLink" false)⟩
def kWDoc : FileKind :=
  ⟨"wdoc", fun i => srcText s!"module M\n/// @foo bar\nstruct W{i} \{}\n",
   some (.parse, fun _ => .lint "MalformedDocComment" false)⟩
/-- 120 uses of a deprecated type: more diagnostics than any plausible internal limit, all recorded before the later phases run -/
def kWDepMany : FileKind :=
  ⟨"wdepmany", fun i => srcText (s!"module M\n[deprecated] struct DM{i} \{}\nstruct UM{i} \{\n" ++
      String.join ((List.range 120).map fun j => s!"    f{j}: DM{i}\n") ++ "}\n"),
   some (.typeRefs, fun _ => .lint "Deprecated" false)⟩
/-- 110 malformed doc comments (recorded while parsing) -/
def kWDocMany : FileKind :=
  ⟨"wdocmany", fun i => srcText (s!"module M\n" ++ String.join ((List.range 110).map fun j => s!"/// @foo bar\nstruct WM{i}x{j} \{}\n")),
   some (.parse, fun _ => .lint "MalformedDocComment" false)⟩
def kEMissing : FileKind := ⟨"emissing", fun _ => .absent, some (.resolve, fun p => .io .read (b p))⟩
def kELoop : FileKind := ⟨"eloop", fun _ => .selfLink, some (.resolve, fun p => .io .read (b p))⟩
def kEUtf8 : FileKind :=
  ⟨"eutf8", fun _ => .text (b "module M\n" ++ [0xFF, 0xFE, 0x0A]), some (.resolve, fun p => .io .read (b p))⟩
def kESyntax : FileKind := ⟨"esyntax", fun _ => srcText "module M\nstruct {\n", some (.parse, fun _ => .error "E002")⟩
def kEHidden : FileKind := ⟨"ehidden", fun _ => srcText "module M\nstruct {\n", some (.parse, fun _ => .error "E002")⟩
def kEAttr : FileKind :=
  ⟨"eattr", fun i => srcText s!"module M\n[foo] struct A{i} \{}\n", some (.attributes, fun _ => .error "E024")⟩
def kEUnres : FileKind :=
  ⟨"eunres", fun i => srcText s!"module M\nstruct R{i} \{ a: Missing{i} }\n", some (.typeRefs, fun _ => .error "E033")⟩
def kECycle : FileKind :=
  ⟨"ecycle", fun i => srcText s!"module M\nstruct Y{i} \{ s: Y{i} }\n", some (.cycles, fun _ => .error "E032")⟩
def kERedef : FileKind :=
  ⟨"eredef", fun i => srcText s!"module M\nstruct X{i} \{}\nstruct X{i} \{}\n", some (.redefinitions, fun _ => .error "E010")⟩
def kERule : FileKind :=
  ⟨"erule", fun i => srcText s!"module M\ncompact struct V{i} \{}\n", some (.visitor, fun _ => .error "E018")⟩

def warnKinds : List FileKind := [kWDep, kWLink, kWDoc, kWAllow]
def errKinds : List FileKind := [kEMissing, kELoop, kEUtf8, kESyntax, kEHidden, kEAttr, kEUnres, kECycle, kERedef, kERule]

def fileName (i : Nat) : String := s!"f{i}.slice"
/-- a file whose name starts with a dot is an input like any other when it is named on the command line -/
def nameFor (i : Nat) (k : FileKind) : String := if k.tag == "ehidden" then s!".f{i}.slice" else fileName i

/-- a program = one kind per file; `dup` names the first file a second time (DuplicateFile lint) -/
structure Program where
  kinds : List FileKind
  dup : Bool := false

def Program.tag (p : Program) : String :=
  "+".intercalate (p.kinds.map (·.tag)) ++ (if p.dup then "+dup" else "")

def Program.files (p : Program) : List (String × FileSpec) :=
  let fs := (List.range p.kinds.length).zip p.kinds |>.map fun (i, k) => (nameFor i k, k.text i)
  if p.dup then fs ++ [(fileName 0, .again)] else fs

def Program.outcomes (p : Program) : PhaseOutcomes :=
  let idx := (List.range p.kinds.length).zip p.kinds
  let at' (ph : Phase) : List Diag :=
    idx.flatMap fun (i, k) =>
      match k.emits with
      | some (q, d) => if q == ph then List.replicate k.count (d ("../src/" ++ nameFor i k)) else []
      | none => []
  let readable := idx.filter fun (_, k) => !(k.emits.map (·.1) == some Phase.resolve)
  { resolve := at' .resolve ++ (if p.dup then [.lint "DuplicateFile" false] else []),
    parse := readable.map fun (_, k) =>
      match k.emits with
      | some (.parse, d) => List.replicate k.count (d "")
      | _ => [],
    attributes := at' .attributes, typeRefs := at' .typeRefs, links := at' .links,
    cycles := at' .cycles, redefinitions := at' .redefinitions, visitor := at' .visitor }

/-! ### replies -/

def gf (p c : String) : GenFile := ⟨b p, b c⟩

def reply (fs : List GenFile) (ds : List GDiag) : Bytes := (encReply fs ds).getD []

def okBeh (fs : List GenFile) (ds : List GDiag := []) : BehSpec := .x 0 [] (reply fs ds)

end Slicec.Drv.Proc
