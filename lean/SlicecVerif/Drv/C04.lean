/-
  Cases for C04 (semantic validation, projection `codes` = sorted set of error codes).
  Every program is printed, compiled by the real compiler and compared with `validate`; in addition the model is
  compared with the specification on every program (`K` lines: accepted ⇎ WellFormed, or a reported code whose
  rule is not violated).
-/
import SlicecVerif.Model.Validate
import SlicecVerif.Drv.Prog

namespace Slicec.Drv.C04

open Slicec Slicec.Validate Slicec.Drv

/-! ### building blocks -/

def lit (v : Int) (base : Nat := 10) : IntLit := ⟨decide (v < 0), base, v.natAbs, false⟩
def tr (e : TyExpr) (opt : Bool := false) (attrs : List Attr := []) : TRef := .mk attrs e opt
def pt (p : Prim) (opt : Bool := false) : TRef := .mk [] (.prim p) opt
def nm (id : String) (opt : Bool := false) : TRef := .mk [] (.named id) opt
def fld (name : String) (ty : TRef) (tag : Option IntLit := none) (attrs : List Attr := []) : Field :=
  { doc := [], attrs := attrs, tag := tag, name := name, ty := ty }
def par (name : String) (ty : TRef) (stream : Bool := false) (tag : Option IntLit := none) (attrs : List Attr := []) : Param :=
  { attrs := attrs, tag := tag, name := name, stream := stream, ty := ty }
def op (name : String) (params : List Param := []) (ret : Ret := .none) (attrs : List Attr := []) : Op :=
  { doc := [], attrs := attrs, idempotent := false, name := name, params := params, ret := ret }
def enr (name : String) (value : Option IntLit := none) (fields : Option (List Field) := none) (attrs : List Attr := []) : Enumerator :=
  { doc := [], attrs := attrs, name := name, fields := fields, value := value }
def str (name : String) (fields : List Field) (compact : Bool := false) (attrs : List Attr := []) : Def :=
  .struct [] attrs compact name fields
def ifc (name : String) (ops : List Op) (bases : List TRef := []) (attrs : List Attr := []) : Def :=
  .iface [] attrs name bases ops
def enm (name : String) (es : List Enumerator) (underlying : Option TRef := none) (compact unchecked : Bool := false)
    (attrs : List Attr := []) : Def :=
  .enum [] attrs compact unchecked name underlying es
def file (defs : List Def) (mod : String := "M") : SFile := { fileAttrs := [], module := some ⟨[], mod⟩, defs := defs }

/-! ### emission -/

def ruleFails (r : Rule) (P : Program) : Bool := !decide (r.Holds P)

/-- which known gap between what is enforced and what is specified makes an accepted program ill-formed -/
def gapLabel (P : Program) : String :=
  if !decide (WellFormedVisitedOnly P) then "model-accepts-ill-formed"
  else if ruleFails (placementRule true) P || ruleFails (repeatRule true) P then "D-04b-unvisited-typeref-attributes"
  else "model-accepts-ill-formed"

def emit (o : Out) (fam : String) (P : Program) (style : Nat := 0) (seed : Nat := 0) : IO Unit := do
  let texts := P.map fun f => (render style seed (fileItems f)).1
  let cs := validate P
  o.line (compileCase fam "codes" "-" texts (codesProjection cs))
  let hex := "|".intercalate (texts.map hexOfString)
  let wf := decide (WellFormed P)
  if cs.isEmpty && !wf then
    o.line (tab ["K", gapLabel P, fam, hex, "the program is accepted (no error code) although it violates a rule of the specification"])
  if !cs.isEmpty && wf then
    o.line (tab ["K", "model-rejects-well-formed", fam, hex, "the program satisfies every rule but is rejected with " ++ codesProjection cs])
  for c in cs.eraseDups do
    if !decide (Violates c P) then
      o.line (tab ["K", "code-without-violation", fam, hex, "code " ++ c ++ " is reported but no rule it belongs to is violated"])

/-! ### the rule catalogue: every entry is a list of definitions using names with the given suffix -/

structure Entry where
  name : String
  defs : String → List Def

instance : Inhabited Entry := ⟨⟨"", fun _ => []⟩⟩

def a0 (d : String) (args : List String := []) : Attr := ⟨d, args⟩

def tagBoundary : List (String × Int) :=
  [("0", 0), ("max", 2147483647), ("max+1", 2147483648), ("-1", -1), ("2^32", 4294967296), ("2^32+1", 4294967297),
   ("i128max", 170141183460469231731687303715884105727), ("i128max+1", 170141183460469231731687303715884105728),
   ("-i128max-1", -170141183460469231731687303715884105728)]

def tagEntries : List Entry :=
  (tagBoundary.flatMap fun (n, v) =>
    [⟨"tag-field-" ++ n, fun s => [str ("S" ++ s) [fld "a" (pt .bool true) (some (lit v))]]⟩,
     ⟨"tag-param-" ++ n, fun s => [ifc ("I" ++ s) [op "o" [par "a" (pt .bool true) false (some (lit v 16))]]]⟩,
     ⟨"tag-return-" ++ n, fun s => [ifc ("I" ++ s) [op "o" [] (.single (some (lit v)) false (pt .bool true))]]⟩,
     ⟨"tag-enumerator-field-" ++ n, fun s => [enm ("E" ++ s) [enr "A" none (some [fld "a" (pt .bool true) (some (lit v 2))])]]⟩]) ++
  [⟨"tagged-nonoptional-field", fun s => [str ("S" ++ s) [fld "a" (pt .bool) (some (lit 1))]]⟩,
   ⟨"tagged-nonoptional-param", fun s => [ifc ("I" ++ s) [op "o" [par "a" (pt .int32) false (some (lit 1))]]]⟩,
   ⟨"tagged-nonoptional-return", fun s => [ifc ("I" ++ s) [op "o" [] (.single (some (lit 1)) false (pt .string))]]⟩,
   ⟨"tagged-nonoptional-tuple", fun s => [ifc ("I" ++ s) [op "o" [] (.tuple [par "a" (pt .string) false (some (lit 1)), par "b" (pt .bool)])]]⟩,
   ⟨"tagged-nonoptional-enumerator-field", fun s => [enm ("E" ++ s) [enr "A" none (some [fld "a" (pt .bool) (some (lit 0))])]]⟩,
   ⟨"dup-tag-field", fun s => [str ("S" ++ s) [fld "a" (pt .bool true) (some (lit 16 16)), fld "b" (pt .bool true) (some (lit 16))]]⟩,
   ⟨"dup-tag-field-3", fun s => [str ("S" ++ s) [fld "a" (pt .bool true) (some (lit 3)), fld "b" (pt .bool true) (some (lit 1)), fld "c" (pt .bool true) (some (lit 3 2))]]⟩,
   ⟨"dup-tag-param", fun s => [ifc ("I" ++ s) [op "o" [par "a" (pt .bool true) false (some (lit 5)), par "b" (pt .bool true) false (some (lit 5))]]]⟩,
   ⟨"dup-tag-tuple", fun s => [ifc ("I" ++ s) [op "o" [] (.tuple [par "a" (pt .bool true) false (some (lit 5)), par "b" (pt .bool true) false (some (lit 5))])]]⟩,
   ⟨"same-tag-param-and-return", fun s => [ifc ("I" ++ s) [op "o" [par "a" (pt .bool true) false (some (lit 5))] (.single (some (lit 5)) false (pt .bool true))]]⟩,
   ⟨"dup-tag-enumerator-field", fun s => [enm ("E" ++ s) [enr "A" none (some [fld "a" (pt .bool true) (some (lit 7)), fld "b" (pt .bool true) (some (lit 7))])]]⟩,
   ⟨"same-tag-two-enumerators", fun s => [enm ("E" ++ s) [enr "A" none (some [fld "a" (pt .bool true) (some (lit 7))]), enr "B" none (some [fld "a" (pt .bool true) (some (lit 7))])]]⟩,
   ⟨"compact-struct-tagged", fun s => [str ("S" ++ s) [fld "a" (pt .bool true) (some (lit 1))] true]⟩,
   ⟨"compact-struct-tagged-nonoptional", fun s => [str ("S" ++ s) [fld "a" (pt .bool) (some (lit 1))] true]⟩,
   ⟨"compact-struct-empty", fun s => [str ("S" ++ s) [] true]⟩,
   ⟨"compact-struct-ok", fun s => [str ("S" ++ s) [fld "a" (pt .bool true)] true]⟩,
   ⟨"compact-enum-tagged", fun s => [enm ("E" ++ s) [enr "A" none (some [fld "a" (pt .bool true) (some (lit 1))])] none true]⟩,
   ⟨"compact-enum-ok", fun s => [enm ("E" ++ s) [enr "A" none (some [fld "a" (pt .bool true)])] none true]⟩]

def enumEntries : List Entry :=
  (integralPrims.flatMap fun p =>
    match Validate.primBounds p with
    | some (lo, hi) =>
      [("min-1", lo - 1), ("min", lo), ("max", hi), ("max+1", hi + 1)].map fun (n, v) =>
        (⟨"enum-" ++ p.kw ++ "-" ++ n, fun s => [enm ("E" ++ s) [enr "A" (some (lit v (if v < 0 then 10 else 16)))] (some (pt p))]⟩ : Entry)
    | none => []) ++
  (integralPrims.flatMap fun p =>
    match Validate.primBounds p with
    | some (_, hi) =>
      [(⟨"enum-" ++ p.kw ++ "-implicit-past-max", fun s => [enm ("E" ++ s) [enr "A" (some (lit hi)), enr "B"] (some (pt p))]⟩ : Entry)]
    | none => []) ++
  [⟨"enum-plain-max", fun s => [enm ("E" ++ s) [enr "A" (some (lit 2147483647))]]⟩,
   ⟨"enum-plain-max+1", fun s => [enm ("E" ++ s) [enr "A" (some (lit 2147483648))]]⟩,
   ⟨"enum-plain-implicit-past-max", fun s => [enm ("E" ++ s) [enr "A" (some (lit 2147483647)), enr "B"]]⟩,
   ⟨"enum-plain--1", fun s => [enm ("E" ++ s) [enr "A" (some (lit (-1)))]]⟩,
   ⟨"enum-plain-0", fun s => [enm ("E" ++ s) [enr "A" (some (lit 0))]]⟩,
   ⟨"enum-value-i128-overflow", fun s => [enm ("E" ++ s) [enr "A" (some (lit 170141183460469231731687303715884105728))]]⟩,
   ⟨"enum-implicit-wraps-i128", fun s => [enm ("E" ++ s) [enr "A" (some (lit 170141183460469231731687303715884105727)), enr "B"] none false true]⟩,
   ⟨"enum-dup-value-bases", fun s => [enm ("E" ++ s) [enr "A" (some (lit 16 16)), enr "B" (some (lit 16))] (some (pt .uint8))]⟩,
   ⟨"enum-dup-value-binary", fun s => [enm ("E" ++ s) [enr "A" (some (lit 5 2)), enr "B" (some (lit 5))]]⟩,
   ⟨"enum-dup-value-implicit", fun s => [enm ("E" ++ s) [enr "A" (some (lit 1)), enr "B" (some (lit 0)), enr "C"]]⟩,
   ⟨"enum-dup-value-three", fun s => [enm ("E" ++ s) [enr "A" (some (lit 2)), enr "B" (some (lit 2)), enr "C" (some (lit 2))]]⟩,
   ⟨"enum-dup-negative", fun s => [enm ("E" ++ s) [enr "A" (some (lit (-3))), enr "B" (some (lit (-3)))] (some (pt .int8))]⟩,
   ⟨"enum-underlying-bool", fun s => [enm ("E" ++ s) [enr "A"] (some (pt .bool))]⟩,
   ⟨"enum-underlying-float32", fun s => [enm ("E" ++ s) [enr "A"] (some (pt .float32))]⟩,
   ⟨"enum-underlying-float64", fun s => [enm ("E" ++ s) [enr "A"] (some (pt .float64))]⟩,
   ⟨"enum-underlying-string", fun s => [enm ("E" ++ s) [enr "A" (some (lit 5000000000))] (some (pt .string))]⟩,
   ⟨"enum-underlying-optional", fun s => [enm ("E" ++ s) [enr "A"] (some (pt .uint8 true))]⟩,
   ⟨"enum-underlying-optional-nonintegral", fun s => [enm ("E" ++ s) [enr "A"] (some (pt .string true))]⟩,
   ⟨"enum-underlying-alias-ok", fun s => [.alias [] [] ("T" ++ s) (pt .uint8), enm ("E" ++ s) [enr "A" (some (lit 255))] (some (nm ("T" ++ s)))]⟩,
   ⟨"enum-underlying-alias-range", fun s => [.alias [] [] ("T" ++ s) (pt .uint8), enm ("E" ++ s) [enr "A" (some (lit 256))] (some (nm ("T" ++ s)))]⟩,
   ⟨"enum-underlying-alias-string", fun s => [.alias [] [] ("T" ++ s) (pt .string), enm ("E" ++ s) [enr "A"] (some (nm ("T" ++ s)))]⟩,
   ⟨"enum-underlying-struct", fun s => [str ("S" ++ s) [], enm ("E" ++ s) [enr "A"] (some (nm ("S" ++ s)))]⟩,
   ⟨"enum-underlying-alias-sequence", fun s => [.alias [] [] ("T" ++ s) (tr (.seq (pt .bool))), enm ("E" ++ s) [enr "A"] (some (nm ("T" ++ s)))]⟩,
   ⟨"enum-backed-with-fields", fun s => [enm ("E" ++ s) [enr "A" none (some [fld "x" (pt .bool)])] (some (pt .uint8))]⟩,
   ⟨"enum-backed-with-empty-fields", fun s => [enm ("E" ++ s) [enr "A" none (some [])] (some (pt .uint8))]⟩,
   ⟨"enum-plain-with-empty-fields", fun s => [enm ("E" ++ s) [enr "A" none (some [])]]⟩,
   ⟨"enum-checked-empty", fun s => [enm ("E" ++ s) []]⟩,
   ⟨"enum-checked-empty-backed", fun s => [enm ("E" ++ s) [] (some (pt .int32))]⟩,
   ⟨"enum-unchecked-empty", fun s => [enm ("E" ++ s) [] none false true]⟩,
   ⟨"enum-compact-unchecked", fun s => [enm ("E" ++ s) [enr "A"] none true true]⟩,
   ⟨"enum-compact-backed", fun s => [enm ("E" ++ s) [enr "A"] (some (pt .uint8)) true false]⟩,
   ⟨"enum-compact-backed-unchecked", fun s => [enm ("E" ++ s) [enr "A"] (some (pt .uint8)) true true]⟩,
   ⟨"enum-compact-empty", fun s => [enm ("E" ++ s) [] none true false]⟩]

/-- key types: (name, helper definitions, the key reference) -/
structure KeyT where
  name : String
  helpers : String → List Def
  key : String → TRef

instance : Inhabited KeyT := ⟨⟨"", fun _ => [], fun _ => default⟩⟩

def keyLeaves : List KeyT :=
  (Prim.all.map fun p => (⟨p.kw, fun _ => [], fun _ => pt p⟩ : KeyT)) ++
  [⟨"opt-bool", fun _ => [], fun _ => pt .bool true⟩,
   ⟨"opt-string", fun _ => [], fun _ => pt .string true⟩,
   ⟨"sequence", fun _ => [], fun _ => tr (.seq (pt .bool))⟩,
   ⟨"dictionary", fun _ => [], fun _ => tr (.dict (pt .bool) (pt .bool))⟩,
   ⟨"result", fun _ => [], fun _ => tr (.result (pt .bool) (pt .bool))⟩,
   ⟨"custom", fun s => [.custom [] [] ("C" ++ s)], fun s => nm ("C" ++ s)⟩,
   ⟨"backed-enum", fun s => [enm ("KE" ++ s) [enr "A"] (some (pt .uint8))], fun s => nm ("KE" ++ s)⟩,
   ⟨"plain-enum", fun s => [enm ("KE" ++ s) [enr "A"]], fun s => nm ("KE" ++ s)⟩,
   ⟨"fields-enum", fun s => [enm ("KE" ++ s) [enr "A" none (some [fld "x" (pt .bool)])]], fun s => nm ("KE" ++ s)⟩,
   ⟨"plain-struct", fun s => [str ("KS" ++ s) [fld "x" (pt .bool)]], fun s => nm ("KS" ++ s)⟩,
   ⟨"empty-struct", fun s => [str ("KS" ++ s) []], fun s => nm ("KS" ++ s)⟩,
   ⟨"interface", fun s => [ifc ("KI" ++ s) []], fun s => nm ("KI" ++ s)⟩,
   ⟨"alias-int32", fun s => [.alias [] [] ("KT" ++ s) (pt .int32)], fun s => nm ("KT" ++ s)⟩,
   ⟨"alias-float64", fun s => [.alias [] [] ("KT" ++ s) (pt .float64)], fun s => nm ("KT" ++ s)⟩,
   ⟨"alias-sequence", fun s => [.alias [] [] ("KT" ++ s) (tr (.seq (pt .bool)))], fun s => nm ("KT" ++ s)⟩,
   ⟨"opt-alias", fun s => [.alias [] [] ("KT" ++ s) (pt .int32)], fun s => nm ("KT" ++ s) true⟩,
   ⟨"opt-custom", fun s => [.custom [] [] ("C" ++ s)], fun s => nm ("C" ++ s) true⟩,
   ⟨"unknown", fun _ => [], fun _ => nm "NoSuchType"⟩]

/-- a compact struct whose fields are the given key types (one more nesting level) -/
def wrapKey (ks : List KeyT) (optField : Bool := false) : KeyT :=
  ⟨"compact(" ++ ",".intercalate (ks.map (·.name)) ++ ")" ++ (if optField then "?" else ""),
   fun s => (ks.zipIdx.flatMap fun (k, i) => k.helpers (s ++ "x" ++ toString i)) ++
            [str ("W" ++ s) (ks.zipIdx.map fun (k, i) =>
               let r := k.key (s ++ "x" ++ toString i)
               fld ("f" ++ toString i) (if optField then .mk r.attrs r.ty true else r)) true],
   fun s => nm ("W" ++ s)⟩

/-- where a dictionary can be written -/
def keySites : List (String × (String → TRef → List Def)) :=
  [("field", fun s d => [str ("D" ++ s) [fld "d" d]]),
   ("opt-field", fun s d => [str ("D" ++ s) [fld "d" (.mk d.attrs d.ty true)]]),
   ("param", fun s d => [ifc ("D" ++ s) [op "o" [par "d" d]]]),
   ("return", fun s d => [ifc ("D" ++ s) [op "o" [] (.single none false d)]]),
   ("alias", fun s d => [.alias [] [] ("D" ++ s) d]),
   ("enumerator-field", fun s d => [enm ("D" ++ s) [enr "A" none (some [fld "d" d])]]),
   ("sequence-element", fun s d => [str ("D" ++ s) [fld "d" (tr (.seq d))]]),
   ("dictionary-value", fun s d => [str ("D" ++ s) [fld "d" (tr (.dict (pt .string) d))]]),
   ("result-failure", fun s d => [str ("D" ++ s) [fld "d" (tr (.result (pt .string) d))]])]

def keyEntry (site : String × (String → TRef → List Def)) (k : KeyT) : Entry :=
  ⟨"key-" ++ site.1 ++ "-" ++ k.name, fun s => k.helpers s ++ site.2 s (tr (.dict (k.key s) (pt .bool)))⟩

def keyEntries : List Entry :=
  (keyLeaves.map (keyEntry (keySites.getD 0 default))) ++
  (keySites.flatMap fun site =>
    [keyEntry site (keyLeaves.getD 13 default), keyEntry site (keyLeaves.getD 16 default), keyEntry site (keyLeaves.getD 24 default)]) ++
  -- a dictionary used as the key of a dictionary: both are checked
  [⟨"key-nested-dictionary-bad-inner", fun s => [str ("D" ++ s) [fld "d" (tr (.dict (tr (.dict (pt .float32) (pt .bool))) (pt .bool)))]]⟩,
   ⟨"key-in-value-bad", fun s => [str ("D" ++ s) [fld "d" (tr (.dict (pt .bool) (tr (.dict (pt .float32) (pt .bool)))))]]⟩,
   ⟨"key-through-alias-use", fun s => [.alias [] [] ("KT" ++ s) (tr (.dict (pt .float64) (pt .bool))), str ("D" ++ s) [fld "d" (nm ("KT" ++ s))]]⟩]

def streamEntries : List Entry :=
  [⟨"stream-not-last", fun s => [ifc ("I" ++ s) [op "o" [par "a" (pt .bool) true, par "b" (pt .bool)]]]⟩,
   ⟨"stream-two", fun s => [ifc ("I" ++ s) [op "o" [par "a" (pt .bool) true, par "b" (pt .bool) true]]]⟩,
   ⟨"stream-last-ok", fun s => [ifc ("I" ++ s) [op "o" [par "a" (pt .bool), par "b" (pt .bool) true]]]⟩,
   ⟨"stream-return-not-last", fun s => [ifc ("I" ++ s) [op "o" [] (.tuple [par "a" (pt .bool) true, par "b" (pt .bool)])]]⟩,
   ⟨"stream-return-two", fun s => [ifc ("I" ++ s) [op "o" [] (.tuple [par "a" (pt .bool) true, par "b" (pt .bool) true])]]⟩,
   ⟨"stream-param-and-return", fun s => [ifc ("I" ++ s) [op "o" [par "a" (pt .bool) true] (.single none true (pt .bool))]]⟩,
   ⟨"stream-tagged", fun s => [ifc ("I" ++ s) [op "o" [par "a" (pt .bool true) true (some (lit 1))]]]⟩,
   ⟨"return-tuple-0", fun s => [ifc ("I" ++ s) [op "o" [] (.tuple [])]]⟩,
   ⟨"return-tuple-1", fun s => [ifc ("I" ++ s) [op "o" [] (.tuple [par "a" (pt .bool)])]]⟩,
   ⟨"return-tuple-2", fun s => [ifc ("I" ++ s) [op "o" [] (.tuple [par "a" (pt .bool), par "b" (pt .bool)])]]⟩,
   ⟨"return-tuple-1-tag-out-of-range", fun s => [ifc ("I" ++ s) [op "o" [] (.tuple [par "a" (pt .bool true) false (some (lit (-1)))])]]⟩]

def shadowEntries : List Entry :=
  [⟨"shadow-direct", fun s => [ifc ("A" ++ s) [op "o"], ifc ("B" ++ s) [op "o"] [nm ("A" ++ s)]]⟩,
   ⟨"shadow-transitive", fun s => [ifc ("A" ++ s) [op "o"], ifc ("B" ++ s) [op "p"] [nm ("A" ++ s)], ifc ("C" ++ s) [op "o"] [nm ("B" ++ s)]]⟩,
   ⟨"shadow-diamond", fun s => [ifc ("A" ++ s) [op "o"], ifc ("B" ++ s) [] [nm ("A" ++ s)], ifc ("C" ++ s) [] [nm ("A" ++ s)],
                                ifc ("D" ++ s) [op "o"] [nm ("B" ++ s), nm ("C" ++ s)]]⟩,
   ⟨"shadow-second-base", fun s => [ifc ("A" ++ s) [op "p"], ifc ("B" ++ s) [op "o"], ifc ("C" ++ s) [op "o"] [nm ("A" ++ s), nm ("B" ++ s)]]⟩,
   ⟨"no-shadow-different-name", fun s => [ifc ("A" ++ s) [op "o"], ifc ("B" ++ s) [op "p"] [nm ("A" ++ s)]]⟩,
   ⟨"no-shadow-two-bases-same-op", fun s => [ifc ("A" ++ s) [op "o"], ifc ("B" ++ s) [op "o"], ifc ("C" ++ s) [op "p"] [nm ("A" ++ s), nm ("B" ++ s)]]⟩,
   ⟨"shadow-base-declared-later", fun s => [ifc ("B" ++ s) [op "o"] [nm ("A" ++ s)], ifc ("A" ++ s) [op "o"]]⟩,
   ⟨"shadow-through-alias-base", fun s => [ifc ("A" ++ s) [op "o"], .alias [] [] ("T" ++ s) (nm ("A" ++ s)), ifc ("B" ++ s) [op "o"] [nm ("T" ++ s)]]⟩,
   ⟨"shadow-case-differs", fun s => [ifc ("A" ++ s) [op "o"], ifc ("B" ++ s) [op "O"] [nm ("A" ++ s)]]⟩]

def nameEntries : List Entry :=
  [⟨"dup-struct", fun s => [str ("S" ++ s) [], str ("S" ++ s) []]⟩,
   ⟨"dup-struct-enum", fun s => [str ("S" ++ s) [], enm ("S" ++ s) [enr "A"]]⟩,
   ⟨"dup-alias-custom", fun s => [.alias [] [] ("S" ++ s) (pt .bool), .custom [] [] ("S" ++ s)]⟩,
   ⟨"dup-interface", fun s => [ifc ("S" ++ s) [], ifc ("S" ++ s) [op "o"]]⟩,
   ⟨"dup-field", fun s => [str ("S" ++ s) [fld "x" (pt .bool), fld "x" (pt .bool)]]⟩,
   ⟨"dup-field-different-type", fun s => [str ("S" ++ s) [fld "x" (pt .bool), fld "y" (pt .int8), fld "x" (pt .string)]]⟩,
   ⟨"dup-operation", fun s => [ifc ("I" ++ s) [op "o", op "o"]]⟩,
   ⟨"dup-parameter", fun s => [ifc ("I" ++ s) [op "o" [par "x" (pt .bool), par "x" (pt .bool)]]]⟩,
   ⟨"dup-return-member", fun s => [ifc ("I" ++ s) [op "o" [] (.tuple [par "x" (pt .bool), par "x" (pt .bool)])]]⟩,
   ⟨"same-name-param-and-return", fun s => [ifc ("I" ++ s) [op "o" [par "x" (pt .bool)] (.tuple [par "x" (pt .bool), par "y" (pt .bool)])]]⟩,
   ⟨"param-named-returnValue", fun s => [ifc ("I" ++ s) [op "o" [par "returnValue" (pt .bool)] (.single none false (pt .bool))]]⟩,
   ⟨"dup-enumerator", fun s => [enm ("E" ++ s) [enr "A", enr "A"]]⟩,
   ⟨"dup-enumerator-field", fun s => [enm ("E" ++ s) [enr "A" none (some [fld "x" (pt .bool), fld "x" (pt .bool)])]]⟩,
   ⟨"same-field-two-enumerators", fun s => [enm ("E" ++ s) [enr "A" none (some [fld "x" (pt .bool)]), enr "B" none (some [fld "x" (pt .bool)])]]⟩,
   ⟨"same-field-two-structs", fun s => [str ("S" ++ s) [fld "x" (pt .bool)], str ("T" ++ s) [fld "x" (pt .bool)]]⟩,
   ⟨"field-named-like-struct", fun s => [str ("S" ++ s) [fld ("S" ++ s) (pt .bool)]]⟩,
   ⟨"names-differ-in-case", fun s => [str ("S" ++ s) [fld "x" (pt .bool), fld "X" (pt .bool)]]⟩]

def miscEntries : List Entry :=
  [⟨"alias-of-optional", fun s => [.alias [] [] ("T" ++ s) (pt .bool true)]⟩,
   ⟨"alias-of-optional-sequence", fun s => [.alias [] [] ("T" ++ s) (tr (.seq (pt .bool)) true)]⟩,
   ⟨"alias-of-optional-named", fun s => [str ("S" ++ s) [], .alias [] [] ("T" ++ s) (nm ("S" ++ s) true)]⟩,
   ⟨"alias-of-sequence-of-optional", fun s => [.alias [] [] ("T" ++ s) (tr (.seq (pt .bool true)))]⟩,
   ⟨"alias-optional-used-as-key", fun s => [.alias [] [] ("T" ++ s) (pt .bool true), str ("S" ++ s) [fld "d" (tr (.dict (nm ("T" ++ s)) (pt .bool)))]]⟩,
   ⟨"unknown-type", fun s => [str ("S" ++ s) [fld "x" (nm "NoSuchType")]]⟩,
   ⟨"unknown-base", fun s => [ifc ("I" ++ s) [] [nm "NoSuchType"]]⟩,
   ⟨"interface-as-field-type", fun s => [ifc ("I" ++ s) [], str ("S" ++ s) [fld "x" (nm ("I" ++ s))]]⟩,
   ⟨"struct-as-base", fun s => [str ("S" ++ s) [], ifc ("I" ++ s) [] [nm ("S" ++ s)]]⟩,
   ⟨"unknown-then-mismatched-base", fun s => [str ("S" ++ s) [], ifc ("I" ++ s) [] [nm "NoSuchType", nm ("S" ++ s)]]⟩,
   ⟨"alias-cycle-self", fun s => [.alias [] [] ("T" ++ s) (nm ("T" ++ s))]⟩,
   ⟨"alias-cycle-two", fun s => [.alias [] [] ("T" ++ s) (nm ("U" ++ s)), .alias [] [] ("U" ++ s) (nm ("T" ++ s))]⟩,
   ⟨"alias-into-cycle", fun s => [.alias [] [] ("T" ++ s) (nm ("U" ++ s)), .alias [] [] ("U" ++ s) (nm ("U" ++ s)), str ("S" ++ s) [fld "x" (nm ("T" ++ s))]]⟩,
   ⟨"cycle-self", fun s => [str ("S" ++ s) [fld "x" (nm ("S" ++ s))]]⟩,
   ⟨"cycle-optional", fun s => [str ("S" ++ s) [fld "x" (nm ("S" ++ s) true)]]⟩,
   ⟨"cycle-sequence", fun s => [str ("S" ++ s) [fld "x" (tr (.seq (nm ("S" ++ s))))]]⟩,
   ⟨"cycle-two", fun s => [str ("S" ++ s) [fld "x" (nm ("U" ++ s))], str ("U" ++ s) [fld "y" (nm ("S" ++ s))]]⟩,
   ⟨"cycle-enum", fun s => [enm ("E" ++ s) [enr "A" none (some [fld "x" (nm ("E" ++ s))])]]⟩,
   ⟨"cycle-through-alias", fun s => [.alias [] [] ("T" ++ s) (tr (.dict (pt .bool) (nm ("S" ++ s)))), str ("S" ++ s) [fld "x" (nm ("T" ++ s))]]⟩,
   ⟨"no-cycle-dag", fun s => [str ("S" ++ s) [], str ("U" ++ s) [fld "a" (nm ("S" ++ s)), fld "b" (nm ("S" ++ s))]]⟩,
   ⟨"no-cycle-interface-param", fun s => [str ("S" ++ s) [], ifc ("I" ++ s) [op "o" [par "a" (nm ("S" ++ s))]]]⟩]

/-! ### attributes -/

def builtinArgs (d : String) (n : Nat) : List String :=
  if d == "allow" then ["All", "Deprecated", "BrokenDocLink"].take n
  else if d == "compress" || d == "slicedFormat" then ["Args", "Return", "Args"].take n
  else if d == "deprecated" then ["use the other one", "b", "c"].take n
  else ["x", "y", "z"].take n

def builtins : List String := ["allow", "compress", "deprecated", "oneway", "slicedFormat"]

/-- every place an attribute can be written: (name, definitions with the attributes there, file attributes?, module attributes?) -/
inductive Place where
  | file | module | struct | field | interface | opVoid | opReturns | param | tupleMember | enum | enumerator | enumeratorField
  | custom | alias | fieldType | seqElement | paramType | aliasType | underlying | base
  deriving Repr, DecidableEq, Inhabited

def Place.all : List Place :=
  [.file, .module, .struct, .field, .interface, .opVoid, .opReturns, .param, .tupleMember, .enum, .enumerator, .enumeratorField,
   .custom, .alias, .fieldType, .seqElement, .paramType, .aliasType, .underlying, .base]

def Place.name : Place → String
  | .file => "file" | .module => "module" | .struct => "struct" | .field => "field" | .interface => "interface"
  | .opVoid => "operation" | .opReturns => "operation-returning" | .param => "parameter" | .tupleMember => "return-member"
  | .enum => "enum" | .enumerator => "enumerator" | .enumeratorField => "enumerator-field" | .custom => "custom" | .alias => "alias"
  | .fieldType => "field-type" | .seqElement => "sequence-element" | .paramType => "parameter-type" | .aliasType => "alias-type"
  | .underlying => "enum-underlying" | .base => "interface-base"

def placeFile (pl : Place) (s : String) (as : List Attr) : SFile :=
  match pl with
  | .file => { fileAttrs := as, module := some ⟨[], "M"⟩, defs := [str ("S" ++ s) []] }
  | .module => { fileAttrs := [], module := some ⟨as, "M"⟩, defs := [str ("S" ++ s) []] }
  | .struct => file [str ("S" ++ s) [] false as]
  | .field => file [str ("S" ++ s) [fld "x" (pt .bool) none as]]
  | .interface => file [ifc ("I" ++ s) [] [] as]
  | .opVoid => file [ifc ("I" ++ s) [op "o" [par "x" (pt .bool)] .none as]]
  | .opReturns => file [ifc ("I" ++ s) [op "o" [] (.single none false (pt .bool)) as]]
  | .param => file [ifc ("I" ++ s) [op "o" [par "x" (pt .bool) false none as]]]
  | .tupleMember => file [ifc ("I" ++ s) [op "o" [] (.tuple [par "x" (pt .bool) false none as, par "y" (pt .bool)])]]
  | .enum => file [enm ("E" ++ s) [enr "A"] none false false as]
  | .enumerator => file [enm ("E" ++ s) [enr "A" none none as]]
  | .enumeratorField => file [enm ("E" ++ s) [enr "A" none (some [fld "x" (pt .bool) none as])]]
  | .custom => file [.custom [] as ("C" ++ s)]
  | .alias => file [.alias [] as ("T" ++ s) (pt .bool)]
  | .fieldType => file [str ("S" ++ s) [fld "x" (tr (.prim .bool) false as)]]
  | .seqElement => file [str ("S" ++ s) [fld "x" (tr (.seq (tr (.prim .bool) false as)))]]
  | .paramType => file [ifc ("I" ++ s) [op "o" [par "x" (tr (.prim .bool) false as)]]]
  | .aliasType => file [.alias [] [] ("T" ++ s) (tr (.prim .bool) false as)]
  | .underlying => file [enm ("E" ++ s) [enr "A"] (some (tr (.prim .uint8) false as))]
  | .base => file [ifc ("J" ++ s) [], ifc ("I" ++ s) [] [tr (.named ("J" ++ s)) false as]]

def badArgAttrs : List Attr :=
  [a0 "allow" ["Foo"], a0 "allow" ["DuplicateFile"], a0 "allow" ["all"], a0 "allow" ["deprecated"], a0 "allow" ["All", "Nope"],
   a0 "allow" [""], a0 "compress" ["args"], a0 "compress" ["Args", "Both"], a0 "compress" ["Return", "Return"],
   a0 "slicedFormat" ["Both"], a0 "slicedFormat" ["Args", "return"], a0 "slicedFormat" [""], a0 "deprecated" [""],
   a0 "oneway" ["Args"], a0 "foo" [], a0 "foo" ["x"], a0 "Allow" ["All"], a0 "deprecate" [], a0 "foo::bar" [], a0 "cs::allow" ["x", "y"],
   a0 "sliced_format" ["Args"], a0 "onewayx" []]

/-! ### bounded-exhaustive families -/

def product {α} : List (List α) → List (List α)
  | [] => [[]]
  | xs :: rest => xs.flatMap fun x => (product rest).map fun r => x :: r

/-- member shapes: (tag, optional) -/
def memberShapes : List (Option Nat × Bool) := [(none, false), (none, true), (some 1, false), (some 1, true), (some 2, false), (some 2, true)]

def membersFamily (o : Out) : IO Unit := do
  for n in [0:4] do
    for shape in product (List.replicate n memberShapes) do
      let fields := shape.zipIdx.map fun ((t, opt), i) => fld ("m" ++ toString i) (pt .int32 opt) (t.map fun v => lit v)
      let params := shape.zipIdx.map fun ((t, opt), i) => par ("m" ++ toString i) (pt .int32 opt) false (t.map fun v => lit v)
      emit o "tags-struct" [file [str "S" fields]]
      emit o "tags-compact-struct" [file [str "S" fields true]]
      emit o "tags-enumerator" [file [enm "E" [enr "A" none (some fields)]]]
      emit o "tags-compact-enum" [file [enm "E" [enr "A" none (some fields)] none true]]
      emit o "tags-parameters" [file [ifc "I" [op "o" params]]]
      if n ≥ 2 then emit o "tags-return-tuple" [file [ifc "I" [op "o" [] (.tuple params)]]]

def streamsFamily (o : Out) : IO Unit := do
  let paramChoices := (List.range 4).flatMap fun n => product (List.replicate n [false, true])
  let retChoices : List Ret :=
    [Ret.none, .single none false (pt .bool), .single none true (pt .bool)] ++
    ((List.range 4).flatMap fun n => (product (List.replicate n [false, true])).map fun ss =>
      Ret.tuple (ss.zipIdx.map fun (s, i) => par ("r" ++ toString i) (pt .bool) s))
  for ps in paramChoices do
    for r in retChoices do
      emit o "streams" [file [ifc "I" [op "o" (ps.zipIdx.map fun (s, i) => par ("p" ++ toString i) (pt .bool) s) r]]]

def keysFamily (o : Out) (tier : Tier) : IO Unit := do
  let site0 := keySites.getD 0 default
  let leaves := keyLeaves
  -- depth 0 at every site
  for site in keySites do
    for k in leaves do
      let e := keyEntry site k
      emit o "keys-depth0" [file (e.defs "")]
  -- depth 1: compact structs of one or two leaves
  let small := leaves.filter fun k => ["bool", "int32", "float32", "string", "opt-bool", "sequence", "custom", "backed-enum", "plain-enum", "plain-struct", "alias-float64", "alias-int32"].contains k.name
  let d1 := (leaves.map fun k => wrapKey [k]) ++ (small.map fun k => wrapKey [k] true) ++
            (small.flatMap fun a => small.map fun b => wrapKey [a, b])
  for k in d1 do
    emit o "keys-depth1" [file ((keyEntry site0 k).defs "")]
  -- depth 2
  let d1small := (small.map fun k => wrapKey [k]) ++ [wrapKey [], wrapKey [small.getD 0 default, small.getD 2 default]]
  let d2 := (d1small.map fun k => wrapKey [k]) ++ (d1small.map fun k => wrapKey [k] true) ++
            (d1small.flatMap fun a => (small.take (if tier == .thorough then 12 else 4)).map fun b => wrapKey [a, b])
  for k in d2 do
    emit o "keys-depth2" [file ((keyEntry site0 k).defs "")]
  -- depth 3 and 4: one chain per leaf
  for k in small do
    emit o "keys-depth3" [file ((keyEntry site0 (wrapKey [wrapKey [wrapKey [k]]])).defs "")]
    emit o "keys-depth4" [file ((keyEntry site0 (wrapKey [wrapKey [wrapKey [wrapKey [k]]]])).defs "")]

def attributesFamily (o : Out) : IO Unit := do
  for pl in Place.all do
    emit o "attributes-none" [placeFile pl "" []]
    for d in builtins do
      for n in [0:4] do
        emit o ("attributes-" ++ d) [placeFile pl "" [a0 d (builtinArgs d n)]]
      -- repeated
      emit o "attributes-repeated" [placeFile pl "" [a0 d (builtinArgs d 1), a0 d (builtinArgs d 1)]]
      emit o "attributes-repeated" [placeFile pl "" [a0 d (builtinArgs d 1), a0 "cs::x" [], a0 d (builtinArgs d 1), a0 d (builtinArgs d 1)]]
    emit o "attributes-repeated" [placeFile pl "" [a0 "cs::x" ["a"], a0 "cs::x" ["a"]]]
    emit o "attributes-mixed" [placeFile pl "" [a0 "deprecated" [], a0 "allow" ["All"]]]
    for a in badArgAttrs do
      emit o "attributes-bad-argument" [placeFile pl "" [a]]
  -- attributes inherited through aliases: repetition is checked on written ++ inherited
  for d in builtins do
    emit o "attributes-alias" [file [.alias [] [] "T" (tr (.prim .bool) false [a0 d (builtinArgs d 1)]), str "S" [fld "x" (tr (.named "T") false [a0 d (builtinArgs d 1)])]]]
    emit o "attributes-alias" [file [.alias [] [] "T" (tr (.prim .bool) false [a0 "cs::a" []]), str "S" [fld "x" (tr (.named "T") false [a0 d (builtinArgs d 1)])]]]
  emit o "attributes-alias" [file [.alias [] [] "T" (tr (.prim .bool) false [a0 "cs::a" []]), .alias [] [] "U" (tr (.named "T") false [a0 "cs::a" []]),
                               str "S" [fld "x" (tr (.named "U") false [a0 "cs::a" []])]]]

def catalogue : List Entry :=
  tagEntries ++ enumEntries ++ keyEntries ++ streamEntries ++ shadowEntries ++ nameEntries ++ miscEntries ++
  (Place.all.flatMap fun pl => builtins.flatMap fun d => [0, 1, 2].map fun n =>
    (⟨"attr-" ++ d ++ "-" ++ toString n ++ "-on-" ++ pl.name,
      fun s => match pl with
        | .file | .module => (placeFile .struct s [a0 d (builtinArgs d n)]).defs
        | _ => (placeFile pl s [a0 d (builtinArgs d n)]).defs⟩ : Entry))

/-- other ways to break a whole file -/
def fileMutations : List (String × (SFile → SFile)) :=
  [("no-module", fun f => { f with module := none }),
   ("file-attr-deprecated", fun f => { f with fileAttrs := f.fileAttrs ++ [a0 "deprecated" []] }),
   ("file-attr-allow", fun f => { f with fileAttrs := f.fileAttrs ++ [a0 "allow" ["All"]] }),
   ("file-attr-unknown", fun f => { f with fileAttrs := f.fileAttrs ++ [a0 "nope" []] }),
   ("module-attr-allow", fun f => { f with module := f.module.map fun m => { m with attrs := m.attrs ++ [a0 "allow" ["All"]] } }),
   ("module-attr-deprecated", fun f => { f with module := f.module.map fun m => { m with attrs := m.attrs ++ [a0 "deprecated" ["x"]] } })]

def appendDefs (P : Program) (fileIdx : Nat) (ds : List Def) : Program :=
  P.zipIdx.map fun (f, i) => if i == fileIdx % P.length then { f with defs := f.defs ++ ds } else f

def genC04 (tier : Tier) (seed : Nat) (o : Out) : IO Unit := do
  -- 1. the catalogue, each entry alone (exact single-violation programs)
  for e in catalogue do
    emit o ("catalogue/" ++ e.name) [file (e.defs "")]
  emit o "catalogue/no-module" [{ fileAttrs := [], module := none, defs := [str "S" []] }]
  emit o "catalogue/no-module-empty-file" [{ fileAttrs := [], module := none, defs := [] }]
  emit o "catalogue/no-module-file-attribute-only" [{ fileAttrs := [a0 "allow" ["All"]], module := none, defs := [] }]
  emit o "catalogue/no-module-second-file" [file [str "S" []], { fileAttrs := [], module := none, defs := [str "T" []] }]
  emit o "catalogue/no-module-and-parse-error" [{ fileAttrs := [], module := none, defs := [str "S" [fld "a" (pt .bool true) (some (lit (-1)))]] }]
  -- same simple names in different modules, reached through one inheritance graph (the bases are de-duplicated by scoped name)
  let audit := file [ifc "Base" [op "log"]] "Audit"
  let billing := file [ifc "Base" [op "charge"]] "Billing"
  for (nme, app) in [("shadow-second-same-named-base", [ifc "Service" [op "charge"] [nm "Audit::Base", nm "Billing::Base"]]),
                      ("shadow-first-same-named-base", [ifc "Service" [op "log"] [nm "Audit::Base", nm "Billing::Base"]]),
                      ("shadow-same-named-base-through-middle", [ifc "Middle" [] [nm "Billing::Base"], ifc "Service" [op "charge"] [nm "Audit::Base", nm "Middle"]]),
                      ("shadow-same-named-base-own-module", [ifc "Base" [op "own"] [nm "Audit::Base"], ifc "Service" [op "log"] [nm "Base", nm "Billing::Base"]]),
                      ("no-shadow-same-named-bases", [ifc "Service" [op "other"] [nm "Audit::Base", nm "Billing::Base"]]),
                      ("same-op-in-same-named-bases", [ifc "Service" [] [nm "Audit::Base", nm "::Billing::Base"]])] do
    for P in [[audit, billing, file app "App"], [file app "App", billing, audit]] do
      emit o ("catalogue/" ++ nme) P
  emit o "catalogue/same-named-structs-as-key-and-field" [file [str "K" [fld "a" (pt .bool)] true] "P", file [str "K" [fld "a" (pt .float32)] true] "Q",
    file [str "U" [fld "d" (tr (.dict (nm "P::K") (nm "Q::K")))], str "V" [fld "d" (tr (.dict (nm "Q::K") (nm "P::K")))]] "R"]
  -- a definition that shares its fully-scoped name with a (nested) module, in both file orders
  for P in [[file [str "B" []] "A", file [str "C" []] "A::B"], [file [str "C" []] "A::B", file [str "B" []] "A"],
            [file [str "B" []] "A", file [str "D" []] "A::B::C"], [file [str "D" []] "A::B::C", file [str "B" []] "A"],
            [file [str "X" []] "A", file [str "C" []] "A::B", file [enm "B" [enr "E"]] "A"]] do
    emit o "catalogue/module-definition-name-clash" P
  emit o "catalogue/dup-struct-two-files" [file [str "S" []], file [str "S" []]]
  emit o "catalogue/same-name-two-modules" [file [str "S" []], file [str "S" []] "N"]
  emit o "catalogue/dup-struct-nested-module" [file [str "S" []] "A::B", file [enm "S" [enr "X"]] "A::B"]
  emit o "catalogue/parse-error-in-one-file-only" [file [str "S" [fld "a" (pt .bool true) (some (lit (-1)))]], file [str "T" [fld "x" (nm "NoSuchType")]]]
  emit o "catalogue/attribute-error-hides-resolution" [file [str "S" [fld "x" (nm "NoSuchType") none [a0 "foo" []]]]]
  emit o "catalogue/resolution-hides-redefinition" [file [str "S" [fld "x" (nm "NoSuchType")], str "S" []]]
  emit o "catalogue/cycle-hides-redefinition" [file [str "A" [fld "b" (nm "B")], str "B" [fld "a" (nm "A")], str "A" []]]
  emit o "catalogue/redefinition-hides-visitor" [file [str "S" [fld "a" (pt .bool) (some (lit 1))], str "S" []]]
  -- 2. bounded-exhaustive small-scope families
  membersFamily o
  streamsFamily o
  keysFamily o tier
  attributesFamily o
  -- 3. generated well-formed programs, alone and with 1..2 injected violations
  let nProg := if tier == .thorough then 24000 else 900
  let cat := catalogue.toArray
  let mut r := Rng.mk' (seed + 4)
  for i in [0:nProg] do
    let cfg : GenCfg := { maxFiles := 1 + i % 3, maxDefs := 1 + i % 5, typeDepth := i % 4 }
    let (p, r') := genProgram cfg r
    r := r'
    let style := if i % 4 == 3 then 1 else 0
    emit o "generated/well-formed" p style (seed * 1000 + i)
    let (k1, r1) := r.below cat.size
    let (k2, r2) := r1.below cat.size
    let (fi, r3) := r2.below 3
    let (mi, r4) := r3.below (4 * fileMutations.length)
    r := r4
    let e1 := cat[k1]!
    let e2 := cat[k2]!
    emit o "generated/one-violation" (appendDefs p fi (e1.defs "Zq1")) style (seed * 1000 + i)
    emit o "generated/two-violations" (appendDefs (appendDefs p fi (e1.defs "Zq1")) (fi + 1) (e2.defs "Zq2")) style (seed * 1000 + i)
    if mi < fileMutations.length then
      let (mname, m) := fileMutations.getD mi default
      let _ := mname
      emit o "generated/file-mutation" (p.zipIdx.map fun (f, j) => if j == fi % p.length then m f else f) style (seed * 1000 + i)

end Slicec.Drv.C04

namespace Slicec.Drv
def genC04 := C04.genC04
end Slicec.Drv
