/-
  Cases for C04 (semantic validation, projection `codes` = sorted set of error codes).
  Every program is printed, compiled by the real compiler and compared with `validateFull` (Model/Pipeline.lean: the
  phases of `validate` plus the parser's E017 for bases / underlying types that are not names, the alias gate and the
  interface-inheritance check of `detect_cycles`); in addition the model is compared with the specification on every
  program (`K` lines: accepted ⇎ well-formed, or a reported code whose rule is not violated; the three rules that
  `validateFull` adds are decided here by closures over the alias / inheritance graphs, not by the mirrors of the code).
-/
import SlicecVerif.Model.Pipeline
import SlicecVerif.Drv.Prog

namespace Slicec.Drv.C04

open Slicec Slicec.Validate Slicec.Drv

/-! ### building blocks -/

def lit (v : Int) (base : Nat := 10) : IntLit := ⟨decide (v < 0), base, v.natAbs, false⟩
def tr (e : TyExpr) (opt : Bool := false) (attrs : List Attr := []) : TRef := .mk attrs e opt
def pt (p : Prim) (opt : Bool := false) : TRef := .mk [] (.prim p) opt
def nm (id : String) (opt : Bool := false) : TRef := .mk [] (.named id) opt
def fld (name : String) (ty : TRef) (tag : Option IntLit := none) (attrs : List Attr := []) : Field :=
  { doc := [], attrs := attrs, tag := tag, name := name, ty := ty }
def par (name : String) (ty : TRef) (stream : Bool := false) (tag : Option IntLit := none) (attrs : List Attr := []) : Param :=
  { attrs := attrs, tag := tag, name := name, stream := stream, ty := ty }
def op (name : String) (params : List Param := []) (ret : Ret := .none) (attrs : List Attr := []) : Op :=
  { doc := [], attrs := attrs, idempotent := false, name := name, params := params, ret := ret }
def enr (name : String) (value : Option IntLit := none) (fields : Option (List Field) := none) (attrs : List Attr := []) : Enumerator :=
  { doc := [], attrs := attrs, name := name, fields := fields, value := value }
def str (name : String) (fields : List Field) (compact : Bool := false) (attrs : List Attr := []) : Def :=
  .struct [] attrs compact name fields
def ifc (name : String) (ops : List Op) (bases : List TRef := []) (attrs : List Attr := []) : Def :=
  .iface [] attrs name bases ops
def enm (name : String) (es : List Enumerator) (underlying : Option TRef := none) (compact unchecked : Bool := false)
    (attrs : List Attr := []) : Def :=
  .enum [] attrs compact unchecked name underlying es
def file (defs : List Def) (mod : String := "M") : SFile := { fileAttrs := [], module := some ⟨[], mod⟩, defs := defs }

/-! ### emission -/

def ruleFails (r : Rule) (P : Program) : Bool := !decide (r.Holds P)

/-- which known gap between what is enforced and what is specified makes an accepted program ill-formed -/
def gapLabel (P : Program) : String :=
  if !decide (WellFormedVisitedOnly P) then "model-accepts-ill-formed"
  else if ruleFails (placementRule true) P || ruleFails (repeatRule true) P then "D-04b-unvisited-typeref-attributes"
  else "model-accepts-ill-formed"

/-- the three rules `validateFull` adds to `validate`, decided independently of the mirrors of the code: the shape of bases and
    underlying types directly; "no alias leads into a loop of anonymous types" by the closure over the alias graph
    (`Cyc.anonLoopAliases`, valid on programs whose references resolve); "no interface inherits from itself" by the
    reachability closure over the inheritance graph (`Cyc.onCycle`) -/
structure FullRules where
  shape : Bool
  aliases : Bool
  inheritance : Bool

def fullRules (P : Program) : FullRules :=
  let ig := Cyc.igraphOfProgram P
  { shape := shapeB P
    aliases := (Cyc.anonLoopAliases P).isEmpty
    inheritance := (Cyc.onCycle (Cyc.igEdges ig) ig.length).isEmpty }

/-- sorted multiset of codes, `-` when empty: the projection `allcodes` of the `compile` engine (no lints in these programs) -/
def allCodesProjection (cs : List String) : String :=
  let s := sortStrings cs
  if s.isEmpty then "-" else ",".intercalate s

/-- `multiset`: also compare the number of times each code is reported (only for programs on which the model is exact in that
    respect: one E017 per offending base / underlying type, one E019 per alias, one E032 per interface and per containment
    cycle when there is at most one) -/
def emit (o : Out) (fam : String) (P : Program) (style : Nat := 0) (seed : Nat := 0) (multiset : Bool := false) : IO Unit := do
  let texts := P.map fun f => (render style seed (fileItems f)).1
  let cs := validateFull P
  o.line (compileCase fam "codes" "-" texts (codesProjection cs))
  if multiset then
    o.line (compileCase (fam ++ "#n") "allcodes" "-" texts (allCodesProjection cs))
  let hex := "|".intercalate (texts.map hexOfString)
  let wfOld := decide (WellFormed P)
  let fr := fullRules P
  let wf := wfOld && fr.shape && fr.aliases && fr.inheritance
  if cs.isEmpty && !wf then
    o.line (tab ["K", (if wfOld then "model-accepts-ill-formed" else gapLabel P), fam, hex,
      "the program is accepted (no error code) although it violates a rule of the specification"])
  if !cs.isEmpty && wf then
    o.line (tab ["K", "model-rejects-well-formed", fam, hex, "the program satisfies every rule but is rejected with " ++ codesProjection cs])
  for c in cs.eraseDups do
    let violated := decide (Violates c P) || (c == code "TypeMismatch" && !fr.shape) ||
      (c == code "SelfReferentialTypeAliasNeedsConcreteType" && !fr.aliases) || (c == code "InfiniteSizeCycle" && !fr.inheritance)
    if !violated then
      o.line (tab ["K", "code-without-violation", fam, hex, "code " ++ c ++ " is reported but no rule it belongs to is violated"])

/-! ### the rule catalogue: every entry is a list of definitions using names with the given suffix -/

structure Entry where
  name : String
  defs : String → List Def

instance : Inhabited Entry := ⟨⟨"", fun _ => []⟩⟩

def a0 (d : String) (args : List String := []) : Attr := ⟨d, args⟩

def tagBoundary : List (String × Int) :=
  [("0", 0), ("max", 2147483647), ("max+1", 2147483648), ("-1", -1), ("2^32", 4294967296), ("2^32+1", 4294967297),
   ("i128max", 170141183460469231731687303715884105727), ("i128max+1", 170141183460469231731687303715884105728),
   ("-i128max-1", -170141183460469231731687303715884105728)]

def tagEntries : List Entry :=
  (tagBoundary.flatMap fun (n, v) =>
    [⟨"tag-field-" ++ n, fun s => [str ("S" ++ s) [fld "a" (pt .bool true) (some (lit v))]]⟩,
     ⟨"tag-param-" ++ n, fun s => [ifc ("I" ++ s) [op "o" [par "a" (pt .bool true) false (some (lit v 16))]]]⟩,
     ⟨"tag-return-" ++ n, fun s => [ifc ("I" ++ s) [op "o" [] (.single (some (lit v)) false (pt .bool true))]]⟩,
     ⟨"tag-enumerator-field-" ++ n, fun s => [enm ("E" ++ s) [enr "A" none (some [fld "a" (pt .bool true) (some (lit v 2))])]]⟩]) ++
  [⟨"tagged-nonoptional-field", fun s => [str ("S" ++ s) [fld "a" (pt .bool) (some (lit 1))]]⟩,
   ⟨"tagged-nonoptional-param", fun s => [ifc ("I" ++ s) [op "o" [par "a" (pt .int32) false (some (lit 1))]]]⟩,
   ⟨"tagged-nonoptional-return", fun s => [ifc ("I" ++ s) [op "o" [] (.single (some (lit 1)) false (pt .string))]]⟩,
   ⟨"tagged-nonoptional-tuple", fun s => [ifc ("I" ++ s) [op "o" [] (.tuple [par "a" (pt .string) false (some (lit 1)), par "b" (pt .bool)])]]⟩,
   ⟨"tagged-nonoptional-enumerator-field", fun s => [enm ("E" ++ s) [enr "A" none (some [fld "a" (pt .bool) (some (lit 0))])]]⟩,
   ⟨"dup-tag-field", fun s => [str ("S" ++ s) [fld "a" (pt .bool true) (some (lit 16 16)), fld "b" (pt .bool true) (some (lit 16))]]⟩,
   ⟨"dup-tag-field-3", fun s => [str ("S" ++ s) [fld "a" (pt .bool true) (some (lit 3)), fld "b" (pt .bool true) (some (lit 1)), fld "c" (pt .bool true) (some (lit 3 2))]]⟩,
   ⟨"dup-tag-param", fun s => [ifc ("I" ++ s) [op "o" [par "a" (pt .bool true) false (some (lit 5)), par "b" (pt .bool true) false (some (lit 5))]]]⟩,
   ⟨"dup-tag-tuple", fun s => [ifc ("I" ++ s) [op "o" [] (.tuple [par "a" (pt .bool true) false (some (lit 5)), par "b" (pt .bool true) false (some (lit 5))])]]⟩,
   ⟨"same-tag-param-and-return", fun s => [ifc ("I" ++ s) [op "o" [par "a" (pt .bool true) false (some (lit 5))] (.single (some (lit 5)) false (pt .bool true))]]⟩,
   ⟨"dup-tag-enumerator-field", fun s => [enm ("E" ++ s) [enr "A" none (some [fld "a" (pt .bool true) (some (lit 7)), fld "b" (pt .bool true) (some (lit 7))])]]⟩,
   ⟨"same-tag-two-enumerators", fun s => [enm ("E" ++ s) [enr "A" none (some [fld "a" (pt .bool true) (some (lit 7))]), enr "B" none (some [fld "a" (pt .bool true) (some (lit 7))])]]⟩,
   ⟨"compact-struct-tagged", fun s => [str ("S" ++ s) [fld "a" (pt .bool true) (some (lit 1))] true]⟩,
   ⟨"compact-struct-tagged-nonoptional", fun s => [str ("S" ++ s) [fld "a" (pt .bool) (some (lit 1))] true]⟩,
   ⟨"compact-struct-empty", fun s => [str ("S" ++ s) [] true]⟩,
   ⟨"compact-struct-ok", fun s => [str ("S" ++ s) [fld "a" (pt .bool true)] true]⟩,
   ⟨"compact-enum-tagged", fun s => [enm ("E" ++ s) [enr "A" none (some [fld "a" (pt .bool true) (some (lit 1))])] none true]⟩,
   ⟨"compact-enum-ok", fun s => [enm ("E" ++ s) [enr "A" none (some [fld "a" (pt .bool true)])] none true]⟩]

def enumEntries : List Entry :=
  (integralPrims.flatMap fun p =>
    match Validate.primBounds p with
    | some (lo, hi) =>
      [("min-1", lo - 1), ("min", lo), ("max", hi), ("max+1", hi + 1)].map fun (n, v) =>
        (⟨"enum-" ++ p.kw ++ "-" ++ n, fun s => [enm ("E" ++ s) [enr "A" (some (lit v (if v < 0 then 10 else 16)))] (some (pt p))]⟩ : Entry)
    | none => []) ++
  (integralPrims.flatMap fun p =>
    match Validate.primBounds p with
    | some (_, hi) =>
      [(⟨"enum-" ++ p.kw ++ "-implicit-past-max", fun s => [enm ("E" ++ s) [enr "A" (some (lit hi)), enr "B"] (some (pt p))]⟩ : Entry)]
    | none => []) ++
  [⟨"enum-plain-max", fun s => [enm ("E" ++ s) [enr "A" (some (lit 2147483647))]]⟩,
   ⟨"enum-plain-max+1", fun s => [enm ("E" ++ s) [enr "A" (some (lit 2147483648))]]⟩,
   ⟨"enum-plain-implicit-past-max", fun s => [enm ("E" ++ s) [enr "A" (some (lit 2147483647)), enr "B"]]⟩,
   ⟨"enum-plain--1", fun s => [enm ("E" ++ s) [enr "A" (some (lit (-1)))]]⟩,
   ⟨"enum-plain-0", fun s => [enm ("E" ++ s) [enr "A" (some (lit 0))]]⟩,
   ⟨"enum-value-i128-overflow", fun s => [enm ("E" ++ s) [enr "A" (some (lit 170141183460469231731687303715884105728))]]⟩,
   ⟨"enum-implicit-wraps-i128", fun s => [enm ("E" ++ s) [enr "A" (some (lit 170141183460469231731687303715884105727)), enr "B"] none false true]⟩,
   ⟨"enum-dup-value-bases", fun s => [enm ("E" ++ s) [enr "A" (some (lit 16 16)), enr "B" (some (lit 16))] (some (pt .uint8))]⟩,
   ⟨"enum-dup-value-binary", fun s => [enm ("E" ++ s) [enr "A" (some (lit 5 2)), enr "B" (some (lit 5))]]⟩,
   ⟨"enum-dup-value-implicit", fun s => [enm ("E" ++ s) [enr "A" (some (lit 1)), enr "B" (some (lit 0)), enr "C"]]⟩,
   ⟨"enum-dup-value-three", fun s => [enm ("E" ++ s) [enr "A" (some (lit 2)), enr "B" (some (lit 2)), enr "C" (some (lit 2))]]⟩,
   ⟨"enum-dup-negative", fun s => [enm ("E" ++ s) [enr "A" (some (lit (-3))), enr "B" (some (lit (-3)))] (some (pt .int8))]⟩,
   ⟨"enum-underlying-bool", fun s => [enm ("E" ++ s) [enr "A"] (some (pt .bool))]⟩,
   ⟨"enum-underlying-float32", fun s => [enm ("E" ++ s) [enr "A"] (some (pt .float32))]⟩,
   ⟨"enum-underlying-float64", fun s => [enm ("E" ++ s) [enr "A"] (some (pt .float64))]⟩,
   ⟨"enum-underlying-string", fun s => [enm ("E" ++ s) [enr "A" (some (lit 5000000000))] (some (pt .string))]⟩,
   ⟨"enum-underlying-optional", fun s => [enm ("E" ++ s) [enr "A"] (some (pt .uint8 true))]⟩,
   ⟨"enum-underlying-optional-nonintegral", fun s => [enm ("E" ++ s) [enr "A"] (some (pt .string true))]⟩,
   ⟨"enum-underlying-alias-ok", fun s => [.alias [] [] ("T" ++ s) (pt .uint8), enm ("E" ++ s) [enr "A" (some (lit 255))] (some (nm ("T" ++ s)))]⟩,
   ⟨"enum-underlying-alias-range", fun s => [.alias [] [] ("T" ++ s) (pt .uint8), enm ("E" ++ s) [enr "A" (some (lit 256))] (some (nm ("T" ++ s)))]⟩,
   ⟨"enum-underlying-alias-string", fun s => [.alias [] [] ("T" ++ s) (pt .string), enm ("E" ++ s) [enr "A"] (some (nm ("T" ++ s)))]⟩,
   ⟨"enum-underlying-struct", fun s => [str ("S" ++ s) [], enm ("E" ++ s) [enr "A"] (some (nm ("S" ++ s)))]⟩,
   ⟨"enum-underlying-alias-sequence", fun s => [.alias [] [] ("T" ++ s) (tr (.seq (pt .bool))), enm ("E" ++ s) [enr "A"] (some (nm ("T" ++ s)))]⟩,
   ⟨"enum-backed-with-fields", fun s => [enm ("E" ++ s) [enr "A" none (some [fld "x" (pt .bool)])] (some (pt .uint8))]⟩,
   ⟨"enum-backed-with-empty-fields", fun s => [enm ("E" ++ s) [enr "A" none (some [])] (some (pt .uint8))]⟩,
   ⟨"enum-plain-with-empty-fields", fun s => [enm ("E" ++ s) [enr "A" none (some [])]]⟩,
   ⟨"enum-checked-empty", fun s => [enm ("E" ++ s) []]⟩,
   ⟨"enum-checked-empty-backed", fun s => [enm ("E" ++ s) [] (some (pt .int32))]⟩,
   ⟨"enum-unchecked-empty", fun s => [enm ("E" ++ s) [] none false true]⟩,
   ⟨"enum-compact-unchecked", fun s => [enm ("E" ++ s) [enr "A"] none true true]⟩,
   ⟨"enum-compact-backed", fun s => [enm ("E" ++ s) [enr "A"] (some (pt .uint8)) true false]⟩,
   ⟨"enum-compact-backed-unchecked", fun s => [enm ("E" ++ s) [enr "A"] (some (pt .uint8)) true true]⟩,
   ⟨"enum-compact-empty", fun s => [enm ("E" ++ s) [] none true false]⟩]

/-- key types: (name, helper definitions, the key reference) -/
structure KeyT where
  name : String
  helpers : String → List Def
  key : String → TRef

instance : Inhabited KeyT := ⟨⟨"", fun _ => [], fun _ => default⟩⟩

def keyLeaves : List KeyT :=
  (Prim.all.map fun p => (⟨p.kw, fun _ => [], fun _ => pt p⟩ : KeyT)) ++
  [⟨"opt-bool", fun _ => [], fun _ => pt .bool true⟩,
   ⟨"opt-string", fun _ => [], fun _ => pt .string true⟩,
   ⟨"sequence", fun _ => [], fun _ => tr (.seq (pt .bool))⟩,
   ⟨"dictionary", fun _ => [], fun _ => tr (.dict (pt .bool) (pt .bool))⟩,
   ⟨"result", fun _ => [], fun _ => tr (.result (pt .bool) (pt .bool))⟩,
   ⟨"custom", fun s => [.custom [] [] ("C" ++ s)], fun s => nm ("C" ++ s)⟩,
   ⟨"backed-enum", fun s => [enm ("KE" ++ s) [enr "A"] (some (pt .uint8))], fun s => nm ("KE" ++ s)⟩,
   ⟨"plain-enum", fun s => [enm ("KE" ++ s) [enr "A"]], fun s => nm ("KE" ++ s)⟩,
   ⟨"fields-enum", fun s => [enm ("KE" ++ s) [enr "A" none (some [fld "x" (pt .bool)])]], fun s => nm ("KE" ++ s)⟩,
   ⟨"plain-struct", fun s => [str ("KS" ++ s) [fld "x" (pt .bool)]], fun s => nm ("KS" ++ s)⟩,
   ⟨"empty-struct", fun s => [str ("KS" ++ s) []], fun s => nm ("KS" ++ s)⟩,
   ⟨"interface", fun s => [ifc ("KI" ++ s) []], fun s => nm ("KI" ++ s)⟩,
   ⟨"alias-int32", fun s => [.alias [] [] ("KT" ++ s) (pt .int32)], fun s => nm ("KT" ++ s)⟩,
   ⟨"alias-float64", fun s => [.alias [] [] ("KT" ++ s) (pt .float64)], fun s => nm ("KT" ++ s)⟩,
   ⟨"alias-sequence", fun s => [.alias [] [] ("KT" ++ s) (tr (.seq (pt .bool)))], fun s => nm ("KT" ++ s)⟩,
   ⟨"opt-alias", fun s => [.alias [] [] ("KT" ++ s) (pt .int32)], fun s => nm ("KT" ++ s) true⟩,
   ⟨"opt-custom", fun s => [.custom [] [] ("C" ++ s)], fun s => nm ("C" ++ s) true⟩,
   ⟨"unknown", fun _ => [], fun _ => nm "NoSuchType"⟩]

/-- a compact struct whose fields are the given key types (one more nesting level) -/
def wrapKey (ks : List KeyT) (optField : Bool := false) : KeyT :=
  ⟨"compact(" ++ ",".intercalate (ks.map (·.name)) ++ ")" ++ (if optField then "?" else ""),
   fun s => (ks.zipIdx.flatMap fun (k, i) => k.helpers (s ++ "x" ++ toString i)) ++
            [str ("W" ++ s) (ks.zipIdx.map fun (k, i) =>
               let r := k.key (s ++ "x" ++ toString i)
               fld ("f" ++ toString i) (if optField then .mk r.attrs r.ty true else r)) true],
   fun s => nm ("W" ++ s)⟩

/-- where a dictionary can be written -/
def keySites : List (String × (String → TRef → List Def)) :=
  [("field", fun s d => [str ("D" ++ s) [fld "d" d]]),
   ("opt-field", fun s d => [str ("D" ++ s) [fld "d" (.mk d.attrs d.ty true)]]),
   ("param", fun s d => [ifc ("D" ++ s) [op "o" [par "d" d]]]),
   ("return", fun s d => [ifc ("D" ++ s) [op "o" [] (.single none false d)]]),
   ("alias", fun s d => [.alias [] [] ("D" ++ s) d]),
   ("enumerator-field", fun s d => [enm ("D" ++ s) [enr "A" none (some [fld "d" d])]]),
   ("sequence-element", fun s d => [str ("D" ++ s) [fld "d" (tr (.seq d))]]),
   ("dictionary-value", fun s d => [str ("D" ++ s) [fld "d" (tr (.dict (pt .string) d))]]),
   ("result-failure", fun s d => [str ("D" ++ s) [fld "d" (tr (.result (pt .string) d))]])]

def keyEntry (site : String × (String → TRef → List Def)) (k : KeyT) : Entry :=
  ⟨"key-" ++ site.1 ++ "-" ++ k.name, fun s => k.helpers s ++ site.2 s (tr (.dict (k.key s) (pt .bool)))⟩

def keyEntries : List Entry :=
  (keyLeaves.map (keyEntry (keySites.getD 0 default))) ++
  (keySites.flatMap fun site =>
    [keyEntry site (keyLeaves.getD 13 default), keyEntry site (keyLeaves.getD 16 default), keyEntry site (keyLeaves.getD 24 default)]) ++
  -- a dictionary used as the key of a dictionary: both are checked
  [⟨"key-nested-dictionary-bad-inner", fun s => [str ("D" ++ s) [fld "d" (tr (.dict (tr (.dict (pt .float32) (pt .bool))) (pt .bool)))]]⟩,
   ⟨"key-in-value-bad", fun s => [str ("D" ++ s) [fld "d" (tr (.dict (pt .bool) (tr (.dict (pt .float32) (pt .bool)))))]]⟩,
   ⟨"key-through-alias-use", fun s => [.alias [] [] ("KT" ++ s) (tr (.dict (pt .float64) (pt .bool))), str ("D" ++ s) [fld "d" (nm ("KT" ++ s))]]⟩]

def streamEntries : List Entry :=
  [⟨"stream-not-last", fun s => [ifc ("I" ++ s) [op "o" [par "a" (pt .bool) true, par "b" (pt .bool)]]]⟩,
   ⟨"stream-two", fun s => [ifc ("I" ++ s) [op "o" [par "a" (pt .bool) true, par "b" (pt .bool) true]]]⟩,
   ⟨"stream-last-ok", fun s => [ifc ("I" ++ s) [op "o" [par "a" (pt .bool), par "b" (pt .bool) true]]]⟩,
   ⟨"stream-return-not-last", fun s => [ifc ("I" ++ s) [op "o" [] (.tuple [par "a" (pt .bool) true, par "b" (pt .bool)])]]⟩,
   ⟨"stream-return-two", fun s => [ifc ("I" ++ s) [op "o" [] (.tuple [par "a" (pt .bool) true, par "b" (pt .bool) true])]]⟩,
   ⟨"stream-param-and-return", fun s => [ifc ("I" ++ s) [op "o" [par "a" (pt .bool) true] (.single none true (pt .bool))]]⟩,
   ⟨"stream-tagged", fun s => [ifc ("I" ++ s) [op "o" [par "a" (pt .bool true) true (some (lit 1))]]]⟩,
   ⟨"return-tuple-0", fun s => [ifc ("I" ++ s) [op "o" [] (.tuple [])]]⟩,
   ⟨"return-tuple-1", fun s => [ifc ("I" ++ s) [op "o" [] (.tuple [par "a" (pt .bool)])]]⟩,
   ⟨"return-tuple-2", fun s => [ifc ("I" ++ s) [op "o" [] (.tuple [par "a" (pt .bool), par "b" (pt .bool)])]]⟩,
   ⟨"return-tuple-1-tag-out-of-range", fun s => [ifc ("I" ++ s) [op "o" [] (.tuple [par "a" (pt .bool true) false (some (lit (-1)))])]]⟩]

def shadowEntries : List Entry :=
  [⟨"shadow-direct", fun s => [ifc ("A" ++ s) [op "o"], ifc ("B" ++ s) [op "o"] [nm ("A" ++ s)]]⟩,
   ⟨"shadow-transitive", fun s => [ifc ("A" ++ s) [op "o"], ifc ("B" ++ s) [op "p"] [nm ("A" ++ s)], ifc ("C" ++ s) [op "o"] [nm ("B" ++ s)]]⟩,
   ⟨"shadow-diamond", fun s => [ifc ("A" ++ s) [op "o"], ifc ("B" ++ s) [] [nm ("A" ++ s)], ifc ("C" ++ s) [] [nm ("A" ++ s)],
                                ifc ("D" ++ s) [op "o"] [nm ("B" ++ s), nm ("C" ++ s)]]⟩,
   ⟨"shadow-second-base", fun s => [ifc ("A" ++ s) [op "p"], ifc ("B" ++ s) [op "o"], ifc ("C" ++ s) [op "o"] [nm ("A" ++ s), nm ("B" ++ s)]]⟩,
   ⟨"no-shadow-different-name", fun s => [ifc ("A" ++ s) [op "o"], ifc ("B" ++ s) [op "p"] [nm ("A" ++ s)]]⟩,
   ⟨"no-shadow-two-bases-same-op", fun s => [ifc ("A" ++ s) [op "o"], ifc ("B" ++ s) [op "o"], ifc ("C" ++ s) [op "p"] [nm ("A" ++ s), nm ("B" ++ s)]]⟩,
   ⟨"shadow-base-declared-later", fun s => [ifc ("B" ++ s) [op "o"] [nm ("A" ++ s)], ifc ("A" ++ s) [op "o"]]⟩,
   ⟨"shadow-through-alias-base", fun s => [ifc ("A" ++ s) [op "o"], .alias [] [] ("T" ++ s) (nm ("A" ++ s)), ifc ("B" ++ s) [op "o"] [nm ("T" ++ s)]]⟩,
   ⟨"shadow-case-differs", fun s => [ifc ("A" ++ s) [op "o"], ifc ("B" ++ s) [op "O"] [nm ("A" ++ s)]]⟩]

def nameEntries : List Entry :=
  [⟨"dup-struct", fun s => [str ("S" ++ s) [], str ("S" ++ s) []]⟩,
   ⟨"dup-struct-enum", fun s => [str ("S" ++ s) [], enm ("S" ++ s) [enr "A"]]⟩,
   ⟨"dup-alias-custom", fun s => [.alias [] [] ("S" ++ s) (pt .bool), .custom [] [] ("S" ++ s)]⟩,
   ⟨"dup-interface", fun s => [ifc ("S" ++ s) [], ifc ("S" ++ s) [op "o"]]⟩,
   ⟨"dup-field", fun s => [str ("S" ++ s) [fld "x" (pt .bool), fld "x" (pt .bool)]]⟩,
   ⟨"dup-field-different-type", fun s => [str ("S" ++ s) [fld "x" (pt .bool), fld "y" (pt .int8), fld "x" (pt .string)]]⟩,
   ⟨"dup-operation", fun s => [ifc ("I" ++ s) [op "o", op "o"]]⟩,
   ⟨"dup-parameter", fun s => [ifc ("I" ++ s) [op "o" [par "x" (pt .bool), par "x" (pt .bool)]]]⟩,
   ⟨"dup-return-member", fun s => [ifc ("I" ++ s) [op "o" [] (.tuple [par "x" (pt .bool), par "x" (pt .bool)])]]⟩,
   ⟨"same-name-param-and-return", fun s => [ifc ("I" ++ s) [op "o" [par "x" (pt .bool)] (.tuple [par "x" (pt .bool), par "y" (pt .bool)])]]⟩,
   ⟨"param-named-returnValue", fun s => [ifc ("I" ++ s) [op "o" [par "returnValue" (pt .bool)] (.single none false (pt .bool))]]⟩,
   ⟨"dup-enumerator", fun s => [enm ("E" ++ s) [enr "A", enr "A"]]⟩,
   ⟨"dup-enumerator-field", fun s => [enm ("E" ++ s) [enr "A" none (some [fld "x" (pt .bool), fld "x" (pt .bool)])]]⟩,
   ⟨"same-field-two-enumerators", fun s => [enm ("E" ++ s) [enr "A" none (some [fld "x" (pt .bool)]), enr "B" none (some [fld "x" (pt .bool)])]]⟩,
   ⟨"same-field-two-structs", fun s => [str ("S" ++ s) [fld "x" (pt .bool)], str ("T" ++ s) [fld "x" (pt .bool)]]⟩,
   ⟨"field-named-like-struct", fun s => [str ("S" ++ s) [fld ("S" ++ s) (pt .bool)]]⟩,
   ⟨"names-differ-in-case", fun s => [str ("S" ++ s) [fld "x" (pt .bool), fld "X" (pt .bool)]]⟩]

def miscEntries : List Entry :=
  [⟨"alias-of-optional", fun s => [.alias [] [] ("T" ++ s) (pt .bool true)]⟩,
   ⟨"alias-of-optional-sequence", fun s => [.alias [] [] ("T" ++ s) (tr (.seq (pt .bool)) true)]⟩,
   ⟨"alias-of-optional-named", fun s => [str ("S" ++ s) [], .alias [] [] ("T" ++ s) (nm ("S" ++ s) true)]⟩,
   ⟨"alias-of-sequence-of-optional", fun s => [.alias [] [] ("T" ++ s) (tr (.seq (pt .bool true)))]⟩,
   ⟨"alias-optional-used-as-key", fun s => [.alias [] [] ("T" ++ s) (pt .bool true), str ("S" ++ s) [fld "d" (tr (.dict (nm ("T" ++ s)) (pt .bool)))]]⟩,
   ⟨"unknown-type", fun s => [str ("S" ++ s) [fld "x" (nm "NoSuchType")]]⟩,
   ⟨"unknown-base", fun s => [ifc ("I" ++ s) [] [nm "NoSuchType"]]⟩,
   ⟨"interface-as-field-type", fun s => [ifc ("I" ++ s) [], str ("S" ++ s) [fld "x" (nm ("I" ++ s))]]⟩,
   ⟨"struct-as-base", fun s => [str ("S" ++ s) [], ifc ("I" ++ s) [] [nm ("S" ++ s)]]⟩,
   ⟨"unknown-then-mismatched-base", fun s => [str ("S" ++ s) [], ifc ("I" ++ s) [] [nm "NoSuchType", nm ("S" ++ s)]]⟩,
   ⟨"alias-cycle-self", fun s => [.alias [] [] ("T" ++ s) (nm ("T" ++ s))]⟩,
   ⟨"alias-cycle-two", fun s => [.alias [] [] ("T" ++ s) (nm ("U" ++ s)), .alias [] [] ("U" ++ s) (nm ("T" ++ s))]⟩,
   ⟨"alias-into-cycle", fun s => [.alias [] [] ("T" ++ s) (nm ("U" ++ s)), .alias [] [] ("U" ++ s) (nm ("U" ++ s)), str ("S" ++ s) [fld "x" (nm ("T" ++ s))]]⟩,
   ⟨"cycle-self", fun s => [str ("S" ++ s) [fld "x" (nm ("S" ++ s))]]⟩,
   ⟨"cycle-optional", fun s => [str ("S" ++ s) [fld "x" (nm ("S" ++ s) true)]]⟩,
   ⟨"cycle-sequence", fun s => [str ("S" ++ s) [fld "x" (tr (.seq (nm ("S" ++ s))))]]⟩,
   ⟨"cycle-two", fun s => [str ("S" ++ s) [fld "x" (nm ("U" ++ s))], str ("U" ++ s) [fld "y" (nm ("S" ++ s))]]⟩,
   ⟨"cycle-enum", fun s => [enm ("E" ++ s) [enr "A" none (some [fld "x" (nm ("E" ++ s))])]]⟩,
   ⟨"cycle-through-alias", fun s => [.alias [] [] ("T" ++ s) (tr (.dict (pt .bool) (nm ("S" ++ s)))), str ("S" ++ s) [fld "x" (nm ("T" ++ s))]]⟩,
   ⟨"no-cycle-dag", fun s => [str ("S" ++ s) [], str ("U" ++ s) [fld "a" (nm ("S" ++ s)), fld "b" (nm ("S" ++ s))]]⟩,
   ⟨"no-cycle-interface-param", fun s => [str ("S" ++ s) [], ifc ("I" ++ s) [op "o" [par "a" (nm ("S" ++ s))]]]⟩]

/-! ### attributes -/

def builtinArgs (d : String) (n : Nat) : List String :=
  if d == "allow" then ["All", "Deprecated", "BrokenDocLink"].take n
  else if d == "compress" || d == "slicedFormat" then ["Args", "Return", "Args"].take n
  else if d == "deprecated" then ["use the other one", "b", "c"].take n
  else ["x", "y", "z"].take n

def builtins : List String := ["allow", "compress", "deprecated", "oneway", "slicedFormat"]

/-- every place an attribute can be written: (name, definitions with the attributes there, file attributes?, module attributes?) -/
inductive Place where
  | file | module | struct | field | interface | opVoid | opReturns | param | tupleMember | enum | enumerator | enumeratorField
  | custom | alias | fieldType | seqElement | paramType | aliasType | underlying | base
  deriving Repr, DecidableEq, Inhabited

def Place.all : List Place :=
  [.file, .module, .struct, .field, .interface, .opVoid, .opReturns, .param, .tupleMember, .enum, .enumerator, .enumeratorField,
   .custom, .alias, .fieldType, .seqElement, .paramType, .aliasType, .underlying, .base]

def Place.name : Place → String
  | .file => "file" | .module => "module" | .struct => "struct" | .field => "field" | .interface => "interface"
  | .opVoid => "operation" | .opReturns => "operation-returning" | .param => "parameter" | .tupleMember => "return-member"
  | .enum => "enum" | .enumerator => "enumerator" | .enumeratorField => "enumerator-field" | .custom => "custom" | .alias => "alias"
  | .fieldType => "field-type" | .seqElement => "sequence-element" | .paramType => "parameter-type" | .aliasType => "alias-type"
  | .underlying => "enum-underlying" | .base => "interface-base"

def placeFile (pl : Place) (s : String) (as : List Attr) : SFile :=
  match pl with
  | .file => { fileAttrs := as, module := some ⟨[], "M"⟩, defs := [str ("S" ++ s) []] }
  | .module => { fileAttrs := [], module := some ⟨as, "M"⟩, defs := [str ("S" ++ s) []] }
  | .struct => file [str ("S" ++ s) [] false as]
  | .field => file [str ("S" ++ s) [fld "x" (pt .bool) none as]]
  | .interface => file [ifc ("I" ++ s) [] [] as]
  | .opVoid => file [ifc ("I" ++ s) [op "o" [par "x" (pt .bool)] .none as]]
  | .opReturns => file [ifc ("I" ++ s) [op "o" [] (.single none false (pt .bool)) as]]
  | .param => file [ifc ("I" ++ s) [op "o" [par "x" (pt .bool) false none as]]]
  | .tupleMember => file [ifc ("I" ++ s) [op "o" [] (.tuple [par "x" (pt .bool) false none as, par "y" (pt .bool)])]]
  | .enum => file [enm ("E" ++ s) [enr "A"] none false false as]
  | .enumerator => file [enm ("E" ++ s) [enr "A" none none as]]
  | .enumeratorField => file [enm ("E" ++ s) [enr "A" none (some [fld "x" (pt .bool) none as])]]
  | .custom => file [.custom [] as ("C" ++ s)]
  | .alias => file [.alias [] as ("T" ++ s) (pt .bool)]
  | .fieldType => file [str ("S" ++ s) [fld "x" (tr (.prim .bool) false as)]]
  | .seqElement => file [str ("S" ++ s) [fld "x" (tr (.seq (tr (.prim .bool) false as)))]]
  | .paramType => file [ifc ("I" ++ s) [op "o" [par "x" (tr (.prim .bool) false as)]]]
  | .aliasType => file [.alias [] [] ("T" ++ s) (tr (.prim .bool) false as)]
  | .underlying => file [enm ("E" ++ s) [enr "A"] (some (tr (.prim .uint8) false as))]
  | .base => file [ifc ("J" ++ s) [], ifc ("I" ++ s) [] [tr (.named ("J" ++ s)) false as]]

def badArgAttrs : List Attr :=
  [a0 "allow" ["Foo"], a0 "allow" ["DuplicateFile"], a0 "allow" ["all"], a0 "allow" ["deprecated"], a0 "allow" ["All", "Nope"],
   a0 "allow" [""], a0 "compress" ["args"], a0 "compress" ["Args", "Both"], a0 "compress" ["Return", "Return"],
   a0 "slicedFormat" ["Both"], a0 "slicedFormat" ["Args", "return"], a0 "slicedFormat" [""], a0 "deprecated" [""],
   a0 "oneway" ["Args"], a0 "foo" [], a0 "foo" ["x"], a0 "Allow" ["All"], a0 "deprecate" [], a0 "foo::bar" [], a0 "cs::allow" ["x", "y"],
   a0 "sliced_format" ["Args"], a0 "onewayx" []]

/-- attributes whose verdict is written down HERE, literally, from the language's documentation — not computed from the
    extracted attribute table (the model follows that table; `attribute_table_as_specified` pins it in the proof, these cases give
    the failing input when the table drifts): (place, attribute, expected error kind or none) -/
def pinnedAttrCases : List (Place × Attr × Option String) :=
  [(.struct, a0 "allow" ["All"], none), (.struct, a0 "allow" ["Deprecated"], none), (.struct, a0 "allow" ["MalformedDocComment"], none),
   (.struct, a0 "allow" ["IncorrectDocComment"], none), (.struct, a0 "allow" ["BrokenDocLink"], none),
   (.struct, a0 "allow" ["All", "Deprecated", "BrokenDocLink"], none),
   (.struct, a0 "allow" ["DuplicateFile"], some "InvalidAttributeArgument"), (.file, a0 "allow" ["DuplicateFile"], some "InvalidAttributeArgument"),
   (.struct, a0 "allow" ["Syntax"], some "InvalidAttributeArgument"), (.struct, a0 "allow" [], some "IncorrectAttributeArgumentCount"),
   (.opReturns, a0 "compress" ["Args"], none), (.opReturns, a0 "compress" ["Return"], none), (.opReturns, a0 "compress" ["Args", "Return"], none),
   (.opReturns, a0 "compress" ["Both"], some "InvalidAttributeArgument"), (.opReturns, a0 "compress" [], some "IncorrectAttributeArgumentCount"),
   (.opReturns, a0 "slicedFormat" ["Args"], none), (.opReturns, a0 "slicedFormat" ["Return", "Args"], none),
   (.opReturns, a0 "slicedFormat" ["Both"], some "InvalidAttributeArgument"), (.opReturns, a0 "slicedFormat" [], some "IncorrectAttributeArgumentCount"),
   (.struct, a0 "deprecated" [], none), (.struct, a0 "deprecated" ["reason"], none),
   (.struct, a0 "deprecated" ["a", "b"], some "IncorrectAttributeArgumentCount"),
   (.opVoid, a0 "oneway" [], none), (.opVoid, a0 "oneway" ["x"], some "IncorrectAttributeArgumentCount"),
   (.struct, a0 "nosuch" [], some "UnknownAttribute"), (.struct, a0 "cs::anything" ["x", "y"], none)]

/-! ### bounded-exhaustive families -/

def product {α} : List (List α) → List (List α)
  | [] => [[]]
  | xs :: rest => xs.flatMap fun x => (product rest).map fun r => x :: r

/-- member shapes: (tag, optional) -/
def memberShapes : List (Option Nat × Bool) := [(none, false), (none, true), (some 1, false), (some 1, true), (some 2, false), (some 2, true)]

def membersFamily (o : Out) : IO Unit := do
  for n in [0:4] do
    for shape in product (List.replicate n memberShapes) do
      let fields := shape.zipIdx.map fun ((t, opt), i) => fld ("m" ++ toString i) (pt .int32 opt) (t.map fun v => lit v)
      let params := shape.zipIdx.map fun ((t, opt), i) => par ("m" ++ toString i) (pt .int32 opt) false (t.map fun v => lit v)
      emit o "tags-struct" [file [str "S" fields]]
      emit o "tags-compact-struct" [file [str "S" fields true]]
      emit o "tags-enumerator" [file [enm "E" [enr "A" none (some fields)]]]
      emit o "tags-compact-enum" [file [enm "E" [enr "A" none (some fields)] none true]]
      emit o "tags-parameters" [file [ifc "I" [op "o" params]]]
      if n ≥ 2 then emit o "tags-return-tuple" [file [ifc "I" [op "o" [] (.tuple params)]]]

def streamsFamily (o : Out) : IO Unit := do
  let paramChoices := (List.range 4).flatMap fun n => product (List.replicate n [false, true])
  let retChoices : List Ret :=
    [Ret.none, .single none false (pt .bool), .single none true (pt .bool)] ++
    ((List.range 4).flatMap fun n => (product (List.replicate n [false, true])).map fun ss =>
      Ret.tuple (ss.zipIdx.map fun (s, i) => par ("r" ++ toString i) (pt .bool) s))
  for ps in paramChoices do
    for r in retChoices do
      emit o "streams" [file [ifc "I" [op "o" (ps.zipIdx.map fun (s, i) => par ("p" ++ toString i) (pt .bool) s) r]]]

def keysFamily (o : Out) (tier : Tier) : IO Unit := do
  let site0 := keySites.getD 0 default
  let leaves := keyLeaves
  -- depth 0 at every site
  for site in keySites do
    for k in leaves do
      let e := keyEntry site k
      emit o "keys-depth0" [file (e.defs "")]
  -- depth 1: compact structs of one or two leaves
  let small := leaves.filter fun k => ["bool", "int32", "float32", "string", "opt-bool", "sequence", "custom", "backed-enum", "plain-enum", "plain-struct", "alias-float64", "alias-int32"].contains k.name
  let d1 := (leaves.map fun k => wrapKey [k]) ++ (small.map fun k => wrapKey [k] true) ++
            (small.flatMap fun a => small.map fun b => wrapKey [a, b])
  for k in d1 do
    emit o "keys-depth1" [file ((keyEntry site0 k).defs "")]
  -- depth 2
  let d1small := (small.map fun k => wrapKey [k]) ++ [wrapKey [], wrapKey [small.getD 0 default, small.getD 2 default]]
  let d2 := (d1small.map fun k => wrapKey [k]) ++ (d1small.map fun k => wrapKey [k] true) ++
            (d1small.flatMap fun a => (small.take (if tier == .thorough then 12 else 4)).map fun b => wrapKey [a, b])
  for k in d2 do
    emit o "keys-depth2" [file ((keyEntry site0 k).defs "")]
  -- depth 3 and 4: one chain per leaf
  for k in small do
    emit o "keys-depth3" [file ((keyEntry site0 (wrapKey [wrapKey [wrapKey [k]]])).defs "")]
    emit o "keys-depth4" [file ((keyEntry site0 (wrapKey [wrapKey [wrapKey [wrapKey [k]]]])).defs "")]

def attributesFamily (o : Out) : IO Unit := do
  for (pl, a, exp) in pinnedAttrCases do
    let texts := [placeFile pl "" [a]].map fun f => (render 0 0 (fileItems f)).1
    o.line (compileCase "attributes-pinned" "codes" "-" texts (match exp with | none => "-" | some k => code k))
  for pl in Place.all do
    emit o "attributes-none" [placeFile pl "" []]
    for d in builtins do
      for n in [0:4] do
        emit o ("attributes-" ++ d) [placeFile pl "" [a0 d (builtinArgs d n)]]
      -- repeated
      emit o "attributes-repeated" [placeFile pl "" [a0 d (builtinArgs d 1), a0 d (builtinArgs d 1)]]
      emit o "attributes-repeated" [placeFile pl "" [a0 d (builtinArgs d 1), a0 "cs::x" [], a0 d (builtinArgs d 1), a0 d (builtinArgs d 1)]]
    emit o "attributes-repeated" [placeFile pl "" [a0 "cs::x" ["a"], a0 "cs::x" ["a"]]]
    emit o "attributes-mixed" [placeFile pl "" [a0 "deprecated" [], a0 "allow" ["All"]]]
    for a in badArgAttrs do
      emit o "attributes-bad-argument" [placeFile pl "" [a]]
  -- attributes inherited through aliases: repetition is checked on written ++ inherited
  for d in builtins do
    emit o "attributes-alias" [file [.alias [] [] "T" (tr (.prim .bool) false [a0 d (builtinArgs d 1)]), str "S" [fld "x" (tr (.named "T") false [a0 d (builtinArgs d 1)])]]]
    emit o "attributes-alias" [file [.alias [] [] "T" (tr (.prim .bool) false [a0 "cs::a" []]), str "S" [fld "x" (tr (.named "T") false [a0 d (builtinArgs d 1)])]]]
  emit o "attributes-alias" [file [.alias [] [] "T" (tr (.prim .bool) false [a0 "cs::a" []]), .alias [] [] "U" (tr (.named "T") false [a0 "cs::a" []]),
                               str "S" [fld "x" (tr (.named "U") false [a0 "cs::a" []])]]]


/-! ### the three checks `validateFull` adds to `validate`: families that pin WHICH phase reports them -/

def seqT (e : TRef) (opt : Bool := false) : TRef := tr (.seq e) opt
def dictT (k v : TRef) (opt : Bool := false) : TRef := tr (.dict k v) opt
def resT (s f : TRef) (opt : Bool := false) : TRef := tr (.result s f) opt
def ali (name : String) (ty : TRef) : Def := .alias [] [] name ty

/-- type references that are not written as a name: every primitive, every anonymous form, each also optional, with local
    attributes, with names / unknown names inside -/
def nonNameForms : List (String × TRef) :=
  (Prim.all.map fun p => (p.kw, pt p)) ++ (Prim.all.map fun p => (p.kw ++ "-opt", pt p true)) ++
  [("seq", seqT (pt .bool)), ("seq-opt", seqT (pt .bool) true),
   ("dict", dictT (pt .int32) (pt .bool)), ("dict-opt", dictT (pt .int32) (pt .bool) true),
   ("result", resT (pt .bool) (pt .string)), ("result-opt", resT (pt .bool) (pt .string) true),
   ("seq-seq", seqT (seqT (pt .bool))), ("seq-of-optional", seqT (pt .bool true)),
   ("dict-bad-key", dictT (pt .float32) (pt .bool)),
   ("seq-of-name", seqT (nm "J")), ("dict-of-names", dictT (nm "J") (nm "J")), ("result-of-unknown", resT (nm "NoSuchType") (pt .bool)),
   ("seq-of-self", seqT (nm "I")),
   ("attr-bool", tr (.prim .bool) false [a0 "cs::x" []]), ("attr-seq", tr (.seq (pt .bool)) false [a0 "cs::x" ["a"]]),
   ("deprecated-bool", tr (.prim .bool) false [a0 "deprecated" []]), ("unknown-attr-seq", tr (.seq (pt .bool)) false [a0 "foo" []])]

/-- one violation of a known phase, with names that do not clash with each other: (label, definitions) -/
def phaseErrors : List (String × List Def) :=
  [("shape-base-prim", [ifc "Q1" [] [pt .bool]]),
   ("shape-base-seq", [ifc "Q2j" [], ifc "Q2" [] [nm "Q2j", seqT (pt .bool)]]),
   ("shape-base-two", [ifc "Q3" [] [pt .string true, dictT (pt .bool) (pt .bool)]]),
   ("shape-underlying-seq", [enm "Q4" [enr "A"] (some (seqT (pt .bool)))]),
   ("shape-underlying-result-opt", [enm "Q5" [enr "A"] (some (resT (pt .bool) (pt .bool) true))]),
   ("parse-tag", [str "P1" [fld "a" (pt .bool true) (some (lit (-1)))]]),
   ("parse-tuple", [ifc "P2" [op "o" [] (.tuple [par "a" (pt .bool)])]]),
   ("parse-literal", [enm "P3" [enr "A" (some (lit 170141183460469231731687303715884105728))]]),
   ("attr-unknown", [str "P4" [] false [a0 "foo" []]]),
   ("attr-argcount", [str "P5" [] false [a0 "deprecated" ["a", "b"]]]),
   ("resolve-unknown", [str "P6" [fld "x" (nm "NoSuchType")]]),
   ("resolve-mismatch", [ifc "P7i" [], str "P7" [fld "x" (nm "P7i")]]),
   ("resolve-alias-cycle", [ali "P8" (nm "P8")]),
   ("resolve-base-struct", [str "P9s" [], ifc "P9" [] [nm "P9s"]]),
   ("alias-gate-seq", [ali "G1" (seqT (nm "G1"))]),
   ("alias-gate-two", [ali "G2" (dictT (pt .int32) (nm "G3")), ali "G3" (resT (pt .bool) (nm "G2"))]),
   ("inherit-self", [ifc "H1" [] [nm "H1"]]),
   ("inherit-two-ops", [ifc "H2" [op "o"] [nm "H3"], ifc "H3" [op "o"] [nm "H2"]]),
   ("containment", [str "C1" [fld "x" (nm "C1")]]),
   ("containment-two", [str "C2" [fld "x" (seqT (nm "C3"))], enm "C3" [enr "A" none (some [fld "y" (nm "C2" true)])]]),
   ("redefinition", [str "R1" [], str "R1" []]),
   ("redefinition-field", [str "R2" [fld "x" (pt .bool), fld "x" (pt .bool)]]),
   ("visitor-tag", [str "V1" [fld "a" (pt .bool) (some (lit 1))]]),
   ("visitor-enum-empty", [enm "V2" []]),
   ("visitor-key", [str "V3" [fld "d" (dictT (pt .float32) (pt .bool))]]),
   ("visitor-alias-optional", [ali "V4" (pt .bool true)]),
   ("visitor-shadow", [ifc "V5a" [op "o"], ifc "V5" [op "o"] [nm "V5a"]]),
   ("visitor-attr-placement", [str "V6" [] false [a0 "oneway" []]]),
   ("visitor-underlying-string", [enm "V7" [enr "A"] (some (pt .string))]),
   ("none", [str "OK1" [fld "a" (pt .bool)], ifc "OK2j" [], ifc "OK2" [] [nm "OK2j" true]])]

def noModule (defs : List Def) : SFile := { fileAttrs := [], module := none, defs := defs }

/-- aliases that contain themselves through anonymous types, and acyclic look-alikes: (label, definitions, exact multiplicities?) -/
def aliasLoopEntries : List (String × List Def) :=
  [("seq", [ali "A" (seqT (nm "A"))]),
   ("seq-of-optional", [ali "A" (seqT (nm "A" true))]),
   ("optional-seq", [ali "A" (seqT (nm "A") true)]),
   ("dict-key", [ali "A" (dictT (nm "A") (pt .bool))]),
   ("dict-value", [ali "A" (dictT (pt .string) (nm "A"))]),
   ("dict-both", [ali "A" (dictT (nm "A") (nm "A"))]),
   ("result-success", [ali "A" (resT (nm "A") (pt .bool))]),
   ("result-failure", [ali "A" (resT (pt .bool) (nm "A"))]),
   ("nested", [ali "A" (seqT (seqT (nm "A")))]),
   ("nested-mixed", [ali "A" (dictT (pt .int32) (resT (seqT (nm "A")) (pt .bool)))]),
   ("global-name", [ali "A" (seqT (nm "::M::A"))]),
   ("qualified-name", [ali "A" (seqT (nm "M::A"))]),
   ("two", [ali "A" (seqT (nm "B")), ali "B" (seqT (nm "A"))]),
   ("two-direct-link", [ali "A" (seqT (nm "B")), ali "B" (nm "A")]),
   ("two-direct-link-first", [ali "A" (nm "B"), ali "B" (seqT (nm "A"))]),
   ("three", [ali "A" (seqT (nm "B")), ali "B" (dictT (pt .int32) (nm "C")), ali "C" (resT (nm "A") (nm "A"))]),
   ("user-of-loop", [ali "A" (seqT (nm "A")), ali "C" (seqT (nm "A"))]),
   ("link-to-loop", [ali "A" (seqT (nm "A")), ali "C" (nm "A"), ali "D" (nm "C")]),
   ("loop-and-clean", [ali "A" (seqT (nm "A")), ali "N" (seqT (pt .string)), ali "P" (resT (nm "N") (nm "N"))]),
   ("used-by-struct", [ali "A" (seqT (nm "A")), str "S" [fld "a" (nm "A")]]),
   ("used-by-operation", [ali "A" (resT (nm "A") (pt .bool)), ifc "I" [op "o" [par "a" (nm "A")] (.single none false (nm "A"))]]),
   ("used-as-key", [ali "A" (seqT (nm "A")), str "S" [fld "d" (dictT (nm "A") (pt .bool))]]),
   ("declared-after-use", [str "S" [fld "a" (nm "A")], ali "A" (seqT (nm "A"))]),
   -- acyclic look-alikes: accepted
   ("ok-diamond", [ali "N" (seqT (pt .string)), ali "P" (resT (nm "N") (nm "N")), ali "Q" (dictT (pt .int32) (nm "P"))]),
   ("ok-chain", [ali "A" (seqT (nm "B")), ali "B" (seqT (nm "C")), ali "C" (pt .bool)]),
   ("ok-through-struct", [ali "A" (seqT (nm "S")), str "S" [fld "a" (pt .bool)]]),
   ("ok-same-shape-twice", [ali "A" (seqT (pt .bool)), ali "B" (seqT (pt .bool)), str "S" [fld "a" (nm "A"), fld "b" (nm "B")]]),
   -- a containment cycle THROUGH an alias is not an alias loop: E032 from the containment detector
   ("struct-through-alias", [ali "A" (seqT (nm "S")), str "S" [fld "a" (nm "A")]])]

/-- inheritance graphs: (label, definitions) -/
def inheritEntries : List (String × List Def) :=
  [("self", [ifc "I" [] [nm "I"]]),
   ("self-with-op", [ifc "I" [op "o"] [nm "I"]]),
   ("self-global-name", [ifc "I" [] [nm "::M::I"]]),
   ("self-optional", [ifc "I" [] [nm "I" true]]),
   ("self-twice", [ifc "I" [] [nm "I", nm "I"]]),
   ("two", [ifc "A" [] [nm "B"], ifc "B" [] [nm "A"]]),
   ("two-with-ops", [ifc "A" [op "a"] [nm "B"], ifc "B" [op "b"] [nm "A"]]),
   ("two-same-op", [ifc "A" [op "o"] [nm "B"], ifc "B" [op "o"] [nm "A"]]),
   ("three", [ifc "A" [] [nm "B"], ifc "B" [] [nm "C"], ifc "C" [] [nm "A"]]),
   ("three-reversed-order", [ifc "C" [] [nm "A"], ifc "B" [] [nm "C"], ifc "A" [] [nm "B"]]),
   ("through-alias", [ali "T" (nm "I"), ifc "I" [] [nm "T"]]),
   ("through-alias-chain", [ali "T" (nm "U"), ali "U" (nm "I"), ifc "I" [] [nm "T"]]),
   ("two-through-aliases", [ali "TA" (nm "A"), ali "TB" (nm "B"), ifc "A" [] [nm "TB"], ifc "B" [] [nm "TA"]]),
   ("tail", [ifc "I" [] [nm "I"], ifc "K" [] [nm "I"], ifc "L" [op "o"] [nm "K"]]),
   ("second-base", [ifc "J" [], ifc "I" [] [nm "J", nm "I"]]),
   ("diamond-with-loop", [ifc "A" [] [nm "D"], ifc "B" [] [nm "A"], ifc "C" [] [nm "A"], ifc "D" [] [nm "B", nm "C"]]),
   ("two-loops", [ifc "A" [] [nm "A"], ifc "B" [] [nm "C"], ifc "C" [] [nm "B"]]),
   -- acyclic: accepted
   ("ok-diamond", [ifc "A" [op "o"], ifc "B" [] [nm "A"], ifc "C" [] [nm "A"], ifc "D" [op "p"] [nm "B", nm "C"]]),
   ("ok-chain", [ifc "A" [], ifc "B" [] [nm "A"], ifc "C" [] [nm "B"]]),
   ("ok-base-declared-later", [ifc "B" [] [nm "A"], ifc "A" []]),
   ("ok-same-base-twice", [ifc "A" [], ifc "B" [] [nm "A", nm "A"]]),
   ("ok-through-alias", [ifc "A" [], ali "T" (nm "A"), ifc "B" [] [nm "T"]]),
   ("ok-optional-base", [ifc "A" [], ifc "B" [] [nm "A" true]])]

def pipelineFamily (o : Out) (tier : Tier) : IO Unit := do
  -- 1. bases and underlying types that are not names, in every written form
  for (n, r) in nonNameForms do
    emit o ("pipeline/shape-base/" ++ n) [file [ifc "J" [], ifc "I" [] [r]]] 0 0 true
    emit o ("pipeline/shape-base/" ++ n) [file [ifc "J" [], ifc "I" [op "o"] [nm "J", r]]] 0 0 true
    emit o ("pipeline/shape-base/" ++ n) [file [ifc "J" [], ifc "I" [] [r, nm "J"]]] 0 0 true
    emit o ("pipeline/shape-base/" ++ n) [file [ifc "J" [], ifc "I" [] [r, nm "NoSuchType"]]] 0 0 true
    emit o ("pipeline/shape-base/" ++ n) [file [ifc "J" [], ifc "I" [] [r, r]]] 0 0 true
    emit o ("pipeline/shape-base-no-module/" ++ n) [noModule [ifc "J" [], ifc "I" [] [r]]] 0 0 true
    -- underlying types: anonymous forms are the parser's (E017), primitives and `?` are the visitor's (E009 / E007)
    emit o ("pipeline/shape-underlying/" ++ n) [file [ifc "J" [], enm "E" [enr "A"] (some r)]] 0 0 true
    emit o ("pipeline/shape-underlying/" ++ n) [file [ifc "J" [], enm "E" [enr "A" none (some [fld "x" (pt .bool)])] (some r) false true]]
    emit o ("pipeline/shape-underlying-no-module/" ++ n) [noModule [enm "E" [enr "A"] (some r)]] 0 0 true
  -- names in the same positions: the parser lets them through; resolution, the inheritance check and the visitor decide
  for (n, r) in [("interface", nm "J"), ("interface-opt", nm "J" true), ("unknown", nm "NoSuchType"), ("struct", nm "S"),
                 ("alias-of-interface", nm "TJ"), ("alias-of-sequence", nm "TS"), ("alias-of-uint8", nm "TU"), ("alias-of-uint8-opt", nm "TU" true),
                 ("self", nm "I"), ("enum", nm "E")] do
    -- (an alias of an interface is itself a type mismatch: it is declared only where it is used)
    let helpers := [ifc "J" [], str "S" [], ali "TS" (seqT (pt .bool)), ali "TU" (pt .uint8)] ++
      (if n == "alias-of-interface" then [ali "TJ" (nm "J")] else [])
    emit o ("pipeline/name-base/" ++ n) [file (helpers ++ [ifc "I" [] [r]])] 0 0 true
    emit o ("pipeline/name-underlying/" ++ n) [file (helpers ++ [enm "E" [enr "A"] (some r)])] 0 0 true
  -- 2. alias loops, alone (with the number of reports), split over two files / modules, without module
  for (n, ds) in aliasLoopEntries do
    emit o ("pipeline/alias-loop/" ++ n) [file ds] 0 0 true
    emit o ("pipeline/alias-loop/" ++ n) [file ds.reverse] 0 0 true
    emit o ("pipeline/alias-loop-no-module/" ++ n) [noModule ds] 0 0 true
    if ds.length ≥ 2 then
      emit o ("pipeline/alias-loop-two-files/" ++ n) [file (ds.take 1), file (ds.drop 1)] 0 0 true
      emit o ("pipeline/alias-loop-two-files/" ++ n) [file (ds.drop 1), file (ds.take 1)] 0 0 true
  emit o "pipeline/alias-loop-two-modules" [file [ali "A" (seqT (nm "N::B"))] "M", file [ali "B" (seqT (nm "M::A"))] "N"] 0 0 true
  emit o "pipeline/alias-loop-two-modules" [file [ali "B" (seqT (nm "::M::A"))] "N", file [ali "A" (dictT (pt .int32) (nm "::N::B"))] "M"] 0 0 true
  emit o "pipeline/alias-loop-two-modules" [file [ali "A" (seqT (nm "B::A"))] "M", file [ali "A" (seqT (nm "M::A"))] "M::B"] 0 0 true
  emit o "pipeline/alias-loop-two-modules" [file [ali "A" (seqT (nm "A"))] "M", file [ali "A" (seqT (pt .bool)), str "S" [fld "a" (nm "A")]] "N"] 0 0 true
  -- 3. inheritance loops, alone (with the number of reports), split over two files / modules
  for (n, ds) in inheritEntries do
    emit o ("pipeline/inherit/" ++ n) [file ds] 0 0 true
    emit o ("pipeline/inherit/" ++ n) [file ds.reverse] 0 0 true
    emit o ("pipeline/inherit-no-module/" ++ n) [noModule ds] 0 0 true
    if ds.length ≥ 2 then
      emit o ("pipeline/inherit-two-files/" ++ n) [file (ds.take 1), file (ds.drop 1)] 0 0 true
      emit o ("pipeline/inherit-two-files/" ++ n) [file (ds.drop 1), file (ds.take 1)] 0 0 true
    -- together with a containment cycle: the same phase, both are reported
    emit o ("pipeline/inherit-and-containment/" ++ n) [file (ds ++ [str "S" [fld "s" (nm "S" true)]])] 0 0 true
    emit o ("pipeline/inherit-and-containment/" ++ n) [file [str "S" [fld "s" (seqT (nm "S"))]], file ds] 0 0 true
  emit o "pipeline/inherit-two-modules" [file [ifc "A" [] [nm "N::B"]] "M", file [ifc "B" [] [nm "M::A"]] "N"] 0 0 true
  emit o "pipeline/inherit-two-modules" [file [ifc "I" [] [nm "B::I"]] "M", file [ifc "I" [] [nm "M::I"]] "M::B"] 0 0 true
  emit o "pipeline/inherit-two-modules" [file [ifc "I" [] [nm "I"]] "M::B", file [ifc "I" []] "M"] 0 0 true
  emit o "pipeline/inherit-two-modules" [file [ifc "I" []] "M", file [ifc "I" [] [nm "::M::I"]] "M::B"] 0 0 true
  -- 4. phase order: every ordered pair of violations, in one file and in two files; one of the two files without module
  for (n1, d1) in phaseErrors do
    for (n2, d2) in phaseErrors do
      let fam := n1 ++ "+" ++ n2
      emit o ("pipeline/pair-one-file/" ++ fam) [file (d1 ++ d2)]
      emit o ("pipeline/pair-two-files/" ++ fam) [file d1, file d2 "N"]
      emit o ("pipeline/pair-first-without-module/" ++ fam) [noModule d1, file d2 "N"]
  -- 5. triples across the phases the three checks sit between (thorough: all; quick: a diagonal)
  let core := phaseErrors.filter fun e => ["shape-base-prim", "shape-underlying-seq", "parse-tag", "attr-unknown", "resolve-unknown",
    "alias-gate-seq", "inherit-self", "containment", "redefinition", "visitor-tag", "none"].contains e.1
  let mut k := 0
  for (n1, d1) in core do
    for (n2, d2) in core do
      for (n3, d3) in core do
        k := k + 1
        if tier == .thorough || k % 7 == 0 then
          emit o ("pipeline/triple/" ++ n1 ++ "+" ++ n2 ++ "+" ++ n3) [file d1 "M", file d2 "N", file d3 "M::K"]

/-- the three checks of `validateFull` as catalogue entries (injected into the generated programs like every other rule) -/
def pipelineEntries : List Entry :=
  [⟨"base-primitive", fun s => [ifc ("I" ++ s) [] [pt .bool]]⟩,
   ⟨"base-sequence-second", fun s => [ifc ("J" ++ s) [], ifc ("I" ++ s) [op "o"] [nm ("J" ++ s), seqT (pt .bool)]]⟩,
   ⟨"base-optional-result", fun s => [ifc ("I" ++ s) [] [resT (pt .bool) (pt .bool) true]]⟩,
   ⟨"base-optional-name-ok", fun s => [ifc ("J" ++ s) [], ifc ("I" ++ s) [] [nm ("J" ++ s) true]]⟩,
   ⟨"underlying-dictionary", fun s => [enm ("E" ++ s) [enr "A"] (some (dictT (pt .bool) (pt .bool)))]⟩,
   ⟨"underlying-optional-sequence", fun s => [enm ("E" ++ s) [enr "A"] (some (seqT (pt .uint8) true))]⟩,
   ⟨"alias-loop-sequence", fun s => [ali ("T" ++ s) (seqT (nm ("T" ++ s)))]⟩,
   ⟨"alias-loop-dictionary-key", fun s => [ali ("T" ++ s) (dictT (nm ("T" ++ s)) (pt .bool))]⟩,
   ⟨"alias-loop-two", fun s => [ali ("T" ++ s) (resT (pt .bool) (nm ("U" ++ s))), ali ("U" ++ s) (dictT (pt .int32) (nm ("T" ++ s)))]⟩,
   ⟨"alias-loop-used", fun s => [ali ("T" ++ s) (seqT (nm ("T" ++ s) true)), str ("S" ++ s) [fld "a" (nm ("T" ++ s))]]⟩,
   ⟨"alias-diamond-ok", fun s => [ali ("N" ++ s) (seqT (pt .string)), ali ("T" ++ s) (resT (nm ("N" ++ s)) (nm ("N" ++ s)))]⟩,
   ⟨"inherit-self", fun s => [ifc ("I" ++ s) [] [nm ("I" ++ s)]]⟩,
   ⟨"inherit-two", fun s => [ifc ("A" ++ s) [op "a"] [nm ("B" ++ s)], ifc ("B" ++ s) [op "b"] [nm ("A" ++ s)]]⟩,
   ⟨"inherit-three", fun s => [ifc ("A" ++ s) [] [nm ("B" ++ s)], ifc ("B" ++ s) [] [nm ("C" ++ s)], ifc ("C" ++ s) [] [nm ("A" ++ s)]]⟩,
   ⟨"inherit-tail", fun s => [ifc ("K" ++ s) [] [nm ("I" ++ s)], ifc ("I" ++ s) [] [nm ("I" ++ s)]]⟩,
   ⟨"inherit-diamond-ok", fun s => [ifc ("A" ++ s) [], ifc ("B" ++ s) [] [nm ("A" ++ s)], ifc ("C" ++ s) [] [nm ("A" ++ s)],
                                     ifc ("D" ++ s) [] [nm ("B" ++ s), nm ("C" ++ s)]]⟩]

def catalogue : List Entry :=
  tagEntries ++ enumEntries ++ keyEntries ++ streamEntries ++ shadowEntries ++ nameEntries ++ miscEntries ++ pipelineEntries ++
  (Place.all.flatMap fun pl => builtins.flatMap fun d => [0, 1, 2].map fun n =>
    (⟨"attr-" ++ d ++ "-" ++ toString n ++ "-on-" ++ pl.name,
      fun s => match pl with
        | .file | .module => (placeFile .struct s [a0 d (builtinArgs d n)]).defs
        | _ => (placeFile pl s [a0 d (builtinArgs d n)]).defs⟩ : Entry))

/-- other ways to break a whole file -/
def fileMutations : List (String × (SFile → SFile)) :=
  [("no-module", fun f => { f with module := none }),
   ("file-attr-deprecated", fun f => { f with fileAttrs := f.fileAttrs ++ [a0 "deprecated" []] }),
   ("file-attr-allow", fun f => { f with fileAttrs := f.fileAttrs ++ [a0 "allow" ["All"]] }),
   ("file-attr-unknown", fun f => { f with fileAttrs := f.fileAttrs ++ [a0 "nope" []] }),
   ("module-attr-allow", fun f => { f with module := f.module.map fun m => { m with attrs := m.attrs ++ [a0 "allow" ["All"]] } }),
   ("module-attr-deprecated", fun f => { f with module := f.module.map fun m => { m with attrs := m.attrs ++ [a0 "deprecated" ["x"]] } })]

def appendDefs (P : Program) (fileIdx : Nat) (ds : List Def) : Program :=
  P.zipIdx.map fun (f, i) => if i == fileIdx % P.length then { f with defs := f.defs ++ ds } else f

def genC04 (tier : Tier) (seed : Nat) (o : Out) : IO Unit := do
  -- 1. the catalogue, each entry alone (exact single-violation programs)
  for e in catalogue do
    emit o ("catalogue/" ++ e.name) [file (e.defs "")]
  emit o "catalogue/no-module" [{ fileAttrs := [], module := none, defs := [str "S" []] }]
  emit o "catalogue/no-module-empty-file" [{ fileAttrs := [], module := none, defs := [] }]
  emit o "catalogue/no-module-file-attribute-only" [{ fileAttrs := [a0 "allow" ["All"]], module := none, defs := [] }]
  emit o "catalogue/no-module-second-file" [file [str "S" []], { fileAttrs := [], module := none, defs := [str "T" []] }]
  emit o "catalogue/no-module-and-parse-error" [{ fileAttrs := [], module := none, defs := [str "S" [fld "a" (pt .bool true) (some (lit (-1)))]] }]
  -- same simple names in different modules, reached through one inheritance graph (the bases are de-duplicated by scoped name)
  let audit := file [ifc "Base" [op "log"]] "Audit"
  let billing := file [ifc "Base" [op "charge"]] "Billing"
  for (nme, app) in [("shadow-second-same-named-base", [ifc "Service" [op "charge"] [nm "Audit::Base", nm "Billing::Base"]]),
                      ("shadow-first-same-named-base", [ifc "Service" [op "log"] [nm "Audit::Base", nm "Billing::Base"]]),
                      ("shadow-same-named-base-through-middle", [ifc "Middle" [] [nm "Billing::Base"], ifc "Service" [op "charge"] [nm "Audit::Base", nm "Middle"]]),
                      ("shadow-same-named-base-own-module", [ifc "Base" [op "own"] [nm "Audit::Base"], ifc "Service" [op "log"] [nm "Base", nm "Billing::Base"]]),
                      ("no-shadow-same-named-bases", [ifc "Service" [op "other"] [nm "Audit::Base", nm "Billing::Base"]]),
                      ("same-op-in-same-named-bases", [ifc "Service" [] [nm "Audit::Base", nm "::Billing::Base"]])] do
    for P in [[audit, billing, file app "App"], [file app "App", billing, audit]] do
      emit o ("catalogue/" ++ nme) P
  emit o "catalogue/same-named-structs-as-key-and-field" [file [str "K" [fld "a" (pt .bool)] true] "P", file [str "K" [fld "a" (pt .float32)] true] "Q",
    file [str "U" [fld "d" (tr (.dict (nm "P::K") (nm "Q::K")))], str "V" [fld "d" (tr (.dict (nm "Q::K") (nm "P::K")))]] "R"]
  -- a definition that shares its fully-scoped name with a (nested) module, in both file orders
  for P in [[file [str "B" []] "A", file [str "C" []] "A::B"], [file [str "C" []] "A::B", file [str "B" []] "A"],
            [file [str "B" []] "A", file [str "D" []] "A::B::C"], [file [str "D" []] "A::B::C", file [str "B" []] "A"],
            [file [str "X" []] "A", file [str "C" []] "A::B", file [enm "B" [enr "E"]] "A"]] do
    emit o "catalogue/module-definition-name-clash" P
  emit o "catalogue/dup-struct-two-files" [file [str "S" []], file [str "S" []]]
  emit o "catalogue/same-name-two-modules" [file [str "S" []], file [str "S" []] "N"]
  emit o "catalogue/dup-struct-nested-module" [file [str "S" []] "A::B", file [enm "S" [enr "X"]] "A::B"]
  emit o "catalogue/parse-error-in-one-file-only" [file [str "S" [fld "a" (pt .bool true) (some (lit (-1)))]], file [str "T" [fld "x" (nm "NoSuchType")]]]
  emit o "catalogue/attribute-error-hides-resolution" [file [str "S" [fld "x" (nm "NoSuchType") none [a0 "foo" []]]]]
  emit o "catalogue/resolution-hides-redefinition" [file [str "S" [fld "x" (nm "NoSuchType")], str "S" []]]
  emit o "catalogue/cycle-hides-redefinition" [file [str "A" [fld "b" (nm "B")], str "B" [fld "a" (nm "A")], str "A" []]]
  emit o "catalogue/redefinition-hides-visitor" [file [str "S" [fld "a" (pt .bool) (some (lit 1))], str "S" []]]
  -- 2. bounded-exhaustive small-scope families
  pipelineFamily o tier
  membersFamily o
  streamsFamily o
  keysFamily o tier
  attributesFamily o
  -- 3. generated well-formed programs, alone and with 1..2 injected violations
  let nProg := if tier == .thorough then 24000 else 900
  let cat := catalogue.toArray
  let mut r := Rng.mk' (seed + 4)
  for i in [0:nProg] do
    let cfg : GenCfg := { maxFiles := 1 + i % 3, maxDefs := 1 + i % 5, typeDepth := i % 4 }
    let (p, r') := genProgram cfg r
    r := r'
    let style := if i % 4 == 3 then 1 else 0
    emit o "generated/well-formed" p style (seed * 1000 + i)
    let (k1, r1) := r.below cat.size
    let (k2, r2) := r1.below cat.size
    let (fi, r3) := r2.below 3
    let (mi, r4) := r3.below (4 * fileMutations.length)
    r := r4
    let e1 := cat[k1]!
    let e2 := cat[k2]!
    emit o "generated/one-violation" (appendDefs p fi (e1.defs "Zq1")) style (seed * 1000 + i)
    emit o "generated/two-violations" (appendDefs (appendDefs p fi (e1.defs "Zq1")) (fi + 1) (e2.defs "Zq2")) style (seed * 1000 + i)
    if mi < fileMutations.length then
      let (mname, m) := fileMutations.getD mi default
      let _ := mname
      emit o "generated/file-mutation" (p.zipIdx.map fun (f, j) => if j == fi % p.length then m f else f) style (seed * 1000 + i)

end Slicec.Drv.C04

namespace Slicec.Drv
def genC04 := C04.genC04
end Slicec.Drv
