/- Driver plumbing shared by all properties: buffered line output, tiers, field helpers. -/
import SlicecVerif.Model.Basic

namespace Slicec.Drv

inductive Tier where
  | quick | thorough
  deriving DecidableEq, Repr

def Tier.ofString : String → Tier
  | "thorough" => .thorough
  | _ => .quick

/-- a buffered stdout writer; lines are accumulated and flushed in large chunks -/
structure Out where
  buf : IO.Ref String
  count : IO.Ref Nat

def Out.new : IO Out := do
  return { buf := ← IO.mkRef "", count := ← IO.mkRef 0 }

def Out.flush (o : Out) : IO Unit := do
  let s ← o.buf.get
  if !s.isEmpty then
    (← IO.getStdout).putStr s
    o.buf.set ""
  (← IO.getStdout).flush

def Out.line (o : Out) (s : String) : IO Unit := do
  o.buf.modify fun b => (b ++ s).push '\n'
  o.count.modify (· + 1)
  if (← o.buf.get).utf8ByteSize > 60000 then o.flush

def tab (fields : List String) : String := "\t".intercalate fields

def splitTab (s : String) : List String := s.splitOn "\t"

end Slicec.Drv
