/- Cases for C15: the same files in several orders. -/
import SlicecVerif.Drv.Prog
import SlicecVerif.Model.Pipeline

namespace Slicec.Drv

open Slicec

namespace P15

def permsOf {α} : List α → List (List α)
  | [] => [[]]
  | x :: xs => (permsOf xs).flatMap fun p => (List.range (p.length + 1)).map fun i => p.take i ++ [x] ++ p.drop i

def showOrders (os : List (List Nat)) : String := ";".intercalate (os.map fun o => ",".intercalate (o.map toString))

def permCase (fam opts : String) (texts : List String) (orders : List (List Nat)) (expected : String) : String :=
  tab ["perm", fam, opts, "|".intercalate (texts.map hexOfString), showOrders orders, expected]

def txt (f : SFile) : String := printFile f

def sFile (m : String) (defs : List Def) : SFile := { fileAttrs := [], module := some ⟨[], m⟩, defs := defs }
def tr (n : String) : TRef := .mk [] (.named n) false
def fld (n : String) (t : TRef) : Field := { doc := [], attrs := [], tag := none, name := n, ty := t }

/-- multi-file programs with one injected error that involves two files -/
def crossFileErrors : List (String × List SFile) :=
  [ ("dup-def", [sFile "M" [.struct [] [] false "S" []], sFile "M" [.struct [] [] false "S" []]]),
    ("dup-kind", [sFile "M" [.struct [] [] false "S" []], sFile "M" [.custom [] [] "S"]]),
    ("missing", [sFile "M" [.struct [] [] false "S" [fld "a" (tr "Nope")]], sFile "N" [.custom [] [] "C"]]),
    ("cycle", [sFile "M" [.struct [] [] false "S" [fld "a" (tr "T")]], sFile "M" [.struct [] [] false "T" [fld "b" (tr "S")]]]),
    ("wrong-kind", [sFile "M" [.iface [] [] "I" [] []], sFile "M" [.struct [] [] false "S" [fld "a" (tr "I")]]]),
    ("alias-loop", [sFile "M" [.alias [] [] "A" (tr "B")], sFile "M" [.alias [] [] "B" (tr "A")], sFile "M" [.struct [] [] false "S" [fld "a" (tr "A")]]]),
    ("shadow", [sFile "A" [.struct [] [] false "X" []], sFile "A::B" [.struct [] [] false "X" [], .struct [] [] false "U" [fld "x" (tr "X")]],
                sFile "A::B::C" [.struct [] [] false "V" [fld "x" (tr "X"), fld "y" (tr "::A::X")]]]) ]

/-- multi-file programs for the three checks of the complete pipeline (`validateFull`, Model/Pipeline.lean): inheritance loops and
    alias loops through anonymous types that run through several files and modules, bases / underlying types that are not
    names, and acyclic look-alikes; the verdict is the model's -/
def crossFileFull : List (String × List SFile) :=
  let ib := fun (n : String) (bs : List String) => Def.iface [] [] n (bs.map tr) []
  let sq := fun (n : String) => TRef.mk [] (.seq (tr n)) false
  let dc := fun (n : String) => TRef.mk [] (.dict (.mk [] (.prim .int32) false) (tr n)) false
  let rs := fun (a b : String) => TRef.mk [] (.result (tr a) (tr b)) false
  [ ("inherit-loop-2", [sFile "M" [ib "A" ["B"]], sFile "M" [ib "B" ["A"]]]),
    ("inherit-loop-3-modules", [sFile "M" [ib "A" ["N::B"]], sFile "N" [ib "B" ["::M::K::C"]], sFile "M::K" [ib "C" ["A"]]]),
    ("inherit-loop-and-user", [sFile "M" [ib "I" ["I"]], sFile "M" [ib "K" ["I"]], sFile "N" [ib "L" ["M::K"]]]),
    ("inherit-loop-2-and-user", [sFile "M" [.iface [] [] "Derived" [tr "Base"] [{ doc := [], attrs := [], idempotent := false, name := "opDerived", params := [], ret := .none }]],
                                 sFile "M" [ib "Base" ["Middle"], ib "Middle" ["Base"]]]),
    ("inherit-loop-3-and-users", [sFile "M" [ib "U1" ["A"], ib "U2" ["U1", "C"]], sFile "M" [ib "A" ["B"]], sFile "N" [ib "X" ["M::U2"]],
                                  sFile "M" [ib "B" ["C"], ib "C" ["A"]]]),
    ("inherit-loop-and-cycle", [sFile "M" [ib "A" ["B"]], sFile "M" [ib "B" ["A"]], sFile "M" [.struct [] [] false "S" [fld "s" (sq "S")]]]),
    ("inherit-diamond", [sFile "M" [ib "A" []], sFile "M" [ib "B" ["A"]], sFile "N" [ib "C" ["M::A"]], sFile "M" [ib "D" ["B", "N::C"]]]),
    ("alias-anon-loop-2", [sFile "M" [.alias [] [] "A" (sq "B")], sFile "M" [.alias [] [] "B" (dc "A")], sFile "M" [.struct [] [] false "S" [fld "a" (tr "A")]]]),
    ("alias-anon-loop-modules", [sFile "M" [.alias [] [] "A" (sq "N::B")], sFile "N" [.alias [] [] "B" (rs "M::A" "M::A")]]),
    ("alias-anon-loop-link", [sFile "M" [.alias [] [] "A" (sq "B")], sFile "M" [.alias [] [] "B" (tr "C")], sFile "M" [.alias [] [] "C" (tr "A")]]),
    ("alias-anon-loop-and-missing", [sFile "M" [.alias [] [] "A" (sq "A")], sFile "M" [.struct [] [] false "S" [fld "a" (tr "Nope")]]]),
    ("alias-anon-diamond", [sFile "M" [.alias [] [] "N" (.mk [] (.seq (.mk [] (.prim .string) false)) false)], sFile "M" [.alias [] [] "P" (rs "N" "N")],
                            sFile "N" [.alias [] [] "Q" (dc "M::P"), .struct [] [] false "S" [fld "q" (tr "Q"), fld "p" (tr "M::P")]]]),
    ("base-not-a-name", [sFile "M" [ib "J" []], sFile "M" [.iface [] [] "I" [tr "J", .mk [] (.prim .bool) false] []]]),
    ("base-not-a-name-no-module", [sFile "M" [ib "J" []], { fileAttrs := [], module := none, defs := [.iface [] [] "I" [.mk [] (.seq (tr "J")) false] []] }]),
    ("underlying-anonymous", [sFile "M" [.enum [] [] false false "E" (some (.mk [] (.seq (.mk [] (.prim .bool) false)) false))
                                [{ doc := [], attrs := [], name := "A", fields := none, value := none }]],
                              sFile "M" [.struct [] [] false "S" [fld "e" (tr "E")]]]) ]

end P15

open P15 in
def genC15 (tier : Tier) (seed : Nat) (o : Out) : IO Unit := do
  -- hand-made cross-file programs in all orders
  for (name, fs) in crossFileErrors do
    let idx := List.range fs.length
    o.line (permCase ("cross-" ++ name) "-" (fs.map txt) (permsOf idx) (if name == "shadow" then "accepted" else "rejected"))
  for (name, fs) in crossFileFull do
    o.line (permCase ("full-" ++ name) "-" (fs.map txt) (permsOf (List.range fs.length))
      (if (validateFull fs).isEmpty then "accepted" else "rejected"))
  -- the key clash between a nested module and a definition (D-15a, repaired in /repo: reported as a redefinition in every order)
  o.line (permCase "d15a-key-clash" "-"
    [txt (sFile "A::B" [.struct [] [] false "X" []]), txt (sFile "A" [.struct [] [] false "B" [], .struct [] [] false "U" [fld "b" (tr "B")]])]
    [[0, 1], [1, 0]] "rejected")
  -- the same clash where the definition is never used as a type (only the redefinition scan can see it)
  o.line (permCase "key-clash-unused" "-"
    ["module Geo\nenum Shapes : uint8 { Circle, Square }\n", "module Geo::Shapes\nstruct Circle { radius: float64 }\n"]
    [[0, 1], [1, 0]] "rejected")
  o.line (permCase "key-clash-unused" "-"
    ["module A\ncustom B\n", "module A::B::C\nstruct X {}\n", "module A::B\nstruct Y {}\n"] (permsOf [0, 1, 2]) "rejected")
  -- a member sharing its key with a nested module of another file (D-15b, repaired: the container clashes with the enclosing module)
  -- lints whose scope is a module that several files re-open; modules that share their last segment; same names in different modules
  for (name, verdict, files) in
      [("shared-scope-lints", "accepted", ["module Shop\n[deprecated(\"use NewId instead\")] custom OldId\ncustom NewId\n", "module Shop\ntypealias CustomerId = OldId\n",
          "[[allow(Deprecated)]]\nmodule Shop\ntypealias SupplierId = OldId\n"]),
       ("shared-scope-lints", "accepted", ["module Shop\n[deprecated] interface OldI {}\n", "module Shop\ninterface A : OldI {}\ntypealias TA = Sequence<OldS>\n",
          "module Shop\ninterface B : OldI {}\n[deprecated] struct OldS {}\ntypealias TB = OldS\n", "module Shop\ntypealias TC = OldS\ninterface C : OldI, A {}\n"]),
       ("shared-scope-lints", "accepted", ["module Shop\n/// {@link Nope}\ncustom X\n", "module Shop\n/// {@link Nope}\ncustom Y\n/// {@link Nope}\ncustom Z\n", "[[allow(BrokenDocLink)]]\nmodule Shop\n/// {@link Nope}\ncustom W\n"]),
       ("same-last-segment", "accepted", ["module App::Util\nstruct Id { value: int64 }\nstruct User { id: Id }\n", "module Lib::Util\nenum Id : uint8 { None, Some }\nstruct Item { id: Id }\n"]),
       ("same-last-segment", "rejected", ["module App::Util\nstruct Id { value: int64 }\nstruct User { id: Id }\n", "module Lib::Util\nstruct Item { id: Id }\n"]),
       ("same-last-segment", "accepted", ["module Util\ncustom Id\ntypealias T = Id\n", "module App::Util\nstruct Id {}\ntypealias T = Id\n", "module App::Util::Util\nenum Id : uint8 { A }\ntypealias T = Id\nstruct U { a: Util::Id, b: ::Util::Id, c: App::Util::Id }\n"]),
       ("same-last-segment", "accepted", ["module A::X\ninterface I { op() }\ninterface J : I {}\n", "module B::X\ninterface I { op2() }\ninterface J : I { op() }\n", "module X\ninterface I {}\ninterface K : I, A::X::J, B::X::I {}\n"]),
       ("same-names-two-modules", "accepted", ["module P\nstruct S { a: T }\ntypealias T = Sequence<E>\nenum E : uint8 { A }\n", "module Q\nstruct S { a: T }\ntypealias T = Dictionary<E, P::S>\nenum E : int32 { B }\n",
          "module R\nstruct U { p: P::S, q: Q::S, t: P::T, u: Q::T }\n"])] do
    o.line (permCase name "-" files (permsOf (List.range files.length)) verdict)
  o.line (permCase "d15b-member-module-clash" "-"
    ["module A\n/// See {@link S::T}\nstruct S { T: int32 }\n", "module A::S::T\nstruct X {}\n"] [[0, 1], [1, 0]] "rejected")
  -- conditional compilation must not leak between files: a symbol defined (or undefined) in one file, tested in another
  for (opts, verdict, files) in
      [("-", "accepted", ["#define WITH\nmodule D\nstruct C {}\n", "module D\n#if WITH\nstruct A {}\n#endif\nstruct R {}\n"]),
       ("-", "rejected", ["#define WITH\nmodule D\nstruct C {}\n", "module D\n#if WITH\nstruct A {}\n#endif\nstruct R { a: A }\n"]),
       ("D=Foo", "accepted", ["#undef Foo\nmodule M0\n#if Foo\nstruct A {}\n#endif\n", "module M1\n#if Foo\nstruct B {}\n#else\nstruct C {}\n#endif\nstruct U { b: B }\n"]),
       ("D=Foo", "rejected", ["#undef Foo\nmodule M0\n", "module M1\n#if Foo\nstruct B {}\n#endif\nstruct U { c: C }\n", "module M1\n#if !Foo\nstruct C {}\n#endif\n"]),
       ("D=X;D=Y", "accepted", ["module M\n#if X && Y\n#undef X\nstruct A {}\n#endif\n", "module M\n#if X\nstruct B { a: A }\n#endif\n", "#define Z\nmodule M\n#if Z\nstruct C { b: B }\n#endif\n"])] do
    o.line (permCase "preproc-isolation" opts files (permsOf (List.range files.length)) verdict)
  -- generated valid programs, all permutations of up to 4 files
  let nProg := if tier == .thorough then 3000 else 300
  let mut r := Rng.mk' (seed + 15)
  for i in [0:nProg] do
    let cfg : GenCfg := { maxFiles := 2 + i % 3, maxDefs := 1 + i % 4, typeDepth := i % 3 }
    let (p, r') := genProgram cfg r
    r := r'
    if p.length > 1 then
      let idx := List.range p.length
      o.line (permCase ("valid-" ++ toString p.length) "-" (p.map txt) (permsOf idx) "accepted")

end Slicec.Drv
