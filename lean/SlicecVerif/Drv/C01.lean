/- Cases for C01: every input yields a verdict. The only observation is that a verdict is returned in time. -/
import SlicecVerif.Drv.Prog

namespace Slicec.Drv

open Slicec

def anyCase (fam opts : String) (texts : List String) : String := compileCase fam "any" opts texts "verdict"

/-- the token alphabet of the Slice lexer (one spelling per token kind, plus a few literals / comments) -/
def tokenAlphabet : List String :=
  ["module", "struct", "interface", "enum", "custom", "typealias", "Result", "Sequence", "Dictionary", "bool", "int32", "varuint62",
   "float64", "string", "compact", "idempotent", "stream", "tag", "unchecked", "(", ")", "[", "]", "[[", "]]", "{", "}", "<", ">",
   ",", ":", "::", "=", "?", "->", "-", "X", "\\struct", "7", "0x1F", "\"s\"", "/// doc\n", "// c\n", "/* c */", "#if X\n", "#endif\n", "@", "é", "\n",
   "#define X", "#if", "#", "&&", "!", "\u00a0", "\u3000", "\u2028", "\u000b", "\r"]

def soups : Nat → List (List String)
  | 0 => [[]]
  | n + 1 => tokenAlphabet.flatMap fun t => (soups n).map (t :: ·)

def typeForms : List String :=
  ["bool", "bool?", "string", "float64", "Sequence<bool>", "Sequence<bool>?", "Sequence<Sequence<int32>>", "Dictionary<bool, bool>",
   "Dictionary<Sequence<bool>, bool>", "Dictionary<float32, bool>", "Result<bool, string>", "Result<Result<bool, bool>, bool>?",
   "S", "S?", "E", "I", "C", "T", "::M::S", "M::S", "Missing", "::Missing", "[cs::a] bool", "[deprecated] bool", "Sequence<Missing>",
   "Sequence<I>", "Dictionary<S, I>", "T?", "Sequence<T>", "\\bool", "tag", "Sequence<>", "Dictionary<bool>", "Result<bool>"]

/-- a program that puts a type form in one type position -/
def inPosition (pos : Nat) (ty : String) : String :=
  let pre := "module M\nstruct S { a: bool }\nenum E { A, B }\ninterface I { op() }\ncustom C\ntypealias T = Sequence<bool>\n"
  pre ++ (match pos with
    | 0 => "struct U { f: " ++ ty ++ " }\n"
    | 1 => "compact struct U { f: " ++ ty ++ " }\n"
    | 2 => "interface J : " ++ ty ++ " {}\n"
    | 3 => "enum F : " ++ ty ++ " { X }\n"
    | 4 => "typealias A = " ++ ty ++ "\n"
    | 5 => "interface J { op(p: " ++ ty ++ ") }\n"
    | 6 => "interface J { op() -> " ++ ty ++ " }\n"
    | 7 => "interface J { op() -> (a: " ++ ty ++ ", b: stream " ++ ty ++ ") }\n"
    | 8 => "enum F { X(f: " ++ ty ++ ") }\n"
    | 9 => "struct U { f: Dictionary<" ++ ty ++ ", bool> }\n"
    | 10 => "struct U { tag(1) f: " ++ ty ++ " }\n"
    | 11 => "interface J { op(p: stream " ++ ty ++ ") -> stream " ++ ty ++ " }\n"
    | 12 => "struct U { f: Sequence<" ++ ty ++ "> }\nstruct V { u: U, w: Result<U, " ++ ty ++ "> }\n"
    | _ => "/// {@link " ++ ty ++ "}\n/// @see " ++ ty ++ "\nstruct U {}\n")

def mutateText (s : String) (r : Rng) : String × Rng :=
  let cs := s.toList
  let (k, r) := r.below 6
  let (i, r) := r.below (cs.length + 1)
  let (j, r) := r.below (cs.length + 1)
  let (c, r) := r.pick ['{', '}', '(', ')', '<', '>', '[', ']', ':', ',', '?', '"', '\\', '/', '*', '#', '@', '\n', '\r', '\t', ' ', '0', 'x', '-', '=', 'é', '　', '\u0000']
  let out := match k with
    | 0 => cs.take i ++ cs.drop (i + 1)                       -- delete a character
    | 1 => cs.take i ++ [c] ++ cs.drop i                      -- insert a character
    | 2 => cs.take i ++ [c] ++ cs.drop (i + 1)                -- replace a character
    | 3 => cs.take (min i j) ++ cs.drop (max i j)             -- delete a range
    | 4 => cs.take i ++ (cs.drop (min i j)).take 12 ++ cs.drop i   -- duplicate a fragment
    | _ => cs.take i                                          -- truncate
  (String.ofList out, r)

def denseDag (n : Nat) : String :=
  "module M\n" ++ String.join ((List.range n).map fun i =>
    "struct S" ++ toString i ++ " { " ++ String.join (((List.range n).filter (· > i)).map fun j => "f" ++ toString j ++ ": S" ++ toString j ++ " ") ++ "}\n")

/-- `layers` layers of two interfaces, each inheriting both interfaces of the previous layer -/
def layeredIfaces (layers : Nat) : String :=
  "module M\ninterface A0 { a0() }\ninterface B0 { b0() }\n" ++ String.join ((List.range (layers - 1)).map fun k =>
    let i := toString (k + 1); let j := toString k
    "interface A" ++ i ++ " : A" ++ j ++ ", B" ++ j ++ " {}\ninterface B" ++ i ++ " : A" ++ j ++ ", B" ++ j ++ " {}\n")

def layeredStructs (layers : Nat) : String :=
  "module M\nstruct A0 {}\nstruct B0 {}\n" ++ String.join ((List.range (layers - 1)).map fun k =>
    let i := toString (k + 1); let j := toString k
    "struct A" ++ i ++ " { a: A" ++ j ++ ", b: B" ++ j ++ " }\nstruct B" ++ i ++ " { a: A" ++ j ++ ", b: Sequence<B" ++ j ++ "> }\n")

/-- compact structs, each containing all later ones, the first used as a dictionary key -/
def denseCompactKey (n : Nat) : String :=
  "module M\n" ++ String.join ((List.range n).map fun i =>
    "compact struct S" ++ toString i ++ " { " ++ String.join (((List.range n).filter (· > i)).map fun j => "f" ++ toString j ++ ": S" ++ toString j ++ " ") ++
      (if i + 1 == n then "z: bool " else "") ++ "}\n") ++ "struct D { d: Dictionary<S0, bool> }\ninterface I { op(p: Dictionary<S1, S0>) }\n"

/-- every struct contains (optionally) every other one -/
def completeDigraph (n : Nat) : String :=
  "module M\n" ++ String.join ((List.range n).map fun i =>
    "struct S" ++ toString i ++ " { " ++ String.join (((List.range n).filter (· != i)).map fun j => "f" ++ toString j ++ ": S" ++ toString j ++ "? ") ++ "}\n")

/-- `typealias A0 = Sequence<int32>`, then `k` layers `typealias Ai = Result<A(i-1), A(i-1)>`, used by one field -/
def aliasDiamond (k : Nat) : String :=
  "module M\ntypealias A0 = Sequence<int32>\n" ++ String.join ((List.range k).map fun i =>
    "typealias A" ++ toString (i + 1) ++ " = Result<A" ++ toString i ++ ", A" ++ toString i ++ ">\n") ++ "struct S { a: A" ++ toString k ++ " }\n"

/-- `X0 a X1 b`, `X1 a X2 b`, …, then the last element written with `lastPre n lastPost` -/
def chainOf (n : Nat) (pre mid post lastPre lastPost : String) : String :=
  "module M\n" ++ String.join ((List.range n).map fun i => pre ++ toString i ++ mid ++ toString (i + 1) ++ post ++ "\n") ++
    lastPre ++ toString n ++ lastPost ++ "\n"

/-- file sets in which a syntax error follows members that already carry a lint -/
def orphanTemplates : List (List String) :=
  let bad := "/// @foo\n"
  [ ["module M enum E { A(\n" ++ bad ++ "x: int32) B(\n" ++ bad ++ "y: int32) }}\n"],
    ["module M\nenum E {\n" ++ bad ++ "A(\n" ++ bad ++ "x: int32),\n" ++ bad ++ "B %\n}\n"],
    ["module M\nunchecked enum E : uint8 {\n" ++ bad ++ "A = 1,\n" ++ bad ++ "B = 2 %\n}\n"],
    ["module M\nstruct S {\n" ++ bad ++ "x: int32\n" ++ bad ++ "y: bool %\n}\n"],
    ["module M\nstruct S {\n" ++ bad ++ "x: int32 } %\n"],
    ["module M\n[allow(MalformedDocComment)] struct S {\n" ++ bad ++ "[allow(All)] x: int32\n %\n"],
    ["module M\ninterface I {\n" ++ bad ++ "op(\n" ++ bad ++ "p: int32) -> (\n" ++ bad ++ "a: bool,\n" ++ bad ++ "b: bool)\n" ++ bad ++ "op2() %\n}\n"],
    ["module M\ninterface I {\n" ++ bad ++ "op(\n" ++ bad ++ "p: int32) %\n}\n"],
    ["module M\ninterface N {\n    I(op: int32) foo %\n}\n", "module M::N\ninterface I {\n    " ++ bad ++ "    op() bar %\n}\n"],
    ["module M\ninterface N {\n    I(op: int32) foo %\n}\n", "module M::N\ninterface I {\n    " ++ bad ++ "    op()\n}\n"],
    ["module M\nstruct S {\n" ++ bad ++ "x: int32\n}\nstruct T {\n" ++ bad ++ "y: Sequence<\n}\n", "module M\n" ++ bad ++ "struct U { " ++ bad ++ " z: bool }\n"],
    ["module M\n" ++ bad ++ "typealias T = \n" ++ bad ++ "struct S {}\n"],
    ["module M\n" ++ bad ++ "custom C\n" ++ bad ++ "custom D %\n"],
    ["module M\nenum E { A(\n/// {@link x}\n/// @param y: z\nx: int32, tag(1) y: bool?) B(" ] ]

/-- the 25 code points of `char::is_whitespace` -/
def unicodeWhitespace : List Char :=
  ['\u0009', '\u000a', '\u000b', '\u000c', '\u000d', ' ', '\u0085', '\u00a0', '\u1680', '\u2000', '\u2001', '\u2002', '\u2003', '\u2004',
   '\u2005', '\u2006', '\u2007', '\u2008', '\u2009', '\u200a', '\u2028', '\u2029', '\u202f', '\u205f', '\u3000']

/-- `~` marks where the whitespace character goes -/
def wsTemplates : List String :=
  ["#define FOO~\nmodule M\n", "#~define FOO\nmodule M\n", "#define~FOO\nmodule M\n", "#if X~&&~!Y\nmodule M\n#endif\n", "#if X\nmodule M\n#endif~\n",
   "#if (~X~)~// c\nmodule M\n#else~\nmodule N\n#endif", "#undef X~", "~#define X\nmodule M\n", "#if X ||~", "#elif~X\n",
   "module~M\nstruct~S~{~a:~bool~}\n", "module M\n[cs::a(~x~,~\"y~\")]~struct S {}\n", "module M\n///~doc\n///~~{@link~S}~x\n///~@param~p~:~q\nstruct S {}\n",
   "module M\n/*~*/ struct S {} //~\n", "module M\nenum E : uint8 { A =~1,~B~}\n", "module M\nstruct S { tag(~1~)~a: bool? }\n", "[[~allow(All)~]]~module M\n"]

def nested (open_ close : String) (depth : Nat) (core : String) : String :=
  String.join (List.replicate depth open_) ++ core ++ String.join (List.replicate depth close)

def genC01 (tier : Tier) (seed : Nat) (o : Out) : IO Unit := do
  -- token soups over the full token alphabet
  let soupLen := if tier == .thorough then 3 else 2
  for n in [0:soupLen + 1] do
    for s in soups n do
      o.line (anyCase ("soup" ++ toString n) "-" [" ".intercalate s])
      if n ≥ 1 then o.line (anyCase ("soup-m" ++ toString n) "-" ["module M\n" ++ " ".intercalate s])
  -- every Unicode White_Space code point in every lexical context (the three lexers skip whitespace with different predicates)
  for ws in unicodeWhitespace do
    for t in wsTemplates do
      o.line (anyCase "unicode-whitespace" "-" [t.replace "~" (String.singleton ws)])
      o.line (anyCase "unicode-whitespace" "D=X" [t.replace "~" (String.singleton ws ++ String.singleton ws)])
  -- every type form in every type position
  for pos in [0:14] do
    for ty in typeForms do
      o.line (anyCase ("position" ++ toString pos) "-" [inPosition pos ty])
  -- cycles of every kind
  for src in ["struct A { a: A }", "struct A { b: B }\nstruct B { a: A? }", "struct A { b: Sequence<B> }\nstruct B { a: Dictionary<int32, A> }",
              "enum A { X(a: A) }", "struct A { r: Result<bool, A> }", "typealias A = B\ntypealias B = A", "typealias A = A",
              "typealias A = B\ntypealias B = A\nstruct S { a: A }", "compact struct K { k: K }\nstruct U { d: Dictionary<K, bool> }",
              -- rho shapes: a chain that leads into a cycle it is not part of
              "typealias Z = A\ntypealias A = B\ntypealias B = B", "typealias A = B\ntypealias B = C\ntypealias C = B\nstruct S { a: A }",
              "typealias A = B\ntypealias B = C\ntypealias C = D\ntypealias D = C\ninterface I { op(p: Sequence<A>) -> A }",
              "struct A { b: B }\nstruct B { c: C }\nstruct C { b: B }", "struct A { b: B }\nstruct B { c: C? }\nstruct C { d: D }\nstruct D { b: Sequence<B> }",
              "interface A : B {}\ninterface B : C {}\ninterface C : B {}", "enum A { X(b: B) }\nenum B { Y(c: C) }\nenum C { Z(b: B) }",
              "typealias A = Sequence<B>\ntypealias B = Dictionary<bool, C>\ntypealias C = Result<B, bool>\nstruct S { a: A }"] do
    o.line (anyCase "cycles" "-" ["module M\n" ++ src ++ "\n"])
  for src in ["interface A : A {}", "interface A : B {}\ninterface B : A {}", "interface A : B { op() }\ninterface B : C {}\ninterface C : A { op() }",
              "interface Z : A {}\ninterface A : B {}\ninterface B : A {}"] do
    o.line (anyCase "regress-d05a-inherit-loop" "-" ["module M\n" ++ src ++ "\n"])
  for src in ["typealias A = Sequence<A>", "typealias A = Dictionary<int32, A>\nstruct S { a: A }", "typealias A = Result<B, bool>\ntypealias B = Sequence<A>"] do
    o.line (anyCase "regress-d05c-alias-anon-loop" "-" ["module M\n" ++ src ++ "\n"])
  -- dense acyclic dependency graphs (the cycle detector used to enumerate every simple path, D-05b) and layered
  -- inheritance DAGs (all_base_interfaces used to expand an interface once per path, D-05e)
  for n in [4, 8, 10, 12, 14] do
    o.line (anyCase ("dense" ++ toString n) "-" [denseDag n])
  for n in [24, 28, 40, 64] do
    o.line (anyCase "regress-d05b-dense-dag" "-" [denseDag n])
  for n in [10, 18, 26, 40, 80] do
    o.line (anyCase "regress-d05e-layered-inheritance" "-" [layeredIfaces n])
    o.line (anyCase "layered-structs" "-" [layeredStructs n])
  for n in [12, 20, 28, 40] do
    o.line (anyCase "regress-d01h-dense-compact-key" "-" [denseCompactKey n])
    o.line (anyCase "regress-d01h-dense-compact-key" "-" [(denseCompactKey n).replace "z: bool" "z: float32"])
    o.line (anyCase "regress-d01h-dense-compact-key" "-" [(denseCompactKey n).replace "z: bool" "z: Sequence<bool>, y: bool?"])
  -- dense CYCLIC graphs: every simple cycle through the checked type is enumerated (open finding D-05d)
  for n in [3, 5, 7] do
    o.line (anyCase ("complete" ++ toString n) "-" [completeDigraph n])
  o.line (anyCase "known-d05d-complete-digraph" "-" [completeDigraph 12])
  -- type structure shared through aliases of anonymous types is walked once per path (open finding D-05f)
  for k in [4, 10, 16] do
    o.line (anyCase "alias-diamond" "-" [aliasDiamond k])
  o.line (anyCase "known-d05f-alias-diamond" "-" [aliasDiamond 30])
  -- a user element named like a primitive (used to replace the primitive's entry in the lookup table, D-01b)
  for prim in ["bool", "int8", "uint8", "int16", "uint16", "int32", "uint32", "varint32", "varuint32", "int64", "uint64", "varint62",
               "varuint62", "float32", "float64", "string"] do
    let a := "module \\" ++ prim ++ "\nstruct S {}\n"
    let b := "module M\nstruct T { a: " ++ prim ++ ", b: Sequence<" ++ prim ++ "> }\n"
    o.line (anyCase "regress-d01b-shadowed-primitive" "-" [a, b])
    o.line (anyCase "regress-d01b-shadowed-primitive" "-" [b, a])
    o.line (anyCase "regress-d01b-shadowed-primitive" "-" ["struct \\" ++ prim ++ " {}\nstruct S { a: " ++ prim ++ " }\n"])
    o.line (anyCase "regress-d01b-shadowed-primitive" "-" ["module \\" ++ prim ++ "\nstruct \\" ++ prim ++ " { a: " ++ prim ++ ", b: \\" ++ prim ++ " }\n"])
  -- members whose parent is dropped by a later syntax error, with a lint scoped to the member (used to leave a dangling
  -- parent pointer that `into_updated` dereferenced, D-01c)
  for t in orphanTemplates do
    o.line (anyCase "regress-d01c-orphaned-member" "-" t)
    o.line (anyCase "regress-d01c-orphaned-member" "A=All" t)
  -- deep nesting within 8 KiB
  for d in [10, 100, 500, 800] do
    o.line (anyCase "deep-types" "-" ["module M\nstruct S { f: " ++ nested "Sequence<" ">" d "bool" ++ " }\n"])
    o.line (anyCase "deep-dict" "-" ["module M\nstruct S { f: " ++ nested "Dictionary<bool, " ">" (d / 2) "bool" ++ " }\n"])
    o.line (anyCase "deep-alias" "-" ["module M\ntypealias T = " ++ nested "Sequence<" ">" d "bool" ++ "\nstruct S { f: T }\n"])
    o.line (anyCase "deep-preproc" "-" ["#if " ++ nested "(" ")" (4 * d) "X" ++ "\nmodule M\n#endif\n"])
    o.line (anyCase "deep-preproc-and" "-" ["#if " ++ " && ".intercalate (List.replicate (d + 1) "X") ++ "\nmodule M\n#endif\n"])
    o.line (anyCase "deep-ifnest" "-" [String.join (List.replicate d "#if X\n") ++ "module M\n" ++ String.join (List.replicate d "#endif\n")])
    o.line (anyCase "deep-ifnest" "D=X" [String.join (List.replicate d "#if X\n") ++ "module M\n" ++ String.join (List.replicate d "#endif\n")])
    o.line (anyCase "deep-attrs" "-" ["module M\n" ++ String.join (List.replicate d "[cs::a]\n") ++ "struct S {}\n"])
    o.line (anyCase "chain-structs" "-" [chainOf d "struct S" " { a: S" " }" "struct S" " {}"])
    o.line (anyCase "chain-interfaces" "-" [chainOf (d / 2) "interface I" " : I" " {}" "interface I" " {}"])
    o.line (anyCase "chain-aliases" "-" [chainOf (d / 2) "typealias T" " = T" "" "typealias T" " = bool"])
    o.line (anyCase "chain-compact-key" "-" [chainOf (d / 4) "compact struct S" " { a: S" " }" "compact struct S" " { a: bool }" ++ "struct D { d: Dictionary<S0, bool> }\n"])
  -- doc comments: indentation of different widths, odd characters
  for doc in ["/// a\n///  b\n///   c\n", "///\ta\n///  b\n", "///  x\n///  y\n", "///　x\n///　　y\n", "/// {@link S} x\n///   y\n",
              "/// @param\n", "/// @\n", "/// {@link\n", "/// {@link S\n/// }\n", "/// @see\n", "/// @returns x: y\n/// z\n", "///\n///\n", "/// \r\n/// x\r\n"] do
    o.line (anyCase "doc" "-" ["module M\n" ++ doc ++ "struct S {}\n"])
    o.line (anyCase "doc-op" "-" ["module M\ninterface I {\n" ++ doc ++ "op(p: bool) -> bool\n}\n"])
  for doc in ["///  x\n/// 　y\n", "/// é x\n///  y\n", "/// a\n/// b\n", "/// a\n///　x\n///  y\n", "/// x\n///　\n", "///　{@link S}\n/// y\n"] do
    o.line (anyCase "regress-d16a-mixed-width" "-" ["module M\n" ++ doc ++ "struct S {}\n"])
    o.line (anyCase "regress-d16a-mixed-width" "-" ["module M\ninterface I {\n/// @param p: a\n" ++ doc ++ "op(p: bool)\n}\n"])
  -- neighbours of the orphaned-member shapes
  let mut ro := Rng.mk' (seed + 77)
  for t in orphanTemplates do
    for _ in [0:(if tier == .thorough then 200 else 25)] do
      let (which, r1) := ro.below t.length
      let (m, r2) := mutateText (t.getD which "") r1
      ro := r2
      o.line (anyCase "orphaned-member-mutant" "-" (t.set which m))
  -- mutations of valid programs, CRLF / tab variants, options
  let nProg := if tier == .thorough then 5000 else 400
  let nMut := if tier == .thorough then 20 else 12
  let mut r := Rng.mk' (seed + 1)
  for i in [0:nProg] do
    let cfg : GenCfg := { maxFiles := 1 + i % 3, maxDefs := 1 + i % 4, typeDepth := i % 3 }
    let (p, r') := genProgram cfg r
    r := r'
    let texts := p.map fun f => (render (i % 3) (seed + i) (fileItems f)).1
    let opts := ["-", "D=X", "A=All", "A=Deprecated;D=X;D=Y", "D="].getD (i % 5) "-"
    o.line (anyCase "valid" opts texts)
    o.line (anyCase "crlf" opts (texts.map fun t => t.replace "\n" "\r\n"))
    for _ in [0:nMut] do
      let (which, r1) := r.below texts.length
      let (m, r2) := mutateText (texts.getD which "") r1
      r := r2
      o.line (anyCase "mutant" opts (texts.set which m))

end Slicec.Drv
