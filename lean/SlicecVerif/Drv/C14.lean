/-
  Case generation for C14 (engine `emit`).

  case line:  emit|emitc <TAB> family <TAB> json|human <TAB> files <TAB> diags <TAB> expected
    files   = `_` (none) or `;`-separated  hex(path)=hex(text)
    diags   = `_` (none) or `;`-separated  KIND,LEVEL,hex(payload),SPAN,NOTES
      KIND  = S Error::Syntax{message}            (code E002, message "invalid syntax: <payload>")
              M Lint::MalformedDocComment{message}  I Lint::IncorrectDocComment{message}
              B Lint::BrokenDocLink{message}        (code = the lint's name, message = payload)
              F Lint::DuplicateFile{path}           (message "slice file was provided more than once: '<payload>'")
              D Lint::Deprecated{identifier, None}  (message "'<payload>' is deprecated")
      LEVEL = e | w | a      (e only with S; a = made `Allowed` through `Diagnostics::into_updated`)
      SPAN  = `~` (none) or  startRow.startCol.endRow.endCol.hex(file)
      NOTES = `_` (none) or `/`-separated  hex(message)@SPAN
    expected = <warnings>,<errors>,<hex of the exact bytes written | panic:<site>>
  every string is hex-encoded UTF-8, `-` = empty string.
  `emitc` = the same case run with colours ON (expected is still the colour-off text).
-/
import SlicecVerif.Model.Emit
import SlicecVerif.Drv.Common

namespace Slicec.Drv.C14

open Slicec Slicec.Emit Slicec.Drv

inductive DKind where
  | syn | malformed | incorrect | broken | dupfile | deprecated
  deriving DecidableEq, Repr, Inhabited

structure DSpec where
  kind : DKind
  allowed : Bool
  payload : String
  span : Option Span
  notes : List Note
  deriving Inhabited

def DKind.tag : DKind → String
  | .syn => "S" | .malformed => "M" | .incorrect => "I" | .broken => "B" | .dupfile => "F" | .deprecated => "D"

def DKind.code : DKind → String
  | .syn => "E002" | .malformed => "MalformedDocComment" | .incorrect => "IncorrectDocComment"
  | .broken => "BrokenDocLink" | .dupfile => "DuplicateFile" | .deprecated => "Deprecated"

def DSpec.level (d : DSpec) : Level :=
  if d.kind == .syn then .error else if d.allowed then .allowed else .warning

def DSpec.message (d : DSpec) : String :=
  match d.kind with
  | .dupfile => Gen.msgDuplicateFile.1 ++ d.payload ++ Gen.msgDuplicateFile.2
  | .deprecated => Gen.msgDeprecated.1 ++ d.payload ++ Gen.msgDeprecated.2
  | .syn => Gen.msgSyntax.1 ++ d.payload ++ Gen.msgSyntax.2
  | _ => d.payload

def DSpec.toDiag (d : DSpec) : Diag :=
  { code := d.kind.code, message := d.message, level := d.level, span := d.span, notes := d.notes }

def encSpan : Option Span → String
  | none => "~"
  | some s => ".".intercalate [toString s.start.row, toString s.start.col, toString s.stop.row, toString s.stop.col, hexOfString s.file]

def encNotes (ns : List Note) : String :=
  if ns.isEmpty then "_" else "/".intercalate (ns.map fun n => hexOfString n.message ++ "@" ++ encSpan n.span)

def encDiag (d : DSpec) : String :=
  ",".intercalate [d.kind.tag, (match d.level with | .error => "e" | .warning => "w" | .allowed => "a"),
    hexOfString d.payload, encSpan d.span, encNotes d.notes]

def encDiags (ds : List DSpec) : String := if ds.isEmpty then "_" else ";".intercalate (ds.map encDiag)

def encFiles (fs : List SrcFile) : String :=
  if fs.isEmpty then "_" else ";".intercalate (fs.map fun f => hexOfString f.path ++ "=" ++ hexOfString f.text)

/-! classification of a case: are all its spans positions a lexer can hand out? -/

/-- raw lines: split at '\n' only, the '\r' counts as a column (what the lexers do) -/
def rawLines (text : List Char) : List (List Char) :=
  let rec go : List Char → List Char → List (List Char)
    | [], acc => [acc.reverse]
    | c :: rest, acc => if c = '\n' then acc.reverse :: go rest [] else go rest (c :: acc)
  go text []

def locReachable (text : List Char) (l : Loc) : Bool :=
  let ls := rawLines text
  l.row ≥ 1 && l.col ≥ 1 && l.row ≤ ls.length && l.col ≤ (ls.getD (l.row - 1) []).length + 1

def spanWf (files : List SrcFile) (s : Span) : Bool :=
  match files.find? (fun f => f.path == s.file) with
  | none => false
  | some f => locReachable f.text.toList s.start && locReachable f.text.toList s.stop && locLe s.start s.stop

def optSpanWf (files : List SrcFile) : Option Span → Bool
  | none => true
  | some s => spanWf files s

def caseWf (files : List SrcFile) (ds : List DSpec) : Bool :=
  ds.all fun d => optSpanWf files d.span && d.notes.all fun n => optSpanWf files n.span

def showOut : Outcome Unit String → String
  | .ok s => hexOfString s
  | .err _ => "err"
  | .panic site => "panic:" ++ site

def caseLine (op fam : String) (human : Bool) (files : List SrcFile) (ds : List DSpec) : String :=
  let diags := ds.map DSpec.toDiag
  let out : Outcome Unit String := if human then emitHuman files diags else .ok (emitJson diags)
  let (w, e) := totals diags
  -- families of panicking cases: spans no lexer can produce are `illformed`, the others are findings
  let fam' :=
    match out with
    | .panic site =>
      if caseWf files ds then (if site == "sub:highlight" then "known-D14a" else "known-other-" ++ site)
      else "illformed-" ++ fam
    | _ => if caseWf files ds then fam else "illformed-" ++ fam
  tab [op, fam', if human then "human" else "json", encFiles files, encDiags ds,
       toString w ++ "," ++ toString e ++ "," ++ showOut out]

def both (o : Out) (fam : String) (files : List SrcFile) (ds : List DSpec) : IO Unit := do
  o.line (caseLine "emit" fam false files ds)
  o.line (caseLine "emit" fam true files ds)

def humanOnly (o : Out) (fam : String) (files : List SrcFile) (ds : List DSpec) : IO Unit :=
  o.line (caseLine "emit" fam true files ds)

/-! fixed material -/

def fileA : SrcFile := ⟨"a.slice", "module Test\n\tstruct S {\n  a: bool\t// x\n}\n"⟩
def fileB : SrcFile := ⟨"dir/b c.slice", "// \u00e9 \u6f22 " ++ String.singleton (Char.ofNat 0x1f600) ++ "\nmodule B\n"⟩

def sp (f : String) (r1 c1 r2 c2 : Nat) : Span := ⟨⟨r1, c1⟩, ⟨r2, c2⟩, f⟩

def noteChoices : List Note :=
  [⟨"plain note", none⟩, ⟨"note with span", some (sp "a.slice" 3 3 3 4)⟩]

def noteLists : List (List Note) :=
  [[]] ++ noteChoices.map (fun n => [n]) ++ (noteChoices.flatMap fun a => noteChoices.map fun b => [a, b])

def spanChoices : List (Option Span) :=
  [none, some (sp "a.slice" 2 2 2 8), some (sp "a.slice" 2 9 4 2), some (sp "dir/b c.slice" 1 4 1 5)]

def levelChoices : List (DKind × Bool) :=
  [(.syn, false), (.malformed, false), (.incorrect, true), (.broken, false), (.broken, true), (.dupfile, false), (.deprecated, true)]

def small1 : List DSpec :=
  levelChoices.flatMap fun (k, a) => spanChoices.flatMap fun s => noteLists.map fun ns =>
    { kind := k, allowed := a, payload := "msg " ++ k.tag, span := s, notes := ns }

/-- every non-ASCII / special character class the property names -/
def catalogue : List Char :=
  (List.range 0x20).map Char.ofNat ++
  ['"', '\\', '/', '\'', ' ', '~', '{', '}', '[', ']', ':', ',', 'u', 'n'] ++
  [0x7f, 0x80, 0x85, 0xa0, 0xe9, 0xdf, 0x300, 0x200b, 0x2028, 0x2029, 0xfeff, 0xfffd, 0xd7ff, 0xe000, 0x6f22, 0xffff,
   0x10000, 0x1f600, 0x10ffff].map Char.ofNat

def charCase (c : Char) : List SrcFile × List DSpec :=
  let cs := String.singleton c
  let path := "d" ++ cs ++ "f.slice"
  let text := "ab" ++ cs ++ "cd\nxy" ++ cs ++ cs ++ "z"
  let files := [⟨path, text⟩]
  (files, [{ kind := .syn, allowed := false, payload := "a" ++ cs ++ "b" ++ cs, span := some (sp path 1 2 1 5),
             notes := [⟨cs, some (sp path 1 1 1 2)⟩, ⟨cs ++ cs ++ "x", none⟩] },
           { kind := .dupfile, allowed := false, payload := path, span := none, notes := [] },
           { kind := .deprecated, allowed := false, payload := "I" ++ cs, span := some (sp path 1 3 1 4), notes := [] }])

def longFile : SrcFile :=
  ⟨"long.slice", "\n".intercalate ((List.range 12).map fun i => "line" ++ toString (i + 1) ++ (if i % 3 == 0 then "\tt" else "") ++ (if i % 4 == 1 then "" else " x")) ++ "\n"⟩

def tabFile : SrcFile := ⟨"tab.slice", "\ta\t\tbc\t\nq\t"⟩
def crlfFile : SrcFile := ⟨"crlf.slice", "ab\r\nc\rd\r\n\r\nef\r"⟩
def noNlFile : SrcFile := ⟨"nonl.slice", "abc\n\nde"⟩
def emptyFile : SrcFile := ⟨"empty.slice", ""⟩
def justNl : SrcFile := ⟨"nl.slice", "\n"⟩

def synAt (s : Option Span) : DSpec := { kind := .syn, allowed := false, payload := "m", span := s, notes := [] }

/-- all spans with rows in `[r0, r1]` and columns in `[c0, c1]` (ordered or not) -/
def grid (f : String) (r0 r1 c0 c1 : Nat) : List Span :=
  let rows := (List.range (r1 + 1 - r0)).map (· + r0)
  let cols := (List.range (c1 + 1 - c0)).map (· + c0)
  rows.flatMap fun a => cols.flatMap fun b => rows.flatMap fun c => cols.map fun d => sp f a b c d

/-! random material -/

def textAlphabet : List Char :=
  ['a', 'b', 'c', 'Z', '_', '{', ' ', ' ', '\t', '\t', '\n', '\n', '\n', '\r', '"', '\\', '/'] ++
  [0xe9, 0x6f22, 0x1f600].map Char.ofNat

def msgAlphabet : List Char :=
  ['a', 'b', 'k', ' ', '\'', '"', '\\', '\n', '\r', '\t', ':', '{'] ++
  [0x00, 0x01, 0x08, 0x0c, 0x1b, 0x1f, 0x7f, 0xe9, 0x2028, 0x6f22, 0x1f600].map Char.ofNat

def genChars (alpha : List Char) : Nat → Rng → List Char × Rng
  | 0, r => ([], r)
  | n + 1, r =>
    let (c, r) := r.pick alpha
    let (cs, r) := genChars alpha n r
    (c :: cs, r)

def genText (r : Rng) : String × Rng :=
  let (n, r) := r.below 60
  let (crlf, r) := r.below 4
  let (cs, r) := genChars textAlphabet n r
  -- a quarter of the files use CRLF line ends throughout
  let cs := if crlf == 0 then cs.flatMap (fun c => if c = '\n' then ['\r', '\n'] else [c]) else cs
  (String.ofList cs, r)

def genMsg (r : Rng) : String × Rng :=
  let (n, r) := r.below 12
  let (cs, r) := genChars msgAlphabet n r
  (String.ofList cs, r)

/-- a span over `f`: almost always one a lexer could hand out (and, when it covers several lines,
    not starting behind the characters `lines()` keeps — those are the `known-D14a` family);
    `bad` selects one of the ill-formed shapes -/
def genSpan (f : SrcFile) (r : Rng) : Span × Rng :=
  let raw := rawLines f.text.toList
  let kept := Emit.lines f.text.toList
  let n := raw.length
  let (r1, r) := r.below n
  let (dr, r) := r.pick [0, 0, 0, 0, 1, 1, 2, 3]
  let row1 := r1 + 1
  let row2 := min n (row1 + dr)
  let len1 := (raw.getD (row1 - 1) []).length
  let len2 := (raw.getD (row2 - 1) []).length
  let (c1, r) := r.below (len1 + 1)
  let (c2, r) := r.below (len2 + 1)
  let (c1, c2) := if row1 == row2 && c2 < c1 then (c2, c1) else (c1, c2)
  let c1 := if row1 < row2 then min c1 ((kept.getD (row1 - 1) []).length) else c1
  let (bad, r) := r.below 250
  let s : Span :=
    match bad with
    | 0 => sp f.path row1 0 row2 (c2 + 1)
    | 1 => sp f.path 0 (c1 + 1) row2 (c2 + 1)
    | 2 => sp f.path (row2 + 1) (c2 + 1) row1 (c1 + 1)
    | 3 => sp "nowhere.slice" row1 (c1 + 1) row2 (c2 + 1)
    | 4 => sp f.path row1 (c1 + 1) (row2 + 2) (c2 + 40)
    | 5 => sp f.path row1 (c1 + 9) (row1 + 1) 1
    | 6 => sp f.path row1 (c1 + 1) row2 0
    | _ => sp f.path row1 (c1 + 1) row2 (c2 + 1)
  (s, r)

def genOptSpan (files : List SrcFile) (r : Rng) : Option Span × Rng :=
  let (k, r) := r.below 3
  if k == 0 || files.isEmpty then (none, r)
  else
    let (f, r) := r.pick files
    let (s, r) := genSpan f r
    (some s, r)

def genNotes (files : List SrcFile) : Nat → Rng → List Note × Rng
  | 0, r => ([], r)
  | n + 1, r =>
    let (m, r) := genMsg r
    let (s, r) := genOptSpan files r
    let (ns, r) := genNotes files n r
    (⟨m, s⟩ :: ns, r)

def genDSpec (files : List SrcFile) (r : Rng) : DSpec × Rng :=
  let (k, r) := r.pick [DKind.syn, .syn, .syn, .malformed, .incorrect, .broken, .dupfile, .deprecated]
  let (a, r) := r.below 3
  let (m, r) := genMsg r
  let (s, r) := genOptSpan files r
  let (nn, r) := r.pick [0, 0, 0, 1, 1, 2, 3]
  let (ns, r) := genNotes files nn r
  ({ kind := k, allowed := a == 0, payload := m, span := s, notes := ns }, r)

def genDSpecs (files : List SrcFile) : Nat → Rng → List DSpec × Rng
  | 0, r => ([], r)
  | n + 1, r =>
    let (d, r) := genDSpec files r
    let (ds, r) := genDSpecs files n r
    (d :: ds, r)

def genFiles : Nat → Nat → Rng → List SrcFile × Rng
  | 0, _, r => ([], r)
  | n + 1, i, r =>
    let (t, r) := genText r
    let (nm, r) := r.pick ["f", "dir/g h", "\u00e9\u6f22", "q\"uo\\te", "t\tab"]
    let (fs, r) := genFiles n (i + 1) r
    (⟨nm ++ toString i ++ ".slice", t⟩ :: fs, r)

def gen (tier : Tier) (seed : Nat) (o : Out) : IO Unit := do
  let fa := [fileA, fileB]
  -- 1. bounded-exhaustive: one diagnostic of every level x span x 0..2 notes, then all pairs of a sub-catalogue
  both o "small-0" fa []
  both o "small-0" [] []
  for d in small1 do
    both o "small-1" fa [d]
  let sub := small1.filter fun d => d.notes.length ≤ 1 && (d.span.isNone || d.span == some (sp "a.slice" 2 2 2 8))
  for d1 in sub do
    for d2 in sub do
      if d1.kind != d2.kind || d1.allowed != d2.allowed then
        both o "small-2" fa [d1, d2]
  -- 2. the character catalogue, in messages, notes, identifiers, file names and source text
  for c in catalogue do
    let (fs, ds) := charCase c
    both o "chars" fs ds
  -- 3. spans over several lines, gutter width changing from 1 to 2 digits
  for s in grid "long.slice" 8 11 1 2 ++ grid "long.slice" 1 3 5 8 ++ [sp "long.slice" 1 1 12 9, sp "long.slice" 9 3 13 1, sp "long.slice" 12 1 100 1,
      sp "long.slice" 99 1 100 1, sp "long.slice" 100 1 1000 1] do
    if locLe s.start s.stop then humanOnly o "multiline" [longFile] [synAt (some s)]
  -- 4. tabs before / inside / after the span: every pair of columns, both rows
  for s in grid "tab.slice" 1 2 1 9 do
    if locLe s.start s.stop then humanOnly o "tabs" [tabFile] [synAt (some s)]
  -- 5. CRLF and stray CR: every span incl. the positions of '\r' and one past the raw line
  for s in grid "crlf.slice" 1 5 1 5 do
    if locLe s.start s.stop then humanOnly o "crlf" [crlfFile] [synAt (some s)]
  -- 6. line ends, last line without newline, empty files, spans past the end of the text
  for s in grid "nonl.slice" 1 4 1 5 do
    if locLe s.start s.stop then humanOnly o "lineend" [noNlFile] [synAt (some s)]
  for f in [emptyFile, justNl] do
    for s in grid f.path 1 2 1 2 do
      if locLe s.start s.stop then humanOnly o "lineend" [f] [synAt (some s)]
  -- 7. empty spans at every position of a line with tabs, as diagnostic span and as note span
  for c in List.range 10 do
    both o "empty-span" [tabFile] [{ kind := .broken, allowed := false, payload := "p", span := some (sp "tab.slice" 1 (c + 1) 1 (c + 1)),
                                     notes := [⟨"n", some (sp "tab.slice" 2 (c + 1) 2 (c + 1))⟩] }]
  -- 8. spans no lexer hands out: zero rows / columns, start after end, unknown file; first file wins on duplicates
  for s in [sp "a.slice" 0 1 1 1, sp "a.slice" 1 0 1 1, sp "a.slice" 1 1 1 0, sp "a.slice" 2 1 1 1, sp "a.slice" 1 3 1 2,
            sp "zz.slice" 1 1 1 1, sp "a.slice" 0 0 0 0, sp "a.slice" 1 20 2 1, sp "a.slice" 9 0 9 0, sp "a.slice" 1 1 9 0] do
    both o "badspan" fa [synAt (some s)]
    both o "badspan" fa [{ kind := .malformed, allowed := true, payload := "m", span := some s, notes := [] }]
    both o "badspan" fa [{ kind := .syn, allowed := false, payload := "m", span := none, notes := [⟨"n", some s⟩] }]
  both o "badspan" [emptyFile] [synAt (some (sp "empty.slice" 0 1 1 1))]
  both o "dupfile" [⟨"a.slice", "first\n"⟩, ⟨"a.slice", "second\n"⟩] [synAt (some (sp "a.slice" 1 1 1 6))]
  -- finding D-14a: the span 2:9-3:17 the parser gave E009 in this CRLF file before the D-09a repair (93bc41e)
  humanOnly o "crlf" [⟨"d14a.slice", "module M\r\n/// doc\r\nunchecked enum E : string { A }\r\n"⟩]
    [{ kind := .syn, allowed := false, payload := "invalid enum", span := some (sp "d14a.slice" 2 9 3 17), notes := [] }]
  -- 9. colours ON: only ESC presence and equality after stripping ANSI sequences are checked
  for d in small1.filter (fun d => d.notes.length ≤ 1) do
    o.line (caseLine "emitc" "colour-on" true fa [d])
  o.line (caseLine "emitc" "colour-on" false fa (small1.take 40))
  -- 10. random diagnostic lists over random files
  let nRand := if tier == .thorough then 40000 else 3000
  let mut r := Rng.mk' (seed + 1414)
  for i in [0:nRand] do
    let (nf, r1) := r.pick [1, 1, 2, 3]
    let (files, r2) := genFiles nf 0 r1
    let (nd, r3) := r2.pick [0, 1, 1, 2, 2, 3, 4, 6]
    let (ds, r4) := genDSpecs files nd r3
    r := r4
    o.line (caseLine "emit" "random" (i % 2 == 0) files ds)

end Slicec.Drv.C14

/-- entry point registered in `Main.lean` -/
def Slicec.Drv.genC14 (tier : Slicec.Drv.Tier) (seed : Nat) (o : Slicec.Drv.Out) : IO Unit := Slicec.Drv.C14.gen tier seed o
