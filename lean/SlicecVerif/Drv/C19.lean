/- Case generation for C19: generator specifications through the model of `plugin_parser`. -/
import SlicecVerif.Model.PluginSpec
import SlicecVerif.Drv.Common

namespace Slicec.Drv

open Slicec Slicec.PluginSpec

namespace G19

def hexChars (l : List Char) : String := hexOfString (String.ofList l)

def showArg (a : Arg) : String := hexChars a.1 ++ "=" ++ hexChars a.2

/-- the model's observation: `ok <hex path> <hex k>=<hex v>;…` (`-` = empty / no arguments) or `reject` -/
def showParse : Except PErr (List Char × List Arg) → String
  | .error _ => "reject"
  | .ok (p, as) => "ok " ++ hexChars p ++ " " ++ (if as.isEmpty then "-" else ";".intercalate (as.map showArg))

def specCase (op fam : String) (s : List Char) : String :=
  tab [op, fam, hexChars s, showParse (pluginParser s)]

/-- repeated `-G`: one rejected specification rejects the command line -/
def multiCase (fam : String) (ss : List (List Char)) : String :=
  let rs := ss.map pluginParser
  let exp := if rs.any (fun r => match r with | .error _ => true | .ok _ => false) then "reject"
             else "|".intercalate (rs.map showParse)
  tab ["multi", fam, "|".intercalate (ss.map hexChars), exp]

/-- all strings of length exactly `n` over `al` -/
def stringsOfLen (al : List Char) : Nat → List (List Char)
  | 0 => [[]]
  | n + 1 => al.flatMap fun c => (stringsOfLen al n).map (c :: ·)

def smallAlphabet : List Char := ['a', ' ', ',', '=', '\\']

def wsChars : List Char :=
  [0x09, 0x0A, 0x0B, 0x0C, 0x0D, 0x20, 0x85, 0xA0, 0x1680, 0x2000, 0x2001, 0x2002, 0x2003, 0x2004, 0x2005, 0x2006,
   0x2007, 0x2008, 0x2009, 0x200A, 0x2028, 0x2029, 0x202F, 0x205F, 0x3000].map Char.ofNat

/-- code points next to the whitespace ranges that are *not* whitespace, and other edge characters -/
def nearWs : List Char :=
  [0x00, 0x08, 0x0E, 0x1F, 0x21, 0x7F, 0x84, 0x86, 0x9F, 0xA1, 0x180E, 0x167F, 0x1681, 0x1FFF, 0x200B, 0x200C, 0x200D,
   0x2027, 0x202A, 0x202E, 0x2030, 0x205E, 0x2060, 0x2FFF, 0x3001, 0xFEFF, 0xD7FF, 0xE000, 0xFFFD, 0xFFFF, 0x10000,
   0x10FFFF, 0x2D, 0x22, 0x27].map Char.ofNat

def scalarOf (n : Nat) : Char :=
  let n := n % 0x110000
  Char.ofNat (if 0xD800 ≤ n ∧ n ≤ 0xDFFF then n + 0x800 else n)

/-- a character from the whole Unicode range, biased towards the syntax characters and whitespace -/
def genChar (r : Rng) : Char × Rng :=
  let (k, r) := r.below 16
  match k with
  | 0 => (',', r)
  | 1 => ('=', r)
  | 2 | 3 => ('\\', r)
  | 4 => r.pick wsChars
  | 5 => r.pick nearWs
  | 6 | 7 | 8 => let (n, r) := r.below 95; (Char.ofNat (32 + n), r)
  | 9 => let (n, r) := r.below 0x800; (scalarOf n, r)
  | 10 | 11 => let (n, r) := r.below 0x10000; (scalarOf n, r)
  | 12 | 13 => let (n, r) := r.below 0x100000; (scalarOf (0x10000 + n), r)
  | _ => let (n, r) := r.below 26; (Char.ofNat (97 + n), r)

def genChars : Nat → Rng → List Char × Rng
  | 0, r => ([], r)
  | n + 1, r =>
    let (c, r) := genChar r
    let (cs, r) := genChars n r
    (c :: cs, r)

def genWs (r : Rng) : List Char × Rng :=
  let (k, r) := r.below 4
  match k with
  | 0 | 1 => ([], r)
  | 2 => let (c, r) := r.pick wsChars; ([c], r)
  | _ => let (c, r) := r.pick wsChars; let (d, r) := r.pick wsChars; ([c, d], r)

/-- a component: optional whitespace around a random core; `mayBeBlank` lets the core be empty / all blank;
    a trailing backslash (which the syntax cannot express before a separator) is removed unless `keepBs` -/
def genComp (mayBeBlank keepBs : Bool) (r : Rng) : List Char × Rng :=
  let (pre, r) := genWs r
  let (post, r) := genWs r
  let (n, r) := r.below 7
  let (core, r) := genChars (if mayBeBlank then n else n + 1) r
  let core := if mayBeBlank then core else (if trim core = [] then 'p' :: core else core)
  let c := pre ++ core ++ post
  (if !keepBs && endsBs c then c ++ ['z'] else c, r)

def genArgs (keepBs : Bool) : Nat → Rng → List Arg × Rng
  | 0, r => ([], r)
  | n + 1, r =>
    let (blankKey, r) := r.below 40     -- rarely an empty key: the rejected side
    let (k, r) := genComp (blankKey == 0) keepBs r
    let (emptyV, r) := r.below 4
    let (v, r) := if emptyV == 0 then (([] : List Char), r) else genComp true keepBs r
    let (as, r) := genArgs keepBs n r
    ((k, v) :: as, r)

/-- a random path/argument list and what the property promises for it (when its side conditions hold) -/
def genRendered (r : Rng) : (List Char × List Arg) × Rng :=
  let (blankPath, r) := r.below 40
  let (keepBs, r) := r.below 12       -- rarely components ending in a backslash: outside the round trip
  let (p, r) := genComp (blankPath == 0) (keepBs == 0) r
  let (n, r) := r.below 5
  let (as, r) := genArgs (keepBs == 0) n r
  ((p, as), r)

/-- side conditions of `C19.parse_render_comma` -/
def roundTripApplies (p : List Char) (as : List Arg) : Bool :=
  trim p != [] && as.all (fun a => trim a.1 != []) && (components p as).all (fun c => !endsBs c)

def genSpecString (r : Rng) : List Char × Rng :=
  let (k, r) := r.below 3
  if k == 0 then
    let (n, r) := r.below 12
    genChars n r
  else
    let ((p, as), r) := genRendered r
    let (b, r) := r.below 2
    let (tc, r) := r.below 3
    let s := if b == 0 then render p as else renderBare p as
    (if tc == 0 then s ++ [','] else s, r)

end G19

open G19 in
def genC19 (tier : Tier) (seed : Nat) (o : Out) : IO Unit := do
  let thorough := tier == .thorough
  -- bounded-exhaustive: every string up to length 5 (6) over {a, space, ',', '=', '\'}
  for n in List.range ((if thorough then 6 else 5) + 1) do
    for s in stringsOfLen smallAlphabet n do
      o.line (specCase "spec" ("exh-len" ++ toString n) s)
  -- the detached form `-G VALUE` on every string up to length 4 (none starts with '-')
  for n in List.range 5 do
    for s in stringsOfLen smallAlphabet n do
      o.line (specCase "specd" "detached-exh" s)
  -- every whitespace code point (and its non-whitespace neighbours) around a path, a key and a value
  for c in wsChars ++ nearWs do
    o.line (specCase "spec" "ws-around" ([c, 'p', c, ',', c, 'k', c, '=', c, 'v', c]))
    o.line (specCase "spec" "ws-only" ([c, ',', 'k']))
    o.line (specCase "spec" "ws-key" (['p', ',', c, '=', 'v']))
    o.line (specCase "spec" "ws-inside" (['p', c, 'q', ',', 'k', c, 'l', '=', 'v', c, 'w']))
  -- random path/argument lists over all Unicode planes, written by the model's `render`
  let nRand := if thorough then 50000 else 5000
  let mut r := Rng.mk' (seed + 19)
  for _ in [0:nRand] do
    let ((p, as), r1) := genRendered r
    let (bare, r2) := r1.below 2
    r := r2
    let s := if bare == 0 then render p as else renderBare p as
    let fam := if bare == 0 then "render" else "render-bare"
    o.line (specCase "spec" fam s)
    o.line (specCase "spec" (fam ++ "-tc") (s ++ [',']))
    -- the model must itself satisfy the round trip the property states
    if roundTripApplies p as then
      let want : Except PErr (List Char × List Arg) := .ok (trim p, as.map trimArg)
      if showParse (pluginParser s) != showParse want || showParse (pluginParser (s ++ [','])) != showParse want then
        o.line (tab ["K", "spec", fam, hexChars s, "the model does not parse back what was rendered"])
    if s.head? != some '-' then
      o.line (specCase "specd" "detached-render" s)
  -- random raw strings
  for _ in [0:nRand] do
    let (n, r1) := r.below 14
    let (s, r2) := genChars n r1
    r := r2
    o.line (specCase "spec" "raw" s)
  -- repeated -G
  for _ in [0:nRand / 5] do
    let (n, r1) := r.below 4
    let mut ss : List (List Char) := []
    let mut rr := r1
    for _ in [0:n + 1] do
      let (s, r2) := genSpecString rr
      rr := r2
      ss := s :: ss
    r := rr
    o.line (multiCase "multi" ss)

/-- cases for the real binary (procrun/c19_args.py): 1–4 `-G` options whose paths are the scratch generators `g1`…`g4`
    (written with random surrounding whitespace) and whose argument lists are random; the expectation is the model's
    parse of each specification, i.e. what each generator must find behind the request: `gens <fam> <spec|spec…> <ok path args|…>` -/
def genC19g (tier : Tier) (seed : Nat) (o : Out) : IO Unit := do
  let genWs := G19.genWs
  let genArgs := G19.genArgs
  -- argument lists that differ only in which `,` / `=` are escaped: they read the same once the backslashes are gone, and are
  -- different lists all the same (two generators of one invocation, in both orders, and one generator named twice)
  for (a, b) in [("defines=DEBUG\\,level\\=2", "defines=DEBUG,level=2"), ("a\\=b=c", "a=b\\=c"), ("k=v\\,w", "k=v,w"), ("x\\,y", "x,y"),
                 ("k\\=v", "k=v"), ("k=a\\=b\\,c", "k=a\\=b,c"), ("p=1,q=2", "p=1\\,q=2,")] do
    for (g1, g2) in [("./g1,", "./g2,"), ("./g2,", "./g1,"), ("./g1,", "./g1,")] do
      o.line ((G19.multiCase "gens" [(g1 ++ a).toList, (g2 ++ b).toList]).replace "multi\tgens" "gens\tgens")
      o.line ((G19.multiCase "gens" [(g1 ++ b).toList, (g2 ++ a).toList, (g1 ++ a).toList]).replace "multi\tgens" "gens\tgens")
  let n := if tier == .thorough then 600 else 120
  let mut r := Rng.mk' (seed + 1919)
  for i in [0:n] do
    let (k, r1) := r.below 4
    r := r1
    let mut ss : List (List Char) := []
    for j in [0:k + 1] do
      let (pre, r2) := genWs r
      let (post, r3) := genWs r2
      let (m, r4) := r3.below 4
      -- the first scenarios use plain arguments, later ones the whole repertoire (escapes, Unicode, blanks)
      let (as, r5) := if i < 20 then (([(['k', Char.ofNat (48 + j)], ['v']), (['f'], [])].take m : List Arg), r4) else genArgs false m r4
      let (bare, r6) := r5.below 2
      let (tc, r7) := r6.below 3
      r := r7
      -- every third scenario repeats generator paths (`-G ./g1,… -G ./g2,… -G ./g1,…`): each option starts its own process
      let gi := if i % 3 == 2 then j % 2 else j
      let p := pre ++ ['.', '/', 'g', Char.ofNat (49 + gi)] ++ post
      let spec := if bare == 0 then render p as else renderBare p as
      ss := ss ++ [if tc == 0 then spec ++ [','] else spec]
    o.line ((G19.multiCase "gens" ss).replace "multi\tgens" "gens\tgens")

end Slicec.Drv
