/- Cases for C02 (AST fidelity, projection `ast`) and C09 (spans, projection `spans`). -/
import SlicecVerif.Drv.Prog

namespace Slicec.Drv

open Slicec

def genC02 (tier : Tier) (seed : Nat) (o : Out) : IO Unit := do
  let nProg := if tier == .thorough then 15000 else 1000
  let layouts := if tier == .thorough then 8 else 4
  let mut r := Rng.mk' (seed + 2)
  for i in [0:nProg] do
    let cfg : GenCfg := { maxFiles := 1 + i % 3, maxDefs := 1 + i % 5, typeDepth := i % 4 }
    let (p, r') := genProgram cfg r
    r := r'
    let expected := astDump p
    for style in [0:layouts] do
      let texts := p.map fun f => (render style (seed * 1000 + i * 10 + style) (fileItems f)).1
      o.line (compileCase (if style == 0 then "canonical" else "layout") "ast" "-" texts expected)

def genC09 (tier : Tier) (seed : Nat) (o : Out) : IO Unit := do
  let nProg := if tier == .thorough then 15000 else 1000
  let layouts := if tier == .thorough then 6 else 3
  let mut r := Rng.mk' (seed + 9)
  for i in [0:nProg] do
    let cfg : GenCfg := { maxFiles := 1 + i % 2, maxDefs := 1 + i % 5, typeDepth := i % 3 }
    let (p, r') := genProgram cfg r
    r := r'
    for style in [0:layouts] do
      let rendered := p.map fun f => render style (seed * 1000 + i * 10 + style) (fileItems f)
      let expected := "|".intercalate (rendered.map fun x => spansDump x.2) ++ " diags=-"
      o.line (compileCase (if style == 0 then "canonical" else "layout") "spans" "-" (rendered.map (·.1)) expected)

end Slicec.Drv
