/- Cases for C02 (AST fidelity, projection `ast`) and C09 (spans, projection `spans`). -/
import SlicecVerif.Drv.Prog

namespace Slicec.Drv

open Slicec

/-- files without a module declaration: only file attributes (and comments) — valid, and the attributes are part of the file -/
def genC02Moduleless (o : Out) : IO Unit := do
  let fa1 : List Attr := [⟨"foo::bar", ["x \"y\""]⟩, ⟨"foo::baz", ["a", "b"]⟩]
  let fa2 : List Attr := [⟨"allow", ["All"]⟩]
  let bare (as : List Attr) : SFile := { fileAttrs := as, module := none, defs := [] }
  let normal : SFile := { fileAttrs := [⟨"cs::x", []⟩], module := some ⟨[], "Test"⟩, defs := [.struct [] [] false "S" []] }
  for p in [[bare fa1], [bare fa2], [bare []], [bare fa1, normal], [normal, bare fa1], [bare fa2, bare fa1, normal], [normal, bare [], bare fa2]] do
    for style in [0, 1, 2] do
      let texts := p.zipIdx.map fun (f, i) => (render style (17 + i + style) (fileItems f)).1
      o.line (compileCase "moduleless" "ast" "-" texts (astDump p))

def genC02 (tier : Tier) (seed : Nat) (o : Out) : IO Unit := do
  genC02Moduleless o
  let nProg := if tier == .thorough then 15000 else 1000
  let layouts := if tier == .thorough then 8 else 4
  let mut r := Rng.mk' (seed + 2)
  for i in [0:nProg] do
    let cfg : GenCfg := { maxFiles := 1 + i % 3, maxDefs := 1 + i % 5, typeDepth := i % 4 }
    let (p, r') := genProgram cfg r
    r := r'
    let expected := astDump p
    for style in [0:layouts] do
      let texts := p.map fun f => (render style (seed * 1000 + i * 10 + style) (fileItems f)).1
      o.line (compileCase (if style == 0 then "canonical" else "layout") "ast" "-" texts expected)

def genC09 (tier : Tier) (seed : Nat) (o : Out) : IO Unit := do
  let nProg := if tier == .thorough then 15000 else 1000
  let layouts := if tier == .thorough then 6 else 3
  let mut r := Rng.mk' (seed + 9)
  for i in [0:nProg] do
    let cfg : GenCfg := { maxFiles := 1 + i % 2, maxDefs := 1 + i % 5, typeDepth := i % 3 }
    let (p, r') := genProgram cfg r
    r := r'
    for style in [0:layouts] do
      let rendered := p.map fun f => render style (seed * 1000 + i * 10 + style) (fileItems f)
      let expected := "|".intercalate (rendered.map fun x => spansDump x.2) ++ " diags=-"
      o.line (compileCase (if style == 0 then "canonical" else "layout") "spans" "-" (rendered.map (·.1)) expected)

end Slicec.Drv
