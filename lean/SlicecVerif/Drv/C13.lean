/-
  Cases for C13 (lint suppression).

  engine `compile`, projections of harness/src/proj_c13.rs:
    c13:diags          code/level/span@file/scope of every diagnostic in recording order (expected from Model/Lints.lean)
    c13:diags-sorted   the same, sorted (random programs)
    c13:frame/…        the variant without the suppression travels in the projection name; the Rust side compiles both and
                       compares everything but levels and the attribute itself; expected `frame-ok changed=k errors=n`
  stream `C13cli` (procrun/c13_dup.py, real binary): clap's acceptance of `--allow` spellings, DuplicateFile, accepted spellings in any letter case name their lint.

  Every case of the ordinary families carries the expectation of the code's mirror (`lintDiags`), which must match.
  Where the level the PROPERTY demands (`demandedLevel`) differs from the mirror, the same input is emitted once more
  with the demanded expectation: in family `known-d13c` when the recorded scope key is shared by two elements
  (`scopeKeyUnique` fails — the open finding D-13c), in family `demanded` otherwise (nothing is expected there; a line
  in it is a new deviation from the property and shows up as a DIFF). `regress-d13a`: the inputs of the former finding
  D-13a (repaired by 7283de9) with the demanded expectation.
-/
import SlicecVerif.Model.Lints
import SlicecVerif.Drv.Prog

namespace Slicec.Drv

open Slicec

/-! ### editing programs -/

def addAttrField (key scope : String) (a : Attr) (f : Field) : Field :=
  if scopedId f.name scope == key then { f with attrs := f.attrs ++ [a] } else f

def addAttrParam (key scope : String) (a : Attr) (q : Param) : Param :=
  if scopedId q.name scope == key then { q with attrs := q.attrs ++ [a] } else q

def addIf (c : Bool) (as : List Attr) (a : Attr) : List Attr := if c then as ++ [a] else as

/-- append attribute `a` to the element whose parser-scoped identifier is `key` -/
def addAttrDef (ms key : String) (a : Attr) : Def → Def
  | .struct doc attrs c name fields =>
    let k := scopedId name ms
    .struct doc (addIf (k == key) attrs a) c name (fields.map (addAttrField key k a))
  | .iface doc attrs name bases ops =>
    let k := scopedId name ms
    .iface doc (addIf (k == key) attrs a) name bases (ops.map fun o =>
      let ok := scopedId o.name k
      { o with attrs := addIf (ok == key) o.attrs a, params := o.params.map (addAttrParam key ok a),
               ret := match o.ret with | .tuple ps => .tuple (ps.map (addAttrParam key ok a)) | r => r })
  | .enum doc attrs c u name und es =>
    let k := scopedId name ms
    .enum doc (addIf (k == key) attrs a) c u name und (es.map fun e =>
      let ek := scopedId e.name k
      { e with attrs := addIf (ek == key) e.attrs a, fields := e.fields.map fun fs => fs.map (addAttrField key ek a) })
  | .custom doc attrs name => .custom doc (addIf (scopedId name ms == key) attrs a) name
  | .alias doc attrs name ty => .alias doc (addIf (scopedId name ms == key) attrs a) name ty

def addAttrAt (p : Program) (key : String) (a : Attr) : Program :=
  p.map fun f => { f with defs := f.defs.map (addAttrDef (fileModScope f) key a) }

def addFileAttr (p : Program) (i : Nat) (a : Attr) : Program :=
  p.zipIdx.map fun (f, j) => if i == j then { f with fileAttrs := f.fileAttrs ++ [a] } else f

/-! ### expectations -/

def spanOf (recs : List SpanRec) (path : String) : String :=
  match recs.find? (fun r => r.path == path) with
  | some r => toString r.start.row ++ ":" ++ toString r.start.col ++ ":" ++ toString r.stop.row ++ ":" ++ toString r.stop.col
  | none => "?"

def entryOf (spans : List (List SpanRec)) (s : LintSite) (l : Level) : String :=
  let sp := if s.kind == "Deprecated" then spanOf (spans.getD s.file []) s.path else "*"
  s.kind ++ "/" ++ l.str ++ "/" ++ sp ++ "@string-" ++ toString s.file ++ "/" ++ (match s.scope with | some x => hs x | none => "-")

def errorEntry (file : Nat) : String := "error/E/*@string-" ++ toString file ++ "/-"

def joinEntries (es : List String) : String := if es.isEmpty then "-" else ";".intercalate es

def optsOf (cli : List String) : String := if cli.isEmpty then "-" else ";".intercalate (cli.map fun v => "A=" ++ v)

structure Rendered where
  texts : List String
  spans : List (List SpanRec)

def renderProg (style seed : Nat) (p : Program) : Rendered :=
  let rs := p.zipIdx.map fun (f, i) => render style (seed * 7 + i) (fileItems f)
  ⟨rs.map (·.1), rs.map (·.2)⟩

def filesField (texts : List String) : String := "|".intercalate (texts.map hexOfString)

/-- the text with the first occurrence of `pat` overwritten by blanks: same positions, one attribute less -/
def blankFirst (text pat : String) : String :=
  match text.splitOn pat with
  | a :: b :: rest => a ++ String.ofList (List.replicate pat.length ' ') ++ pat.intercalate (b :: rest)
  | _ => text

/-- source text of `allow(args)` as the canonical printer writes it -/
def allowText (args : List String) : String := "allow(" ++ ", ".intercalate args ++ ")"

/-- the variant WITHOUT the suppression for the frame check: the added attribute blanked out in place, so that every
    position stays what it was (`isFile`: written `[[…]]`) -/
def blankAllow (texts : List String) (isFile : Bool) (args : List String) : List String :=
  let pat := if isFile then "[[" ++ allowText args ++ "]]" else "[" ++ allowText args ++ "]"
  let rec go : List String → Bool → List String
    | [], _ => []
    | t :: ts, done => if !done && (t.splitOn pat).length > 1 then blankFirst t pat :: go ts true else t :: go ts done
  go texts false

/-- levels the code's mirror assigns, in `lintSites` order -/
def mirrorLevels (cli : List String) (p : Program) : List Level := (lintDiags cli p).map (·.level)

def demandedLevels (cli : List String) (p : Program) : List Level := (lintSites p).map (demandedLevel cli p)

def expectedWith (r : Rendered) (p : Program) (levels : List Level) : List String :=
  ((lintSites p).zip levels).map fun (s, l) => entryOf r.spans s l

/-! ### templates -/

structure Tmpl where
  name : String
  prog : Program
  /-- key of the element the lint concerns -/
  self : String
  /-- enclosing definitions that can carry attributes, innermost first -/
  enclosing : List String
  /-- an unrelated sibling element -/
  sibling : String
  deriving Inhabited

def tr (id : String) : TRef := .mk [] (.named id) false
def tb : TRef := .mk [] (.prim .bool) false
def ts : TRef := .mk [] (.prim .string) false
def fld (name : String) (ty : TRef) (doc : List String := []) : Field := { doc := doc, attrs := [], tag := none, name := name, ty := ty }
def prm (name : String) (ty : TRef) : Param := { attrs := [], tag := none, name := name, stream := false, ty := ty }
def opr (name : String) (ps : List Param) (ret : Ret) (doc : List String := []) : Op :=
  { doc := doc, attrs := [], idempotent := false, name := name, params := ps, ret := ret }
def dep : Attr := ⟨"deprecated", []⟩
def depStruct : Def := .struct [] [dep] false "Dep" [fld "x" tb]
def otherFile : SFile := { fileAttrs := [], module := some ⟨[], "M"⟩, defs := [.struct [] [] false "Other" [fld "y" tb]] }
def mk2 (defs : List Def) : Program := [{ fileAttrs := [], module := some ⟨[], "M"⟩, defs := defs }, otherFile]
def sib : Def := .custom [] [] "Sib"

def templates : List Tmpl := [
  -- Deprecated
  ⟨"dep-field", mk2 [depStruct, .struct [] [] false "S" [fld "f" (tr "Dep"), fld "g" tb]], "M::S::f", ["M::S"], "M::S::g"⟩,
  ⟨"dep-field-global", mk2 [depStruct, .struct [] [] false "S" [fld "g" tb, fld "f" (.mk [] (.named "::M::Dep") true)]], "M::S::f", ["M::S"], "M::S::g"⟩,
  ⟨"dep-param", mk2 [depStruct, .iface [] [] "I" [] [opr "op" [prm "p" (tr "Dep"), prm "q" tb] .none]], "M::I::op::p", ["M::I::op", "M::I"], "M::I::op::q"⟩,
  ⟨"dep-return", mk2 [depStruct, .iface [] [] "I" [] [opr "op" [] (.tuple [prm "r" (tr "Dep"), prm "s" tb])]], "M::I::op::r", ["M::I::op", "M::I"], "M::I::op::s"⟩,
  ⟨"dep-single-return", mk2 [depStruct, .iface [] [] "I" [] [opr "op" [prm "q" tb] (.single none false (tr "Dep")), opr "op2" [] .none]], "M::I::op", ["M::I"], "M::I::op2"⟩,
  ⟨"dep-alias", mk2 [depStruct, .alias [] [] "T" (tr "Dep"), sib], "M::T", [], "M::Sib"⟩,
  ⟨"dep-base", mk2 [.iface [] [dep] "DepI" [] [], .iface [] [] "I" [tr "DepI"] [], sib], "M::I", [], "M::Sib"⟩,
  ⟨"dep-enumerator-field", mk2 [depStruct, .enum [] [] false false "E" none
      [{ doc := [], attrs := [], name := "A", fields := some [fld "f" (tr "Dep")], value := none }, { doc := [], attrs := [], name := "B", fields := none, value := none }]],
    "M::E::A::f", ["M::E::A", "M::E"], "M::E::B"⟩,
  ⟨"dep-seq-field", mk2 [depStruct, .struct [] [] false "S" [fld "f" (.mk [] (.seq (tr "Dep")) false), fld "g" tb]], "M::S::f", ["M::S"], "M::S::g"⟩,
  ⟨"dep-dict-param", mk2 [depStruct, .iface [] [] "I" [] [opr "op" [prm "p" (.mk [] (.dict (.mk [] (.prim .string) false) (tr "Dep")) false)] .none, opr "op2" [] .none]],
    "M::I::op::p", ["M::I::op", "M::I"], "M::I::op2"⟩,
  ⟨"dep-alias-target", mk2 [.alias [] [dep] "DT" tb, .struct [] [] false "S" [fld "f" (tr "DT"), fld "g" tb]], "M::S::f", ["M::S"], "M::S::g"⟩,
  ⟨"dep-enum-custom", mk2 [.custom [] [dep] "DC", .struct [] [] false "S" [fld "f" (tr "DC"), fld "g" tb]], "M::S::f", ["M::S"], "M::S::g"⟩,
  -- references nested in anonymous types belong to the member whose type they are written in
  ⟨"dep-nested-field", mk2 [depStruct, .struct [] [] false "S" [fld "g" tb, fld "h" (.mk [] (.seq (.mk [] (.dict ts (tr "Dep")) false)) false)]],
    "M::S::h", ["M::S"], "M::S::g"⟩,
  ⟨"dep-result-field", mk2 [depStruct, .struct [] [] false "S" [fld "f" (.mk [] (.result (tr "Dep") (.mk [] (.seq (tr "Dep")) true)) false), fld "g" tb]],
    "M::S::f", ["M::S"], "M::S::g"⟩,
  ⟨"dep-nested-param", mk2 [depStruct, .iface [] [] "I" [] [opr "op" [prm "q" tb, prm "p" (.mk [] (.seq (.mk [] (.seq (tr "Dep")) false)) false)] (.single none false tb), opr "op2" [] .none]],
    "M::I::op::p", ["M::I::op", "M::I"], "M::I::op::q"⟩,
  ⟨"dep-nested-return", mk2 [depStruct, .iface [] [] "I" [] [opr "op" [prm "p" tb] (.tuple [prm "s" tb, prm "r" (.mk [] (.dict ts (.mk [] (.seq (tr "Dep")) false)) false)])]],
    "M::I::op::r", ["M::I::op", "M::I"], "M::I::op::p"⟩,
  ⟨"dep-nested-enumerator-field", mk2 [depStruct, .enum [] [] false false "E" none
      [{ doc := [], attrs := [], name := "A", fields := some [fld "g" tb, fld "f" (.mk [] (.seq (tr "Dep")) true)], value := none }, { doc := [], attrs := [], name := "B", fields := none, value := none }]],
    "M::E::A::f", ["M::E::A", "M::E"], "M::E::A::g"⟩,
  ⟨"dep-nested-alias", mk2 [depStruct, .alias [] [] "T" (.mk [] (.dict ts (.mk [] (.seq (tr "Dep")) false)) false), sib], "M::T", [], "M::Sib"⟩,
  ⟨"dep-alias-of-alias", mk2 [.alias [] [dep] "DT" tb, .alias [] [] "T" (tr "DT"), sib], "M::T", [], "M::Sib"⟩,
  -- a single unnamed return type is written in the operation's scope: the operation is the innermost element that can carry the attribute
  ⟨"dep-nested-single-return", mk2 [depStruct, .iface [] [] "I" [] [opr "op" [prm "q" tb] (.single none false (.mk [] (.seq (tr "Dep")) false)), opr "op2" [] .none]],
    "M::I::op", ["M::I"], "M::I::op::q"⟩,
  -- the same scope as before: bases and underlying types are written after the ContainerIdentifier of their definition
  ⟨"dep-two-bases", mk2 [.iface [] [dep] "DepI" [] [], .iface [] [] "J" [] [], .iface [] [] "I" [tr "J", tr "::M::DepI"] [opr "op" [] .none]], "M::I", [], "M::I::op"⟩,
  ⟨"dep-underlying", mk2 [.alias [] [dep] "DU" (.mk [] (.prim .uint8) false), .enum [] [] false false "E" (some (tr "DU"))
      [{ doc := [], attrs := [], name := "A", fields := none, value := none }], sib], "M::E", [], "M::E::A"⟩,
  -- names that repeat along the scope chain, a keyword as a member name, an enumerator named like a field of another one
  ⟨"dep-names-struct", mk2 [depStruct, .struct [] [] false "N" [fld "N" (tr "Dep"), fld "bool" (.mk [] (.seq (tr "Dep")) false)]], "M::N::N", ["M::N"], "M::N::bool"⟩,
  ⟨"dep-names-enum", mk2 [depStruct, .enum [] [] false false "E" none
      [{ doc := [], attrs := [], name := "A", fields := some [fld "A" (tr "Dep"), fld "x" (tr "Dep")], value := none },
       { doc := [], attrs := [], name := "x", fields := none, value := none },
       { doc := [], attrs := [], name := "B", fields := some [fld "x" (tr "Dep")], value := none }]],
    "M::E::A::A", ["M::E::A", "M::E"], "M::E::x"⟩,
  ⟨"dep-names-op", mk2 [depStruct, .iface [] [] "I" [] [opr "I" [prm "I" (tr "Dep"), { prm "op" (tr "Dep") with stream := true }] .none]],
    "M::I::I::I", ["M::I::I", "M::I"], "M::I::I::op"⟩,
  -- two members of one container, both deprecated: the attribute on one must not silence the other
  ⟨"dep-two-fields", mk2 [depStruct, .struct [] [] false "S" [fld "f" (tr "Dep"), fld "g" (.mk [] (.seq (tr "Dep")) false)]], "M::S::f", ["M::S"], "M::S::g"⟩,
  ⟨"dep-param-and-return", mk2 [depStruct, .iface [] [] "I" [] [opr "op" [prm "p" (tr "Dep")] (.tuple [prm "r" (tr "Dep"), prm "s" tb])]],
    "M::I::op::p", ["M::I::op", "M::I"], "M::I::op::r"⟩,
  -- BrokenDocLink
  ⟨"link-struct", mk2 [.struct [" See {@link Missing} here."] [] false "S" [fld "g" tb], sib], "M::S", [], "M::Sib"⟩,
  ⟨"see-field", mk2 [.struct [] [] false "S" [fld "f" tb [" A field.", " @see Missing"], fld "g" tb]], "M::S::f", ["M::S"], "M::S::g"⟩,
  ⟨"link-op", mk2 [.iface [] [] "I" [] [opr "op" [prm "p" tb] .none [" @param p: see {@link Missing::Thing}"], opr "op2" [] .none]], "M::I::op", ["M::I"], "M::I::op2"⟩,
  ⟨"link-enumerator", mk2 [.enum [] [] false false "E" none
      [{ doc := [" {@link Missing}"], attrs := [], name := "A", fields := none, value := none }, { doc := [], attrs := [], name := "B", fields := none, value := none }]],
    "M::E::A", ["M::E"], "M::E::B"⟩,
  ⟨"link-primitive", mk2 [.alias [" Not linkable: {@link bool}"] [] "T" tb, sib], "M::T", [], "M::Sib"⟩,
  -- IncorrectDocComment
  ⟨"param-op", mk2 [.iface [] [] "I" [] [opr "op" [prm "p" tb] .none [" @param x: no such parameter"], opr "op2" [] .none]], "M::I::op", ["M::I"], "M::I::op2"⟩,
  ⟨"returns-op", mk2 [.iface [] [] "I" [] [opr "op" [prm "p" tb] .none [" Does it.", " @returns: nothing at all"], opr "op2" [] .none]], "M::I::op", ["M::I"], "M::I::op2"⟩,
  ⟨"returns-named-op", mk2 [.iface [] [] "I" [] [opr "op" [] (.single none false tb) [" @returns foo: named"], opr "op2" [] .none]], "M::I::op", ["M::I"], "M::I::op2"⟩,
  ⟨"param-struct", mk2 [.struct [" @param x: structs have none"] [] false "S" [fld "g" tb], sib], "M::S", [], "M::Sib"⟩,
  ⟨"returns-field", mk2 [.struct [] [] false "S" [fld "f" tb [" @returns: fields return nothing"], fld "g" tb]], "M::S::f", ["M::S"], "M::S::g"⟩,
  -- MalformedDocComment
  ⟨"unterminated-struct", mk2 [.struct [" {@link"] [] false "S" [fld "g" tb], sib], "M::S", [], "M::Sib"⟩,
  ⟨"unknown-tag-field", mk2 [.struct [] [] false "S" [fld "f" tb [" @foo"], fld "g" tb]], "M::S::f", ["M::S"], "M::S::g"⟩,
  ⟨"text-after-see-op", mk2 [.iface [] [] "I" [] [opr "op" [] .none [" @see Other", " trailing text"], opr "op2" [] .none]], "M::I::op", ["M::I"], "M::I::op2"⟩,
  -- two lints of different kinds on one element
  ⟨"dep-and-link", mk2 [depStruct, .struct [] [] false "S" [fld "f" (tr "Dep") [" {@link Missing}"], fld "g" tb]], "M::S::f", ["M::S"], "M::S::g"⟩
]

inductive Place where
  | cli | file | encl (k : String) | self | sibling | otherFile
  deriving Repr

def Place.name : Place → String
  | .cli => "cli" | .file => "file" | .encl k => "encl:" ++ k | .self => "self" | .sibling => "sibling" | .otherFile => "otherfile"

def lintNames : List String := ["Deprecated", "BrokenDocLink", "IncorrectDocComment", "MalformedDocComment"]

def swapCase (s : String) : String :=
  String.ofList (s.toList.map fun c => if c.isUpper then c.toLower else if c.isLower then c.toUpper else c)

/-- (with-suppression program, command line) -/
def applyPlace (t : Tmpl) (pl : Place) (args : List String) : Program × List String :=
  let a : Attr := ⟨"allow", args⟩
  match pl with
  | .cli => (t.prog, args)
  | .file => (addFileAttr t.prog 0 a, [])
  | .encl k => (addAttrAt t.prog k a, [])
  | .self => (addAttrAt t.prog t.self a, [])
  | .sibling => (addAttrAt t.prog t.sibling a, [])
  | .otherFile => (addFileAttr t.prog 1 a, [])

def kindsOf (p : Program) : List String := (lintSites p).map (·.kind)

def countDiff (a b : List Level) : Nat := ((a.zip b).filter fun (x, y) => x != y).length

/-- one (template, placement, arguments) combination: mirror case, frame case, and the property-demanded case when
    the property and the code disagree -/
def emitCombo (o : Out) (t : Tmpl) (pl : Place) (args : List String) : IO Unit := do
  let (p, cli) := applyPlace t pl args
  let r := renderProg 0 0 p
  let baseTexts := match pl with
    | .cli => r.texts
    | .file | .otherFile => blankAllow r.texts true args
    | _ => blankAllow r.texts false args
  let mirror := mirrorLevels cli p
  let demanded := demandedLevels cli p
  let fam := "tmpl-" ++ (match pl with | .encl _ => "encl" | q => q.name)
  let tagTxt := t.name ++ ":" ++ pl.name ++ ":" ++ ",".intercalate args
  -- the tag travels as an (ignored) defined symbol so that every case line says what it is
  let opts := (if cli.isEmpty then "" else optsOf cli ++ ";") ++ "D=c13." ++ tagTxt
  o.line (compileCase fam "c13:diags" opts r.texts (joinEntries (expectedWith r p mirror)))
  let k := countDiff mirror (mirrorLevels [] t.prog)
  let entryArgs := match pl with | .cli => "-" | _ => ",".intercalate args
  o.line (compileCase "frame" ("c13:frame/-/" ++ filesField baseTexts ++ "/" ++ entryArgs) opts r.texts
    ("frame-ok changed=" ++ toString k ++ " errors=0"))
  -- the inputs of the former D-13a: the suppression sits on the member / alias whose own type is deprecated
  let isSelf := match pl with | .self => true | _ => false
  if isSelf && (kindsOf t.prog).headD "" == "Deprecated" && demanded != mirrorLevels [] t.prog then
    o.line (compileCase "regress-d13a" "c13:diags" opts r.texts (joinEntries (expectedWith r p demanded)))
  if mirror != demanded then
    let fam := if (lintSites p).all (scopeKeyUnique p) then "demanded" else "known-d13c"
    o.line (compileCase fam "c13:diags" opts r.texts (joinEntries (expectedWith r p demanded)))

def attrArgSets (k : String) : List (List String) :=
  let others := lintNames.filter (· != k)
  let o1 := others.getD 0 "Deprecated"
  let o2 := others.getD 1 "BrokenDocLink"
  [[k], ["All"], [o1], [o1, k], [o1, o2], [k, "All"]]

def cliArgSets (k : String) : List (List String) :=
  attrArgSets k ++ [[k.toLower], [k.toUpper], [swapCase k], ["all"], ["ALL"], ["aLL", (lintNames.filter (· != k)).getD 0 "Deprecated"]]

def genTemplates (o : Out) : IO Unit := do
  for t in templates do
    -- the kind the template is about = kind of its first lint site
    let k := (kindsOf t.prog).headD "Deprecated"
    let r := renderProg 0 0 t.prog
    o.line (compileCase "tmpl-none" "c13:diags" ("D=c13." ++ t.name) r.texts (joinEntries (expectedWith r t.prog (mirrorLevels [] t.prog))))
    -- the D-13c exclusion must not swallow anything here: every recorded scope key names one element
    if !((lintSites t.prog).all (scopeKeyUnique t.prog)) then
      o.line (tab ["K", "C13", "shared-key", "template " ++ t.name ++ ": a recorded scope key is shared by two elements"])
    for args in cliArgSets k do emitCombo o t .cli args
    for pl in [Place.file, .self, .sibling, .otherFile] ++ t.enclosing.map Place.encl do
      for args in attrArgSets k do emitCombo o t pl args

/-! ### errors are never silenced -/

def malformedEntry (scope : String) (l : Level) : String := "MalformedDocComment/" ++ l.str ++ "/*@string-0/" ++ hs scope

/-- hand-written programs that contain an error; expected entries written out (errors are printed with the code `error` and without scope) -/
def genErrors (o : Out) : IO Unit := do
  let all : Attr := ⟨"allow", ["All"]⟩
  let file0 (fa : List Attr) (defs : List Def) : Program := [{ fileAttrs := fa, module := some ⟨[], "M"⟩, defs := defs }]
  let missing (sa fa : List Attr) := file0 fa [.struct [" {@link"] sa false "S" [fld "f" (tr "Missing")]]
  let emit (name : String) (cli : List String) (p : Program) (base : Option Program) (entries : List String) (frameExp : String) : IO Unit := do
    let r := renderProg 0 0 p
    let opts := (if cli.isEmpty then "" else optsOf cli ++ ";") ++ "D=c13." ++ name
    o.line (compileCase "errors" "c13:diags" opts r.texts (joinEntries entries))
    match base with
    | some _ =>
      let baseTexts := if !cli.isEmpty then r.texts else
        let f := blankAllow r.texts true ["All"]
        if f != r.texts then f else blankAllow r.texts false ["All"]
      o.line (compileCase "frame-errors" ("c13:frame/-/" ++ filesField baseTexts ++ "/" ++ (if cli.isEmpty then "All" else "-")) opts r.texts frameExp)
    | none => pure ()
  -- an unresolvable type (error while patching) next to a malformed comment (lint while parsing)
  emit "missing-none" [] (missing [] []) none [malformedEntry "M::S" .warning, errorEntry 0] ""
  emit "missing-struct-all" [] (missing [all] []) (some (missing [] [])) [malformedEntry "M::S" .allowed, errorEntry 0] "frame-ok changed=1 errors=1"
  emit "missing-file-all" [] (missing [] [all]) (some (missing [] [])) [malformedEntry "M::S" .allowed, errorEntry 0] "frame-ok changed=1 errors=1"
  emit "missing-cli-all" ["All"] (missing [] []) (some (missing [] [])) [malformedEntry "M::S" .allowed, errorEntry 0] "frame-ok changed=1 errors=1"
  emit "missing-cli-everything" (["All"] ++ lintNames ++ ["DuplicateFile"]) (missing [all] [all]) none [malformedEntry "M::S" .allowed, errorEntry 0] ""
  -- `allow` arguments that are not allowable: an error, and patching stops before any Deprecated lint is recorded
  for bad in ["deprecated", "DuplicateFile", "Nonsense", "all", "E033"] do
    emit ("badarg-" ++ bad) [] (file0 [] [depStruct, .struct [] [⟨"allow", [bad]⟩] false "S" [fld "f" (tr "Dep")]]) none [errorEntry 0] ""
    emit ("badarg-file-" ++ bad) [] (file0 [⟨"allow", [bad]⟩] [depStruct, .struct [] [] false "S" [fld "f" (tr "Dep")]]) none [errorEntry 0] ""
  emit "noargs" [] (file0 [] [depStruct, .struct [] [⟨"allow", []⟩] false "S" [fld "f" (tr "Dep")]]) none [errorEntry 0] ""
  -- `allow` where it cannot be applied (module, type reference): reported during validation, the lint stays a warning
  let depEntry (r : Rendered) (path : String) (l : Level) := "Deprecated/" ++ l.str ++ "/" ++ spanOf (r.spans.getD 0 []) path ++ "@string-0/" ++ hs (memberTypeScope "M::S" "f")
  let pMod : Program := [{ fileAttrs := [], module := some ⟨[all], "M"⟩, defs := [depStruct, .struct [] [] false "S" [fld "f" (tr "Dep")]] }]
  emit "allow-on-module" [] pMod none [depEntry (renderProg 0 0 pMod) "d1.f0.t" .warning, errorEntry 0] ""
  let pRef := file0 [] [depStruct, .struct [] [] false "S" [fld "f" (.mk [all] (.named "Dep") false)]]
  emit "allow-on-typeref" [] pRef none [depEntry (renderProg 0 0 pRef) "d1.f0.t" .warning, errorEntry 0] ""

/-! ### random programs with many lints -/

def docCatalogue : List (List String) :=
  [[" See {@link Missing} here."], [" Two: {@link Missing} and {@link AlsoMissing}."], [" @see Missing"], [" @param nope: no such parameter."],
   [" @returns: what is returned."], [" @returns foo: named."], [" {@link Unterminated"], [" @foo bar"], [" @see Missing", " text after see"],
   [" @param nope: bad {@link Missing::Link}", " continued"], [" { not a tag } and {@link bool}"], [" @param nope", " @returns", " @see ::Nowhere"]]

def allowArgCatalogue : List (List String) :=
  [["All"], ["Deprecated"], ["BrokenDocLink"], ["IncorrectDocComment"], ["MalformedDocComment"], ["Deprecated", "BrokenDocLink"],
   ["MalformedDocComment", "IncorrectDocComment"], ["BrokenDocLink", "All"]]

def cliCatalogue : List (List String) :=
  [[], [], [], ["Deprecated"], ["All"], ["BrokenDocLink"], ["IncorrectDocComment", "MalformedDocComment"], ["deprecated"], ["ALL"],
   ["DuplicateFile"], ["brokendoclink", "Deprecated"]]

def maybeAllow (as : List Attr) : G (List Attr) := do
  if ← coin 1 5 then return as ++ [⟨"allow", ← pickG allowArgCatalogue⟩] else return as

def maybeDoc (known : List String) (doc : List String) : G (List String) := do
  if ← coin 1 3 then
    let c ← below (docCatalogue.length + 1)
    if c == docCatalogue.length then
      let k ← pickG (known ++ ["Missing"])
      return doc ++ [" Good link? {@link " ++ k ++ "}"]
    else return doc ++ docCatalogue.getD c []
  else return doc

def decoField (known : List String) (f : Field) : G Field := do
  return { f with doc := ← maybeDoc known f.doc, attrs := ← maybeAllow f.attrs }

def decoParam (q : Param) : G Param := do return { q with attrs := ← maybeAllow q.attrs }

def decoDef (known : List String) (d : Def) : G Def := do
  let depA : List Attr ← (do if ← coin 1 3 then return [dep] else return [])
  match d with
  | .struct doc attrs c name fields =>
    let mut fs := []
    for f in fields do fs := fs ++ [← decoField known f]
    return .struct (← maybeDoc known doc) (← maybeAllow (attrs ++ depA)) c name fs
  | .iface doc attrs name bases ops =>
    let mut os := []
    for o in ops do
      let mut ps := []
      for q in o.params do ps := ps ++ [← decoParam q]
      let ret ← (match o.ret with
        | .tuple rs => do
          let mut out := []
          for q in rs do out := out ++ [← decoParam q]
          pure (Ret.tuple out)
        | x => pure x)
      os := os ++ [{ o with doc := ← maybeDoc known o.doc, attrs := ← maybeAllow o.attrs, params := ps, ret := ret }]
    return .iface (← maybeDoc known doc) (← maybeAllow (attrs ++ depA)) name bases os
  | .enum doc attrs c u name und es =>
    let mut out := []
    for e in es do
      let fs ← (match e.fields with
        | some fs => do
          let mut o2 := []
          for f in fs do o2 := o2 ++ [← decoField known f]
          pure (some o2)
        | none => pure none)
      out := out ++ [{ e with doc := ← maybeDoc known e.doc, attrs := ← maybeAllow e.attrs, fields := fs }]
    return .enum (← maybeDoc known doc) (← maybeAllow (attrs ++ depA)) c u name und out
  | .custom doc attrs name => return .custom (← maybeDoc known doc) (← maybeAllow (attrs ++ depA)) name
  | .alias doc attrs name ty => return .alias (← maybeDoc known doc) (← maybeAllow (attrs ++ depA)) name ty

def decorate (p : Program) (r : Rng) : Program × List String × Rng :=
  let known := p.flatMap fun f => f.defs.map Def.name
  let act : G (Program × List String) := do
    let mut fs := []
    for f in p do
      let mut ds := []
      for d in f.defs do ds := ds ++ [← decoDef known d]
      let fa ← (do if ← coin 1 5 then return f.fileAttrs ++ [⟨"allow", ← pickG allowArgCatalogue⟩] else return f.fileAttrs)
      fs := fs ++ [{ f with fileAttrs := fa, defs := ds }]
    let cli ← pickG cliCatalogue
    return (fs, cli)
  let ((q, cli), st) := act.run { rng := r }
  (q, cli, st.rng)

def genRandom (tier : Tier) (seed : Nat) (o : Out) : IO Unit := do
  let n := if tier == .thorough then 12000 else 1000
  let mut r := Rng.mk' (seed + 13)
  for i in [0:n] do
    let cfg : GenCfg := { maxFiles := 1 + i % 3, maxDefs := 2 + i % 5, typeDepth := i % 3, maxMembers := 3 }
    let (p0, r1) := genProgram cfg r
    let (p, cli, r2) := decorate p0 r1
    r := r2
    let rd := renderProg (i % 3) (seed * 1000 + i) p
    let expected := joinEntries (sortStrings (expectedWith rd p (mirrorLevels cli p)))
    o.line (compileCase "random" "c13:diags-sorted" (optsOf cli) rd.texts expected)
    if !((lintSites p).all (scopeKeyUnique p)) then
      o.line (tab ["K", "C13", "shared-key", "random program " ++ toString i ++ ": a recorded scope key is shared by two elements (generated names are unique)"])
    -- the level the property demands, whenever the mirror deviates from it (never, unless two elements share a key)
    if mirrorLevels cli p != demandedLevels cli p then
      let fam := if (lintSites p).all (scopeKeyUnique p) then "demanded" else "known-d13c"
      o.line (compileCase fam "c13:diags-sorted" (optsOf cli) rd.texts (joinEntries (sortStrings (expectedWith rd p (demandedLevels cli p)))))
    -- frame on the random program: the same program with every `allow` attribute removed … is not "one attribute";
    -- instead add one more attribute at the file and compare (k from the model)
    if i % 4 == 0 then
      let args := allowArgCatalogue.getD (i / 4 % allowArgCatalogue.length) ["All"]
      let p' := p.zipIdx.map fun (f, j) => if j == 0 then { f with fileAttrs := ⟨"allow", args⟩ :: f.fileAttrs } else f
      let rd' := renderProg 0 0 p'
      let rb : Rendered := ⟨blankAllow rd'.texts true args, []⟩
      let k := countDiff (mirrorLevels cli p') (mirrorLevels cli p)
      o.line (compileCase "frame-random" ("c13:frame/" ++ optsOf cli ++ "/" ++ filesField rb.texts ++ "/" ++ ",".intercalate args) (optsOf cli) rd'.texts
        ("frame-ok changed=" ++ toString k ++ " errors=0"))

/-! ### D-13c: a parameter and a return member of one operation with the same name share their scope key -/

def prmA (attrs : List Attr) (name : String) (ty : TRef) : Param := { attrs := attrs, tag := none, name := name, stream := false, ty := ty }

/-- operations in which the lookup key of a parameter's scope is (or is not) shared with a return member -/
def d13cOps (a : Attr) : List (String × Op) :=
  let sq := TRef.mk [] (.seq (tr "Dep")) false
  [("param-allow-ignored", opr "op" [prmA [a] "a" (tr "Dep")] (.tuple [prm "a" (tr "Dep"), prm "b" tb])),
   ("return-allow-leaks", opr "op" [prm "a" (tr "Dep")] (.tuple [prmA [a] "a" (tr "Dep"), prm "b" tb])),
   ("return-allow-leaks-onto-clean-return", opr "op" [prm "a" (tr "Dep")] (.tuple [prmA [a] "a" tb, prm "b" (tr "Dep")])),
   ("nested", opr "op" [prm "x" tb, prmA [a] "a" sq] (.tuple [prm "b" (tr "Dep"), prm "a" (.mk [] (.dict ts (tr "Dep")) false)])),
   ("both-allow", opr "op" [prmA [a] "a" (tr "Dep")] (.tuple [prmA [a] "a" (tr "Dep"), prm "b" tb])),
   ("param-named-returnValue", opr "op" [prmA [a] "returnValue" (tr "Dep")] (.single none false tb)),
   ("param-named-returnValue-dep-return", opr "op" [prmA [a] "returnValue" tb] (.single none false (tr "Dep"))),
   ("param-named-returnValue-both", opr "op" [prmA [a] "returnValue" (tr "Dep")] (.single none false (tr "Dep"))),
   -- not D-13c: different names / the attribute on the operation
   ("distinct-names", opr "op" [prmA [a] "a" (tr "Dep")] (.tuple [prm "c" (tr "Dep"), prm "b" tb])),
   ("on-operation", { opr "op" [prm "a" (tr "Dep")] (.tuple [prm "a" (tr "Dep"), prm "b" tb]) with attrs := [a] })]

def genD13c (o : Out) : IO Unit := do
  for args in [["Deprecated"], ["All"], ["BrokenDocLink"], ["IncorrectDocComment", "Deprecated"]] do
    for (nm, op) in d13cOps ⟨"allow", args⟩ do
      let p := mk2 [depStruct, .iface [] [] "I" [] [op, opr "op2" [] .none]]
      let r := renderProg 0 0 p
      let opts := "D=c13.d13c." ++ nm ++ ":" ++ ",".intercalate args
      let mirror := mirrorLevels [] p
      let demanded := demandedLevels [] p
      o.line (compileCase "d13c" "c13:diags" opts r.texts (joinEntries (expectedWith r p mirror)))
      if mirror != demanded then
        let fam := if (lintSites p).all (scopeKeyUnique p) then "demanded" else "known-d13c"
        o.line (compileCase fam "c13:diags" opts r.texts (joinEntries (expectedWith r p demanded)))

/-- the witness sites quoted in Props/C13.lean are what `lintSites` computes (a `K` line = model-level failure) -/
def checkWitnesses (o : Out) : IO Unit := do
  if !(lintSites d13aProgram == [d13aSite]) then
    o.line (tab ["K", "C13", "d13a-witness", "lintSites d13aProgram is not [d13aSite]"])
  if !(lintSites d13bProgram == [d13bSite]) then
    o.line (tab ["K", "C13", "d13b-witness", "lintSites d13bProgram is not [d13bSite]"])
  if !((lintSites d13cProgram).head? == some d13cSite) then
    o.line (tab ["K", "C13", "d13c-witness", "the first lint site of d13cProgram is not d13cSite"])
  if !((lintSites d13cProgram2).head? == some d13cSite2) then
    o.line (tab ["K", "C13", "d13c-witness2", "the first lint site of d13cProgram2 is not d13cSite2"])
  -- and the real compiler records the same (mirror expectation, must match)
  for (p, nm) in [(d13aProgram, "witness-d13a"), (d13bProgram, "witness-d13b"), (d13cProgram, "witness-d13c"), (d13cProgram2, "witness-d13c2")] do
    let r := renderProg 0 0 p
    o.line (compileCase "witness" "c13:diags" ("D=c13." ++ nm) r.texts (joinEntries (expectedWith r p (mirrorLevels [] p))))
  -- the D-13c witnesses with the level the property demands
  for (p, nm) in [(d13cProgram, "witness-d13c"), (d13cProgram2, "witness-d13c2")] do
    let r := renderProg 0 0 p
    o.line (compileCase "known-d13c" "c13:diags" ("D=c13." ++ nm) r.texts (joinEntries (expectedWith r p (demandedLevels [] p))))

def genC13 (tier : Tier) (seed : Nat) (o : Out) : IO Unit := do
  checkWitnesses o
  genTemplates o
  genD13c o
  genErrors o
  genRandom tier seed o

/-! ### stream `C13cli`: the real binary (procrun/c13_dup.py) -/

/-- what the binary prints with `--diagnostic-format json` for a list of diagnostics: `code:severity` of the non-allowed ones -/
def emittedOf (ds : List Diag) : String :=
  let es := (ds.filter fun d => d.level != .allowed).map fun d => (if d.isError then "error" else d.code) ++ ":" ++ (if d.level == .error then "error" else "warning")
  if es.isEmpty then "-" else ",".intercalate es

def cliCase (fam scenario : String) (values : List String) (expected : String) : String :=
  tab ["cli", fam, scenario, if values.isEmpty then "-" else ",".intercalate (values.map fun v => if v.isEmpty then "e" else hexOfString v), expected]

/-- scenarios run by the python side:
    `dup`        `slicec a.slice a.slice`                       → one DuplicateFile lint (no span, no scope)
    `dup-attr`   the same with `[[allow(All)]]` in a.slice      → the file attribute is not consulted (no span)
    `dep`        a file using a deprecated struct as field type → one Deprecated lint -/
def genC13cli (_tier : Tier) (_seed : Nat) (o : Out) : IO Unit := do
  let spellings := Gen.allowableLintIdentifiers.flatMap fun id => [id, id.toLower, id.toUpper, swapCase id]
  let junk := ["", "Al", "Alll", "All ", " All", "Deprecate", "E033", "Warnings", "deprecated,All", "Δeprecated", "DeprecatedK"]
  let valueSets : List (List String) := [[]] ++ (spellings ++ junk).map (fun v => [v]) ++
    [["Deprecated", "DuplicateFile"], ["all", "Nonsense"], ["BrokenDocLink", "IncorrectDocComment", "MalformedDocComment"], ["ALL", "duplicatefile"]]
  for (scenario, ds, fileAllows, scopeAllows) in
      [("dup", [duplicateFileDiag], ([] : List (List String)), (none : Option (List (List String)))),
       ("dup-attr", [duplicateFileDiag], [["All"]], none),
       ("dep", [Diag.lint "Deprecated" (some 0) (some "M::S")], [], some [])] do
    for vs in valueSets do
      let env : AllowEnv := ⟨vs, fun _ => fileAllows, fun _ => scopeAllows⟩
      match cliParse vs with
      | none => o.line (cliCase "usage-error" scenario vs "exit=2 diags=-")
      | some stored =>
        let mirror := intoUpdated { env with cli := stored } ds
        o.line (cliCase ("accepted-" ++ scenario) scenario vs ("exit=" ++ (if exitFails mirror then "1" else "0") ++ " diags=" ++ emittedOf mirror))
        -- what the property demands: an accepted value names its lint whatever its letter case
        let demanded := ds.map fun d => if namedByCli vs d.code then { d with level := Level.allowed } else (updateOne { env with cli := stored } d)
        if demanded != mirror then
          o.line (cliCase "demanded" scenario vs ("exit=" ++ (if exitFails demanded then "1" else "0") ++ " diags=" ++ emittedOf demanded))

end Slicec.Drv
