/- Cases for C02, stream `C02lex`: the model of the Slice lexer (Model/SliceLexer.lean) against the real lexer
   (engine `slicelex`, hook `verif_hooks::lex_slice`). Case line: `lex <fam> <text hex> <expected stream>`.
   Families: `soup` (bounded-exhaustive sequences of lexical pieces), `malformed` (catalogue of malformed / boundary
   literals, every `White_Space` code point and near misses, attribute mode), `rendered` (generated programs in
   several layouts; also checks the side condition of the layout theorem on them), `random` (random piece soups). -/
import SlicecVerif.Drv.Prog
import SlicecVerif.Model.SliceLexer

namespace Slicec.Drv.C02L

open Slicec Slicec.SLex Slicec.Drv

def hexChars (cs : List Char) : String := hexOfString (String.ofList cs)

def showTok : SliceTok → String
  | .ident s => "I:" ++ hexChars s
  | .strLit s => "S:" ++ hexChars s
  | .intLit s => "N:" ++ hexChars s
  | .doc s => "D:" ++ hexChars s
  | .kw k => k
  | .lparen => "LeftParenthesis" | .rparen => "RightParenthesis"
  | .lbracket => "LeftBracket" | .rbracket => "RightBracket"
  | .dlbracket => "DoubleLeftBracket" | .drbracket => "DoubleRightBracket"
  | .lbrace => "LeftBrace" | .rbrace => "RightBrace"
  | .lchevron => "LeftChevron" | .rchevron => "RightChevron"
  | .comma => "Comma" | .colon => "Colon" | .dcolon => "DoubleColon" | .equals => "Equals"
  | .qmark => "QuestionMark" | .arrow => "Arrow" | .minus => "Minus"

def showErr : LexErr → String
  | .unknownSymbol s sugg => "E:UnknownSymbol:" ++ hexChars s ++ ":" ++ (match sugg with | some x => hexOfString x | none => "~")
  | .unterminatedString => "E:UnterminatedStringLiteral"
  | .unterminatedBlockComment => "E:UnterminatedBlockComment"

def showLexItem : LexItem → String
  | .tok t => showTok t
  | .err e => showErr e

def showStream (items : List LexItem) : String :=
  if items.isEmpty then "-" else ",".intercalate (items.map showLexItem)

def lexCase (fam : String) (text : String) : String :=
  tab ["lex", fam, hexOfString text, showStream (lexRun false text.toList).items]

/-- the lexical pieces the soups are made of -/
def lexPieces : List String :=
  ["(", ")", "[", "]", "{", "}", "<", ">", ",", ":", "=", "?", "-", "::", "->", "[[", "]]",
   "a", "struct", "tag", "\\struct", "\\x_1", "Z9_", "_", "\\", "\\9", "\\_",
   "0", "1a_", "0x1F", "9é",
   "\"s\"", "\"a\\\"b\"", "\"\\\\\"", "\"", "\"\\", "\"x\\\n",
   "/", "//", "///", "////", "/*", "*/", "/**/", "/*/", "/* * / */", "*",
   " ", "\n", "\t", "\r\n", "\u00a0", "\u2028", "\u200b",
   "é", "$", "#", "@", "'", "."]

def malformedCatalogue : List String :=
  [ -- strings
    "\"abc", "\"abc\n\"", "\"a\\\nb\"", "\"a\\", "\"a\\\\", "\"a\\\\\"", "\"a\\\\\\\"", "\"a\\\\\\\"\"", "\"\\n\"", "\"é✓\"", "\"/*\" x",
    "\"//\" x", "\"a\rb\"", "\"\"\"\"", "\"a\" \"b\"", "x\"y\"z", "\"a\u2028b\"", "\"a\u0085b\"", "\"tab\tx\"",
    -- comments
    "/* a", "/* a *", "/* a * /", "/* /* a */ b */", "/*/ x", "/**/x", "/***/x", "/** /x", "a/*b*/c", "a//b\nc", "a///b\nc", "a////b\nc",
    "///", "///\n", "/// a\n/// b\n", "//", "//\n", "///a\r\nb", "/// é✓ \n x", "a / b", "a /", "/ /", "/// /* x\n y */", "/* /// x\n */ y",
    "//// a\n b", "///// a\n b", "/* * */", "/* ** /*/ x", "x /*", "/*\n\n*/ x", "//a\u2028b", "///a\u2028b",
    -- identifiers and escapes
    "\\", "\\ x", "\\\\x", "\\1x", "\\_x", "\\é", "\\x\\y", "\\struct", "\\struct struct", "x\\y", "a_b_", "_a", "a__", "A1", "aé", "éa", "aΩb",
    "ａ", "a\u200bb", "a\u00a0b", "int", "int8", "int88", "Int8", "INT8", "structs", "structstruct", "string_", "\\x ::y", "x:: y", "x : :y",
    "x:::y", "x::::y", "::x", "x::",
    -- integers
    "0", "00", "0x", "0xZZ", "1_000", "1__", "1é", "1.5", "-1", "- 1", "--1", "->1", "-->", "->>", "1a2b", "0b102", "9223372036854775808999",
    "١٢٣", "1\\x", "12x::y",
    -- punctuation pairs
    "[[[", "]]]", "[ [", "] ]", "[[ ]]", "[]", "[[]]", "[[[[", "]]]]", ":::", ": :", "- >", "-->", "<>", "<<>>", "?,=", "(){}<>,=?",
    -- attribute mode
    "[struct]", "[[struct]] struct", "[ struct", "] struct", "[a struct ] struct", "[struct(tag, \"x\")] tag", "[[a]] [b] tag(1) x: int32",
    "[a\n struct\n] struct", "[a // c\n struct] struct", "[a] [ b ] [[c]] struct", "[\\struct] \\struct", "[struct", "[[x] y ]] struct",
    "[a(\"unterminated)] struct", "[a $ struct] struct", "[a /* ] */ struct ] struct",
    "[cs::custom(string, module)] string", "[[rust::module::tag]]\nmodule M", "[\n// c\ncs::struct\n(\nstring\n,\n/* x */ module\n)\n]\nstruct S {}",
    "[[\r\ncustom::string\r\n]]\r\ncustom C", "[ x::Sequence ( Sequence ) ] Sequence<bool>", "[a]\n[b\n]\nstruct", "[[a\n]] tag [b\n\n tag] tag",
    -- a lone carriage return does not end a line comment or a doc comment
    "// a\r b\n c", "/// a\r b\n c", "a // x\r y: bool\n z", "//\r\nx", "//\rx", "///\rx\ny", "\"a\rb\" // c\r d", "/* \r */ x", "// a\r\r\n x",
    -- unknown symbols
    "$", "a$b", "#define X", "@", "`", "'a'", "a.b", "a;b", "a|b", "a&b", "a+b", "a*b", "a%b", "a^b", "a~b", "a!b", "\u0000", "\u0007",
    "\u007f", "\ufeff", "\u200b", "\u180e", "\u2060", "😀", "a😀b",
    -- whitespace: every `White_Space` code point between two words
    "a\u0009b", "a\u000ab", "a\u000bb", "a\u000cb", "a\u000db", "a\u0020b", "a\u0085b", "a\u00a0b", "a\u1680b", "a\u2000b", "a\u2001b", "a\u2002b",
    "a\u2003b", "a\u2004b", "a\u2005b", "a\u2006b", "a\u2007b", "a\u2008b", "a\u2009b", "a\u200ab", "a\u2028b", "a\u2029b", "a\u202fb", "a\u205fb",
    "a\u3000b", "a\u001cb", "a\u001fb", "a\u0008b", "a\u000eb", "a\u0084b", "a\u0086b", "a\u009fb", "a\u00a1b", "a\u167fb", "a\u1681b", "a\u1fffb",
    "a\u200bb", "a\u2027b", "a\u202ab", "a\u202eb", "a\u2030b", "a\u205eb", "a\u2060b", "a\u2fffb", "a\u3001b",
    "", " ", "\n", " \n\t\r ", "\u3000\u2028" ]

/-- all sequences of exactly `n` pieces -/
def soups : Nat → List String
  | 0 => [""]
  | n + 1 => (soups n).flatMap fun s => lexPieces.map fun p => s ++ p

end Slicec.Drv.C02L

namespace Slicec.Drv

open Slicec Slicec.SLex Slicec.Drv.C02L

def genC02lex (tier : Tier) (seed : Nat) (o : Out) : IO Unit := do
  -- bounded-exhaustive soups, smallest first
  let maxLen := if tier == .thorough then 3 else 2
  for n in [0:maxLen + 1] do
    for s in soups n do o.line (lexCase "soup" s)
  -- catalogue, alone and followed / preceded by a token
  for s in malformedCatalogue do
    o.line (lexCase "malformed" s)
    o.line (lexCase "malformed" (s ++ " struct"))
    o.line (lexCase "malformed" ("[x " ++ s))
    o.line (lexCase "malformed" (s ++ "\n" ++ s))
  -- generated programs, rendered; the side condition of the layout theorem must hold on them, and the tokens must be
  -- the ones `tokensWith` names for some choice of the optional commas (both are theorems; `K` lines would show a
  -- disagreement between the theorem's hypotheses and the generator)
  let nProg := if tier == .thorough then 4000 else 400
  let layouts := if tier == .thorough then 6 else 3
  let mut r := Rng.mk' (seed + 202)
  for i in [0:nProg] do
    let cfg : GenCfg := { maxFiles := 1 + i % 2, maxDefs := 1 + i % 4, typeDepth := i % 4 }
    let (p, r') := genProgram cfg r
    r := r'
    for f in p do
      let items := fileItems f
      if !(fileOk f) then
        o.line (tab ["K", "C02lex", "fileOk", hexOfString (printFile f), "a generated program does not satisfy the well-formedness condition fileOk of the layout theorem"])
      if !(itemsOk items) then
        o.line (tab ["K", "C02lex", "itemsOk", hexOfString (printFile f), "a generated program does not satisfy the side condition itemsOk of the layout theorem"])
      for style in [0:layouts] do
        let text := (render style (seed * 1000 + i * 10 + style) items).1
        o.line (lexCase (if style == 0 then "rendered-canonical" else "rendered-layout") text)
        if style == 0 && lexSlice text.toList != .ok (tokensOf items) then
          o.line (tab ["K", "C02lex", "tokensOf", hexOfString text, "the canonical text does not lex to tokensOf"])
  -- random soups
  let nRand := if tier == .thorough then 120000 else 12000
  for _ in [0:nRand] do
    let (len, r1) := r.below 9
    r := r1
    let mut s := ""
    for _ in [0:len + 3] do
      let (p, r2) := r.pick lexPieces
      r := r2
      s := s ++ p
    o.line (lexCase "random" s)

end Slicec.Drv
