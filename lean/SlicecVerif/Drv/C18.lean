/-
  Case generation for C18 — a failing generator is reported, never fatal, never half-trusted.
  Line format: see `Drv/Driver.lean`. The program is always one clean file; 1..3 generators are drawn from a
  behaviour catalogue (valid replies built with `encReply`, every truncation of a valid reply, corrupted
  replies, process-level failures) and combined with output-directory situations.
-/
import SlicecVerif.Drv.Driver

namespace Slicec.Drv.Proc

open Slicec Slicec.Drv Slicec.Driver

/-- files of generator `i`: two of its own, plus `common.txt` which every generator writes (identical
    content for generators 0 and 1, different for 2) -/
def fileA (i : Nat) : GenFile := gf s!"a{i}.cs" s!"alpha {i}\n"
def fileB (i : Nat) : GenFile := gf s!"b{i}.cs" s!"// béta {i}"
def fileCommon (i : Nat) : GenFile := gf "common.txt" (if i == 2 then "two" else "shared")
/-- a file in a sub-directory that does not exist: `File::create` fails, the other files are still written -/
def fileSub (i : Nat) : GenFile := gf s!"nosuchdir/y{i}.txt" "y"

def diagsSample : List GDiag := [⟨2, b "boom", some (b "f.slice")⟩, ⟨0, b "info", none⟩]

def validReply (i : Nat) : Bytes := reply [fileA i, fileB i] (diagsSample.take 1)

def filesPart (fs : List GenFile) : Bytes := (withSize fs.length (encList encGenFile fs)).getD []
def str (s : Bytes) : Bytes := (withSize s.length (some s)).getD []

/-- corrupted replies; every one starts like a valid reply with one file -/
def badBool (i : Nat) : Bytes := filesPart [fileA i] ++ [4] ++ [2, 1] ++ str (b "m") ++ tagEnd
def badLevel (i : Nat) : Bytes := filesPart [fileA i] ++ [4] ++ [0, 3] ++ str (b "m") ++ tagEnd
def badUtf8Path (_ : Nat) : Bytes := [4] ++ str [0xC3, 0x28] ++ str (b "x") ++ tagEnd ++ [0]
def badUtf8Message (i : Nat) : Bytes := filesPart [fileA i] ++ [4] ++ [0, 1] ++ str [0xFF] ++ tagEnd
/-- a string size prefix announcing 63 bytes with fewer available -/
def bigSize (i : Nat) : Bytes := filesPart [fileA i] ++ [4] ++ [0, 1] ++ [0xFC] ++ b "short"
/-- an element count of 2^62 − 1 -/
def hugeCount (_ : Nat) : Bytes := [0xFF, 0xFF, 0xFF, 0xFF, 0xFF, 0xFF, 0xFF, 0xFF, 0, 0]
/-- second sequence missing altogether -/
def noDiagSeq (i : Nat) : Bytes := filesPart [fileA i]

/-- behaviours by name, for generator index `i` -/
def okCatalogue (i : Nat) : List (String × BehSpec) := [
  ("ok0", okBeh []),
  ("ok1", okBeh [fileA i]),
  ("ok2d", .x 0 [] (validReply i)),
  ("ok-trailing", .x 0 [] (reply [fileA i] [] ++ [1, 2, 3])),
  ("ok-sub", okBeh [fileSub i, fileB i]),
  ("ok-common", okBeh [fileCommon i, fileA i])]

def failCatalogue (i : Nat) : List (String × BehSpec) := [
  ("missing", .missing),
  ("noexec", .noexec),
  ("exit1", .x 1 [] []),
  ("exit255", .x 255 [] []),
  ("exit1+reply", .x 1 [] (validReply i)),
  ("exit255+reply", .x 255 [] (validReply i)),
  ("kill9", .s 9 [] []),
  ("kill9+reply", .s 9 [] (validReply i)),
  ("segv", .s 11 [] []),
  ("stderr0", .x 0 (b "generator: something went wrong\n") []),
  ("stderr0+reply", .x 0 (b "warning: odd\n") (validReply i)),
  ("stderr3", .x 3 (b "fatal\n") []),
  ("nostdin1", .n 1 []),
  ("empty", .x 0 [] []),
  ("trunc-mid", .x 0 [] ((validReply i).take ((validReply i).length / 2))),
  ("trunc-last", .x 0 [] ((validReply i).take ((validReply i).length - 1))),
  ("bad-bool", .x 0 [] (badBool i)),
  ("bad-level", .x 0 [] (badLevel i)),
  ("bad-utf8-path", .x 0 [] (badUtf8Path i)),
  ("bad-utf8-msg", .x 0 [] (badUtf8Message i)),
  ("big-size", .x 0 [] (bigSize i)),
  ("huge-count", .x 0 [] (hugeCount i)),
  ("no-diag-seq", .x 0 [] (noDiagSeq i))]

/-- closes stdin unread and exits 0 with a valid reply: honoured or reported, depending on the pipe -/
def nostdin0 (i : Nat) : String × BehSpec := ("nostdin0", .n 0 (reply [fileA i] []))

def catalogue (i : Nat) : List (String × BehSpec) := okCatalogue i ++ failCatalogue i

def argsOf (i : Nat) : List (String × String) :=
  match i with
  | 0 => []
  | 1 => [("lang", "cs"), ("v", "")]
  | _ => [("é", "ü ñ")]

def mkGen (i : Nat) (nb : String × BehSpec) : GenSpec := ⟨s!"g{i}", argsOf i, nb.2⟩

/-- output-directory situations; generator 0's files are the ones found identical / different -/
def outSituations : List (String × OutSpec) :=
  let a0 := (fileA 0).contents
  [("given", ⟨"d", "out", []⟩),
   ("absent", ⟨"a", "", []⟩),
   ("notdir", ⟨"f", "blk/sub", []⟩),
   ("nodir", ⟨"m", "nodir", []⟩),
   ("identical", ⟨"d", "out", [("out/a0.cs", a0), ("out/keep.txt", b "keep")]⟩),
   ("different", ⟨"d", "out", [("out/a0.cs", b "old"), ("out/b0.cs", (fileB 0).contents)]⟩),
   ("absent-identical", ⟨"a", "", [("a0.cs", a0), ("common.txt", b "shared")]⟩),
   ("slash", ⟨"d", "out/", [("out/a0.cs", a0), ("out/common.txt", b "stale")]⟩)]

def cleanProgram : Program := ⟨[kClean], false⟩

def c18Scenario (fam : String) (gens : List GenSpec) (out : OutSpec) : Scenario :=
  { fam := fam, files := cleanProgram.files, argv := [], dryRun := false, allowed := [],
    outcomes := cleanProgram.outcomes, gens := gens, out := out }

def pickBeh (i : Nat) (r : Rng) : (String × BehSpec) × Rng :=
  let (c, r) := r.below 10
  if c < 4 then r.pick (okCatalogue i)
  else if c < 8 then r.pick (failCatalogue i)
  else
    let v := validReply i
    let (k, r) := r.below v.length
    (("trunc", .x 0 [] (v.take k)), r)

def genC18 (tier : Tier) (seed : Nat) (o : Out) : IO Unit := do
  let emit (s : Scenario) : IO Unit := o.line s.line
  let thorough := tier == .thorough
  -- one generator: the whole catalogue × output-directory situations
  for nb in catalogue 0 ++ [nostdin0 0] do
    for (sn, out) in outSituations do
      if !thorough && (sn == "nodir" || sn == "slash") && !(nb.1.startsWith "ok") then continue
      emit (c18Scenario ("one/" ++ sn) [mkGen 0 nb] out)
  -- a valid reply truncated at every byte
  let v := validReply 0
  for k in [0:v.length] do
    for (sn, out) in outSituations do
      if !thorough && !(sn == "given" || sn == "identical") then continue
      emit (c18Scenario ("trunc/" ++ sn) [mkGen 0 ("trunc", .x 0 [] (v.take k))] out)
  if thorough then
    for w in [reply [] diagsSample, reply [fileCommon 0] []] do
      for k in [0:w.length] do
        emit (c18Scenario "trunc2/given" [mkGen 0 ("trunc", .x 0 [] (w.take k))] outSituations.head!.2)
  -- one failing generator among well-behaved ones, at every position of 2..3 generators
  let situ2 := [outSituations[0]!, outSituations[5]!]
  for fi in [0:(failCatalogue 0).length] do
    for (n, j) in [(2, 0), (2, 1), (3, 0), (3, 1), (3, 2)] do
      for (sn, out) in situ2 do
        if !thorough && sn == "different" && fi % 2 == 1 then continue
        let gens := (List.range n).map fun i =>
          if i == j then mkGen i ((failCatalogue i)[fi]!) else mkGen i ((okCatalogue i)[(i + fi) % 6]!)
        emit (c18Scenario ("one-bad/" ++ sn) gens out)
  -- only failing generators
  let nf := (failCatalogue 0).length
  for fi in [0:nf] do
    let gens := [mkGen 0 ((failCatalogue 0)[fi]!), mkGen 1 ((failCatalogue 1)[(fi + 1) % nf]!)]
    emit (c18Scenario "all-bad" gens outSituations.head!.2)
  -- several generators writing the same file; an unread stdin next to others
  for (sn, out) in [outSituations[0]!, outSituations[6]!, outSituations[7]!] do
    emit (c18Scenario ("common/" ++ sn) [mkGen 0 ("c", okBeh [fileCommon 0]), mkGen 1 ("c", okBeh [fileCommon 1]),
                                       mkGen 2 ("c", okBeh [fileCommon 2])] out)
    emit (c18Scenario ("common/" ++ sn) [mkGen 0 ("c", okBeh [fileCommon 2]), mkGen 1 ("x", .x 1 [] (reply [fileCommon 0] [])),
                                       mkGen 2 ("c", okBeh [fileCommon 2, fileCommon 0])] out)
    emit (c18Scenario ("nostdin0/" ++ sn) [mkGen 0 ("ok", okBeh [fileB 0]), mkGen 1 (nostdin0 1), mkGen 2 ("ok", okBeh [fileA 2])] out)
  -- sizes beyond the pipe buffer (64 KiB): a large reply, a large stderr, a large request that is not read
  let bigContent : String := String.ofList (List.replicate 70000 'x')
  let bigFile : GenFile := ⟨b "big.txt", b bigContent⟩
  emit (c18Scenario "big/reply" [mkGen 0 ("big", okBeh [bigFile, fileA 0]), mkGen 1 ("ok1", okBeh [fileA 1])] outSituations.head!.2)
  emit (c18Scenario "big/reply-exit1" [mkGen 0 ("big", .x 1 [] (reply [bigFile] [])), mkGen 1 ("ok1", okBeh [fileA 1])] outSituations.head!.2)
  emit (c18Scenario "big/stderr" [mkGen 0 ("big", .x 0 (b (bigContent ++ "\n")) (reply [fileA 0] [])), mkGen 1 ("ok1", okBeh [fileA 1])] outSituations.head!.2)
  let bigSource : String := "module M\n" ++ String.join ((List.range 1500).map fun i =>
    s!"struct AVeryLongStructNameToMakeTheRequestBiggerThanAPipeBuffer{i} \{}\n")
  let bigProgram : Scenario := { c18Scenario "big/request" [mkGen 0 ("ok1", okBeh [fileA 0]), mkGen 1 ("nostdin1", .n 1 []),
      mkGen 2 ("ok1", okBeh [fileA 2])] outSituations.head!.2 with files := [(fileName 0, srcText bigSource)] }
  emit bigProgram
  if thorough then
    -- every ordered pair of catalogue entries
    for n0 in catalogue 0 do
      for n1 in catalogue 1 do
        for (sn, out) in situ2 do
          emit (c18Scenario ("pair/" ++ sn) [mkGen 0 n0, mkGen 1 n1] out)
  -- pseudo-random lists of 1..3 generators × situations
  let nRand := if thorough then 3000 else 230
  let mut r := Rng.mk' (seed + 1818)
  for _ in [0:nRand] do
    let (n, r1) := r.below 3
    let (b0, r2) := pickBeh 0 r1
    let (b1, r3) := pickBeh 1 r2
    let (b2, r4) := pickBeh 2 r3
    let (so, r5) := r4.pick outSituations
    r := r5
    let gens := [mkGen 0 b0, mkGen 1 b1, mkGen 2 b2].take (n + 1)
    emit (c18Scenario ("random/" ++ so.1) gens so.2)

/-! ### C11, compiler half: a malformed generator reply becomes a diagnostic (stream `proc C11 replies`) -/

/-- a size written on 1, 2, 4 or 8 bytes -/
def sizeOn (bytes v : Nat) : Bytes :=
  let tag := match bytes with | 1 => 0 | 2 => 1 | 4 => 2 | _ => 3
  let w := v * 4 + tag
  (List.range bytes).map fun k => (w / 256 ^ k % 256).toUInt8

/-- sizes an input can merely announce -/
def announced : List (String × Bytes) :=
  [("63", sizeOn 1 63), ("2^13", sizeOn 2 8192), ("2^14-1", sizeOn 2 16383), ("2^20", sizeOn 4 (2 ^ 20)), ("2^26", sizeOn 4 (2 ^ 26)),
   ("2^30-1", sizeOn 4 (2 ^ 30 - 1)), ("2^32", sizeOn 8 (2 ^ 32)), ("2^40", sizeOn 8 (2 ^ 40)), ("2^57", sizeOn 8 (2 ^ 57)),
   ("2^61", sizeOn 8 (2 ^ 61)), ("2^62-1", sizeOn 8 (2 ^ 62 - 1))]

/-- malformed replies: every position where the reply format announces a size (number of files, length of a path, length of the
    contents, number of diagnostics, length of a message / source, size of a skipped tagged field) announcing far more than there
    is; tags outside the 32-bit range; invalid UTF-8; an enumerator out of range -/
def malformedReplies : List (String × Bytes) :=
  let f := encGenFile (fileA 0) |>.getD []
  let path := str (b "out.txt")
  let body := str (b "hello")
  announced.flatMap (fun (n, sz) =>
    [("files=" ++ n, sz ++ f ++ [0]), ("files-only=" ++ n, sz), ("path-len=" ++ n, [4] ++ sz ++ b "out.txt" ++ body ++ tagEnd ++ [0]),
     ("contents-len=" ++ n, [4] ++ path ++ sz ++ b "hello" ++ tagEnd ++ [0]),
     ("diags=" ++ n, filesPart [fileA 0] ++ sz ++ [0, 1] ++ str (b "m") ++ tagEnd),
     ("message-len=" ++ n, filesPart [fileA 0] ++ [4] ++ [0, 1] ++ sz ++ b "m" ++ tagEnd),
     ("tagged-size=" ++ n, [4] ++ path ++ body ++ [4] ++ sz ++ [1, 2, 3] ++ tagEnd ++ [0])]) ++
  [("tag=2^31", [4] ++ path ++ body ++ [0x03, 0, 0, 0, 0x02, 0, 0, 0] ++ [0] ++ tagEnd ++ [0]),
   ("tag=-2^31-1", [4] ++ path ++ body ++ [0xFF, 0xFF, 0xFF, 0xFF, 0xFD, 0xFF, 0xFF, 0xFF] ++ [0] ++ tagEnd ++ [0]),
   ("tag=2^61-1", [4] ++ path ++ body ++ [0xFF, 0xFF, 0xFF, 0xFF, 0xFF, 0xFF, 0xFF, 0x7F] ++ [0] ++ tagEnd ++ [0]),
   ("no-tag-end", [4] ++ path ++ body ++ [4, 0]),
   ("utf8-path", badUtf8Path 0), ("utf8-message", badUtf8Message 0), ("bool=2", badBool 0), ("level=3", badLevel 0),
   ("overlong-utf8", [4] ++ str [0xC0, 0xAF] ++ body ++ tagEnd ++ [0]), ("surrogate", [4] ++ str [0xED, 0xA0, 0x80] ++ body ++ tagEnd ++ [0]),
   ("empty", []), ("one-zero", [0]), ("only-ff", [0xFF]), ("ff×8", List.replicate 8 0xFF), ("ff×9", List.replicate 9 0xFF)]

/-- one clean file; the malformed generator alone, in front of and behind a well-behaved one: the model (`mainFlow` with C11's
    `decReply`) says: an error naming that generator, the other one honoured, exit status 1 — never a crash -/
def genC11p (_tier : Tier) (_seed : Nat) (o : Out) : IO Unit := do
  let out : OutSpec := ⟨"d", "out", []⟩
  for (n, r) in malformedReplies do
    let bad : String × BehSpec := ("bad", .x 0 [] r)
    o.line (c18Scenario ("reply/" ++ n) [mkGen 0 bad] out).line
    o.line (c18Scenario ("reply+good/" ++ n) [mkGen 0 bad, mkGen 1 ("ok1", okBeh [fileA 1])] out).line
    o.line (c18Scenario ("good+reply/" ++ n) [mkGen 1 ("ok1", okBeh [fileA 1]), mkGen 0 bad] out).line

end Slicec.Drv.Proc

/-- entry point registered in `Main.lean` -/
def Slicec.Drv.genC18 (tier : Slicec.Drv.Tier) (seed : Nat) (o : Slicec.Drv.Out) : IO Unit :=
  Slicec.Drv.Proc.genC18 tier seed o

/-- entry point registered in `Main.lean` (stream `proc C11p` of C11) -/
def Slicec.Drv.genC11p (tier : Slicec.Drv.Tier) (seed : Nat) (o : Slicec.Drv.Out) : IO Unit :=
  Slicec.Drv.Proc.genC11p tier seed o
