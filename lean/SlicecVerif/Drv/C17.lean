/-
  Case generation for C17 (input-file resolution).  One case = a directory tree, an argument vector and the
  observation the model (`Model/Files.lean`) predicts for `compile_from_options` run inside that tree.

  Line:  tree <TAB> family <TAB> tree-spec <TAB> argv-spec <TAB> expected

  tree-spec   `-` (empty directory) or entries joined by `,`, parents before children, every path relative
              to the scenario root, `/`-separated, hex-encoded UTF-8:
                f:<path>            regular file holding `module M<index>` (index = position in the spec)
                u:<path>            regular file whose content is not valid UTF-8 (read error)
                d:<path>            directory
                l:<path>:<target>   symbolic link, target spelled relatively (to the link's directory)
                L:<path>:<target>   symbolic link with an absolute target: <scenario root>/<target>
  argv-spec   `-` (no argument) or arguments joined by `,`, in order:
                s:<path> / r:<path> source / reference (`-R`) spelled relatively to the current directory
                                    (= scenario root); `-` instead of the hex stands for the empty string
                S:<path> / R:<path> the same, spelled absolutely: <scenario root>/<path>
  expected    S=<p>,<p>…;R=<p>,<p>…;D=<code>*<n>,…;P=<k>
                S  canonical paths (relative to the root, hex) of `state.files` entries with `is_source`, in order
                R  canonical paths of the entries without `is_source`, SORTED (hex order; `read_dir` order is the OS's)
                D  multiset of diagnostic codes, sorted by code (`-` = none)
                P  number of files that were parsed (have a module after the run); 0 whenever an error was reported
              empty lists are `-`.
-/
import SlicecVerif.Model.Files
import SlicecVerif.Drv.Common

namespace Slicec.Drv.C17d

open Slicec Slicec.Drv

/-! ## flat tree descriptions -/

inductive EKind where
  | file (ok : Bool)
  | dir
  | link (abs : Bool) (target : List String)
  deriving Repr, Inhabited

structure Entry where
  path : CPath
  kind : EKind
  deriving Repr, Inhabited

def EKind.node : EKind → FsNode
  | .file ok => .file ok
  | .dir => .dir []
  | .link a t => .link a t

def buildTree (es : List Entry) : FsNode :=
  es.foldl (fun t e => t.insert e.path e.kind.node) (.dir [])

def joinPath (cs : List String) : String := "/".intercalate cs

def hexPath (cs : List String) : String := hexOfString (joinPath cs)

def showEntry (e : Entry) : String :=
  match e.kind with
  | .file true => "f:" ++ hexPath e.path
  | .file false => "u:" ++ hexPath e.path
  | .dir => "d:" ++ hexPath e.path
  | .link false t => "l:" ++ hexPath e.path ++ ":" ++ hexPath t
  | .link true t => "L:" ++ hexPath e.path ++ ":" ++ hexPath t

def showTree (es : List Entry) : String := if es.isEmpty then "-" else ",".intercalate (es.map showEntry)

structure Arg where
  isSource : Bool
  path : SPath
  deriving Repr, Inhabited, DecidableEq

def showArg (a : Arg) : String :=
  (match a.isSource, a.path.abs with
   | true, false => "s:" | true, true => "S:" | false, false => "r:" | false, true => "R:") ++ hexPath a.path.comps

def showArgv (as : List Arg) : String := if as.isEmpty then "-" else ",".intercalate (as.map showArg)

def sortHex (l : List String) : List String := l.mergeSort (fun a b => !(b < a))

def listField (l : List String) : String := if l.isEmpty then "-" else ",".intercalate l

def expected (root : FsNode) (argv : List Arg) : String :=
  let sources := (argv.filter (·.isSource)).map (·.path)
  let refs := (argv.filter (!·.isSource)).map (·.path)
  let r := compileFromOptions root.toEnv walkFuel sources refs
  let s := (r.files.filter (·.isSource)).map (fun f => hexPath f.canon)
  let rf := sortHex ((r.files.filter (!·.isSource)).map (fun f => hexPath f.canon))
  let nE := (r.diags.filter (·.code == .io)).length
  let nD := (r.diags.filter (·.code == .duplicateFile)).length
  let d := (if nD > 0 then ["DuplicateFile*" ++ toString nD] else []) ++ (if nE > 0 then ["E001*" ++ toString nE] else [])
  "S=" ++ listField s ++ ";R=" ++ listField rf ++ ";D=" ++ listField d ++ ";P=" ++ toString r.parsed.length

def caseLine (fam : String) (es : List Entry) (argv : List Arg) : String :=
  tab ["tree", fam, showTree es, showArgv argv, expected (buildTree es) argv]

/-! ## spellings of a canonical path -/

def rel (cs : List String) : SPath := ⟨false, cs⟩

/-- every link entry through which `p` can also be reached: the link's own path followed by what remains of
    `p` below the link's (canonical) target -/
def viaLinks (root : FsNode) (es : List Entry) (p : CPath) : List (List String) :=
  es.filterMap fun e =>
    match e.kind with
    | .link _ _ =>
      match root.canon (rel e.path) with
      | some t => if t.isPrefixOf p && !(e.path == p) then some (e.path ++ p.drop t.length) else none
      | none => none
    | _ => none

def dirsOf (es : List Entry) : List CPath :=
  es.filterMap fun e => match e.kind with | .dir => some e.path | _ => none

/-- the spellings of the tiny family: plain, `./x`, `D/../x` for the first real directory `D`, absolute, via links -/
def tinySpellings (root : FsNode) (es : List Entry) (p : CPath) : List SPath :=
  let upDown := match dirsOf es with
    | d :: _ => [rel (d ++ List.replicate d.length ".." ++ p)]
    | [] => []
  ([rel p, rel ("." :: p)] ++ upDown ++ [(⟨true, p⟩ : SPath)] ++ (viaLinks root es p).map rel).eraseDups

/-! ## family `hand`: hand-written scenarios for the corners of the mechanism -/

def f (p : String) : Entry := ⟨p.splitOn "/", .file true⟩
def u (p : String) : Entry := ⟨p.splitOn "/", .file false⟩
def d (p : String) : Entry := ⟨p.splitOn "/", .dir⟩
def l (p t : String) : Entry := ⟨p.splitOn "/", .link false (t.splitOn "/")⟩
def la (p t : String) : Entry := ⟨p.splitOn "/", .link true (t.splitOn "/")⟩
def s (p : String) : Arg := ⟨true, rel (p.splitOn "/")⟩
def r (p : String) : Arg := ⟨false, rel (p.splitOn "/")⟩
def sA (p : String) : Arg := ⟨true, ⟨true, p.splitOn "/"⟩⟩
def rA (p : String) : Arg := ⟨false, ⟨true, p.splitOn "/"⟩⟩

def handCases : List (List Entry × List Arg) :=
  let t1 := [f "a.slice", f "b.slice", d "d", f "d/c.slice", f "d/n.txt", d "d/e", f "d/e/x.slice", d "empty",
             l "l.slice" "a.slice", l "m" "d", u "u.slice", l "dang.slice" "nope.slice", l "k.slice" "d/n.txt",
             l "t.txt" "a.slice", la "abs.slice" "d/c.slice", d "x.slice", f "x.slice/y.slice", f ".slice", f "..slice",
             f "noext", f "A.SLICE", f "c.slice.txt", l "ll.slice" "l.slice", l "mm" "m", f "d/e/sp ace.slice"]
  [ (t1, []), (t1, [s "a.slice"]), (t1, [s "a.slice", s "b.slice"]), (t1, [s "b.slice", s "a.slice"]),
    (t1, [s "a.slice", s "./a.slice"]), (t1, [s "a.slice", s "d/../a.slice", s "l.slice", sA "a.slice", s "ll.slice"]),
    (t1, [s "a.slice", r "a.slice"]), (t1, [r "a.slice", r "l.slice"]), (t1, [s "l.slice", r "."]),
    (t1, [r "."]), (t1, [r "d"]), (t1, [r "d/"]), (t1, [r "d/."]), (t1, [r "m"]), (t1, [r "mm"]), (t1, [r "d", r "m"]),
    (t1, [r "d", r "mm/e"]), (t1, [s "d/c.slice", r "m"]), (t1, [s "m/c.slice", r "d"]), (t1, [s "abs.slice", s "d/c.slice"]),
    (t1, [s "d"]), (t1, [s "empty"]), (t1, [r "empty"]), (t1, [s "x.slice"]), (t1, [r "x.slice"]), (t1, [s "x.slice/y.slice"]),
    (t1, [s ".slice"]), (t1, [s "..slice"]), (t1, [s "noext"]), (t1, [s "A.SLICE"]), (t1, [s "c.slice.txt"]),
    (t1, [r ".slice"]), (t1, [r "noext"]), (t1, [s "nope.slice"]), (t1, [r "nope"]), (t1, [s "dang.slice"]), (t1, [r "dang.slice"]),
    (t1, [s "k.slice"]), (t1, [s "t.txt"]), (t1, [r "t.txt"]), (t1, [s "u.slice"]), (t1, [r "u.slice"]), (t1, [s "a.slice", s "u.slice"]),
    (t1, [s "a.slice/"]), (t1, [s "a.slice/."]), (t1, [s "a.slice/x.slice"]), (t1, [s "a.slice/../b.slice"]),
    (t1, [s ""]), (t1, [r ""]), (t1, [s "d//c.slice"]), (t1, [s "./d/./e/../c.slice"]), (t1, [s "d/e/sp ace.slice"]),
    (t1, [s "a.slice", s "nope.slice", s "a.slice"]), (t1, [r "d", r "d", r "d"]), (t1, [r "d/e", r "d"]), (t1, [r "d", r "d/e"]),
    (t1, [s "a.slice", s "a.slice", s "a.slice", r "a.slice", r "a.slice"]), (t1, [rA "d", sA "d/c.slice"]), (t1, [sA ""]), (t1, [rA ""]),
    (t1, [s "d/e/../../a.slice", r "d/e/.."]), (t1, [s "m/e/x.slice", s "mm/e/x.slice", s "d/e/x.slice"]),
    ([], []), ([], [r "."]), ([], [s "."]),
    ([d "a", d "a/b", d "a/b/c", d "a/b/c/d", f "a/b/c/d/deep.slice", l "a/b/c/d/up.slice" "../../../../top.slice", f "top.slice"],
     [r "a", s "a/b/c/d/up.slice"]),
    ([d "a", d "a/b", d "a/b/c", d "a/b/c/d", f "a/b/c/d/deep.slice", l "a/b/c/d/up.slice" "../../../../top.slice", f "top.slice"],
     [r "a", r "top.slice"]) ]

/-! ## family `tiny`: bounded-exhaustive small trees (≤ 3 entries, thorough ≤ 4) × all argument lists of length ≤ 2 -/

def tinyUniverse : List Entry :=
  [f "a.slice", f "b.txt", d "d", f "d/c.slice", l "l.slice" "a.slice", l "m" "d", u "u.slice", l "k.slice" "b.txt"]

def popCount (n : Nat) : Nat := ((List.range 8).filter (fun i => n.testBit i)).length

def tinyTrees (maxEntries : Nat) : List (List Entry) :=
  ((List.range 256).filter (fun m => popCount m ≤ maxEntries && (!m.testBit 3 || m.testBit 2))).map fun m =>
    (tinyUniverse.zipIdx.filter (fun e => m.testBit e.2)).map (·.1)

def tinyArgs (es : List Entry) : List Arg :=
  let root := buildTree es
  let sp := (es.flatMap (fun e => tinySpellings root es e.path)) ++ [rel ["zz.slice"]]
  sp.eraseDups.flatMap fun p => [⟨true, p⟩, ⟨false, p⟩]

/-! ## family `rand`: random trees of depth ≤ 4 with links, and argument lists aliasing their files -/

def fileNames : List String :=
  ["a.slice", "b.slice", "c.slice", "x.slice", "y.slice", "b.txt", "readme", "c.slice.txt", "d.SLICE", ".slice", "..slice",
   "s p.slice", "é.slice", "slice", "e.slic", "a.slice", "b.slice", "z.slice"]
def dirNames : List String := ["d", "e", "sub", "x.slice", "dd", "d.d"]
def linkNames : List String := ["l.slice", "k.slice", "m", "n", "lnk.txt", "t.slice", "mm"]

structure TreeSt where
  es : List Entry := []     -- reverse order
  rng : Rng

def TreeSt.has (st : TreeSt) (p : CPath) : Bool := st.es.any (·.path == p)

/-- fill directory `at_` (already present) with 0‥4 entries, recursing while depth < 4 -/
partial def genDir (st : TreeSt) (at_ : CPath) (depth : Nat) : TreeSt := Id.run do
  let (n, r0) := st.rng.below 5
  let n := if depth == 0 then n + 1 else n
  let mut st := { st with rng := r0 }
  for _ in [0:n] do
    let (k, r1) := st.rng.below 20
    if k < 6 && depth < 4 then
      let (nm, r2) := r1.pick dirNames
      st := { st with rng := r2 }
      if !st.has (at_ ++ [nm]) then
        st := { st with es := ⟨at_ ++ [nm], .dir⟩ :: st.es }
        st := genDir st (at_ ++ [nm]) (depth + 1)
    else
      let (nm, r2) := r1.pick fileNames
      st := { st with rng := r2 }
      if !st.has (at_ ++ [nm]) then
        let (bad, r3) := st.rng.below 3
        st := { st with rng := r3, es := ⟨at_ ++ [nm], .file (!(k == 19 && bad == 0))⟩ :: st.es }
  return st

/-- relative spelling of canonical `tgt` seen from directory `frm`: all the way up, or only up to the common prefix -/
def relTarget (frm tgt : CPath) (minimal : Bool) : List String :=
  if minimal then
    let rec common : CPath → CPath → Nat
      | a :: as, b :: bs => if a == b then 1 + common as bs else 0
      | _, _ => 0
    let c := common frm tgt
    let t := List.replicate (frm.length - c) ".." ++ tgt.drop c
    if t.isEmpty then ["."] else t
  else List.replicate frm.length ".." ++ tgt

/-- add up to 5 links.  Links to files point to existing files or earlier file links; dangling links name nothing;
    a link to a directory at `X → Y` is only added when `X` is not inside an earlier link target, `Y`'s subtree holds no
    directory link and `Y` is not an ancestor of `X` — so following directory links always terminates. -/
def genLinks (st : TreeSt) : TreeSt := Id.run do
  let (n, r0) := st.rng.below 6
  let mut st := { st with rng := r0 }
  let mut fileLike : List CPath := st.es.filterMap fun e => match e.kind with | .file _ => some e.path | _ => none
  let realDirs : List CPath := [] :: dirsOf st.es
  let mut linkDirs : List CPath := []
  let mut zones : List CPath := []
  for _ in [0:n] do
    let (x, r1) := st.rng.pick realDirs
    let (nm, r2) := r1.pick linkNames
    let (k, r3) := r2.below 10
    let (isAbs, r4) := r3.below 5
    let (minimal, r5) := r4.below 2
    st := { st with rng := r5 }
    let lp := x ++ [nm]
    if st.has lp then continue
    let mk (tgt : CPath) : EKind := if isAbs == 0 then .link true tgt else .link false (relTarget x tgt (minimal == 0))
    if k < 5 then
      if fileLike.isEmpty then continue
      let (t, r6) := st.rng.pick fileLike
      st := { st with rng := r6, es := ⟨lp, mk t⟩ :: st.es }
      fileLike := lp :: fileLike
    else if k < 8 then
      let cands := realDirs.filter fun y =>
        !y.isEmpty && !(zones.any (·.isPrefixOf x)) && !(linkDirs.any (fun ld => y.isPrefixOf ld)) && !(y.isPrefixOf x)
      if cands.isEmpty then continue
      let (y, r6) := st.rng.pick cands
      st := { st with rng := r6, es := ⟨lp, mk y⟩ :: st.es }
      linkDirs := x :: linkDirs
      zones := y :: zones
    else
      st := { st with es := ⟨lp, .link false (if k == 8 then ["nope.slice"] else ["nodir", "x.slice"])⟩ :: st.es }
  return st

def genTree (rng : Rng) : List Entry × Rng :=
  let st := genDir { rng := rng } [] 0
  let st := genLinks st
  (st.es.reverse, st.rng)

/-- a random spelling of canonical path `p` -/
def randSpelling (root : FsNode) (es : List Entry) (p : CPath) (rng : Rng) : SPath × Rng := Id.run do
  let (k, r1) := rng.below 12
  let dirs := dirsOf es
  let mut rng := r1
  let mut comps := p
  let mut abs := false
  match k with
  | 0 | 1 | 2 => pure ()
  | 3 => comps := "." :: p
  | 4 =>
    let (i, r2) := rng.below p.length
    rng := r2
    comps := p.take i ++ ["."] ++ p.drop i
  | 5 | 6 =>
    if !dirs.isEmpty then
      let (dd, r2) := rng.pick dirs
      rng := r2
      comps := dd ++ List.replicate dd.length ".." ++ p
  | 7 | 8 => abs := true
  | 9 | 10 =>
    let v := viaLinks root es p
    if !v.isEmpty then
      let (c, r2) := rng.pick v
      rng := r2
      comps := c
  | _ =>
    if p.length ≥ 2 then
      -- `dir//name` and `dir/sub/../name`
      comps := p.dropLast ++ [""] ++ [p.getLast!]
  -- occasionally spell a second alias on top (absolute + dotted, link + up/down …)
  let (again, r3) := rng.below 6
  rng := r3
  if again == 0 && !dirs.isEmpty then
    let (dd, r4) := rng.pick dirs
    rng := r4
    comps := dd ++ List.replicate dd.length ".." ++ comps
  if comps.isEmpty && !abs then comps := ["."]
  return (⟨abs, comps⟩, rng)

def genArgv (root : FsNode) (es : List Entry) (rng : Rng) : List Arg × Rng := Id.run do
  let mut rng := rng
  let sliceLike : List CPath := es.filterMap fun e =>
    match root.stat (rel e.path) with
    | some (.file true) => if (rel e.path).isSlice then some e.path else none
    | _ => none
  let anyPath : List CPath := es.map (·.path)
  let dirLike : List CPath := [] :: es.filterMap fun e =>
    match e.kind with
    | .dir => some e.path
    | .link _ _ => (match root.stat (rel e.path) with | some (.dir _) => some e.path | _ => none)
    | _ => none
  let bogus : List CPath := [["nope.slice"], ["nodir", "x.slice"], ["a.slice", "below.slice"], ["d", "zz.slice"], ["zz"]]
  let (ns, r1) := rng.below 4
  let (nr, r2) := r1.below 4
  let (clean, r3) := r2.below 10   -- most scenarios keep the lists free of deliberately bad paths
  rng := r3
  let mut args : List Arg := []
  let mut chosen : List CPath := []
  for i in [0:ns + nr] do
    let isSource := i < ns
    let (k, r4) := rng.below 20
    rng := r4
    let pool : List CPath :=
      if k < 5 && !chosen.isEmpty then chosen                      -- alias something already named
      else if isSource then
        (if k < 17 || clean < 5 then sliceLike else if k < 19 then anyPath else bogus)
      else
        (if k < 11 then dirLike else if k < 17 || clean < 5 then sliceLike else if k < 19 then anyPath else bogus)
    if pool.isEmpty then continue
    let (p, r5) := rng.pick pool
    let (sp, r6) := randSpelling root es p r5
    rng := r6
    chosen := p :: chosen
    args := ⟨isSource, sp⟩ :: args
  -- references and sources are separate lists in `SliceOptions`; their relative order on the command line is kept
  -- as generated (sources first) or rotated so that both interleavings occur
  let out := args.reverse
  let (rot, r7) := rng.below 3
  rng := r7
  let out := if rot == 0 then out.filter (!·.isSource) ++ out.filter (·.isSource) else out
  return (out, rng)

/-! ## the stream -/

def genC17 (tier : Tier) (seed : Nat) (o : Out) : IO Unit := do
  for (es, argv) in handCases do
    o.line (caseLine "hand" es argv)
  -- bounded-exhaustive
  for es in tinyTrees (if tier == .thorough then 4 else 3) do
    let args := tinyArgs es
    let fam := "tiny" ++ toString es.length
    o.line (caseLine fam es [])
    for a in args do
      o.line (caseLine fam es [a])
    for a in args do
      for b in args do
        o.line (caseLine fam es [a, b])
  -- random
  let nTrees := if tier == .thorough then 5000 else 400
  let perTree := 4
  let mut rng := Rng.mk' (seed + 1717)
  for _ in [0:nTrees] do
    let (es, r1) := genTree rng
    rng := r1
    let root := buildTree es
    for _ in [0:perTree] do
      let (argv, r2) := genArgv root es rng
      rng := r2
      o.line (caseLine "rand" es argv)

end Slicec.Drv.C17d

namespace Slicec.Drv

/-- the C17 stream (`drv gen C17 <tier> <seed>`) -/
def genC17 (tier : Tier) (seed : Nat) (o : Out) : IO Unit := C17d.genC17 tier seed o

end Slicec.Drv
