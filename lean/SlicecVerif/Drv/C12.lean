/- Case generation for C12: histories on output targets and the input source. -/
import SlicecVerif.Model.Buffers
import SlicecVerif.Drv.Common

namespace Slicec.Drv

open Slicec

def fnv1a (bs : Bytes) : UInt64 :=
  bs.foldl (fun h b => (h ^^^ b.toUInt64) * 0x100000001b3) 0xcbf29ce484222325

def showBuf (bs : Bytes) : String :=
  if bs.length ≤ 16 then hexField bs else toString bs.length ++ "#" ++ toString (fnv1a bs).toNat

/-- long payloads of random histories are the pattern `(s + 7t) mod 256`, transported as `P<len>.<s>` -/
def pattern (k s : Nat) : Bytes := (List.range k).map (fun t => UInt8.ofNat ((s + t * 7) % 256))

def showPayload (bs : Bytes) : String :=
  match bs with
  | [] => "-"
  | b :: _ => if bs.length > 8 && bs == pattern bs.length b.toNat then "P" ++ toString bs.length ++ "." ++ toString b.toNat else hexField bs

def showOp : OutOp → String
  | .write bs => "w:" ++ showPayload bs
  | .reserve k => "r:" ++ toString k
  | .resv i bs => "v:" ++ toString i ++ ":" ++ showPayload bs
  | .foreign a b bs => "f:" ++ toString a ++ ":" ++ toString b ++ ":" ++ showPayload bs

def showObs : Obs → String
  | .ok => "ok"
  | .okRes a b => "R" ++ toString a ++ "-" ++ toString b
  | .err (.eob _ _) => "E"
  | .err .invalidReservation => "I"
  | .noSuchReservation => "N"

def runSlice (st : SliceSt) : List OutOp → List String
  | [] => []
  | o :: os =>
    let (st', obs) := st.step o
    (showObs obs ++ "@" ++ toString st'.tgt.pos ++ ":" ++ showBuf st'.tgt.buf) :: runSlice st' os

def runVec (st : VecSt) : List OutOp → List String
  | [] => []
  | o :: os =>
    let (st', obs) := st.step o
    (showObs obs ++ "@" ++ showBuf st'.tgt.buf) :: runVec st' os

def sliceCase (fam : String) (init : Bytes) (ops : List OutOp) : String :=
  tab ["hist", fam, "slice:" ++ hexField init, ",".intercalate (ops.map showOp),
       ",".intercalate (runSlice ⟨⟨init, 0⟩, []⟩ ops)]

def vecCase (fam : String) (init : Bytes) (ops : List OutOp) : String :=
  tab ["hist", fam, "vec:" ++ hexField init, ",".intercalate (ops.map showOp),
       ",".intercalate (runVec ⟨⟨init⟩, []⟩ ops)]

/-- bytes written by the `j`-th operation of a history are distinguishable -/
def payload (j k : Nat) : Bytes := (List.range k).map (fun t => UInt8.ofNat (16 * (j + 1) + t + 1))

def alphabet (cap j maxK : Nat) : List OutOp :=
  ((List.range (maxK + 1)).map (fun k => OutOp.write (payload j k))) ++
  ((List.range (maxK + 1)).map (fun k => OutOp.reserve k)) ++
  ((List.range (maxK + 1)).map (fun k => OutOp.resv 0 (payload j k))) ++
  [.resv 1 (payload j 1), .foreign 0 1 (payload j 1), .foreign 1 0 [], .foreign 0 (cap + 1) (payload j 1),
   .foreign 1 3 (payload j 2), .foreign 2 2 []]

/-- all histories of length ≤ n (every prefix is itself a case because every intermediate state is observed,
    so only maximal-length histories are emitted) -/
def histories (cap maxK : Nat) : Nat → Nat → List (List OutOp)
  | 0, _ => [[]]
  | n + 1, j => (alphabet cap j maxK).flatMap fun o => (histories cap maxK n (j + 1)).map (o :: ·)

def genRandOp (sz : Nat) (nres : Nat) (j : Nat) (r : Rng) : OutOp × Rng :=
  let (c, r) := r.below 10
  let (k, r) := r.below (sz + 1)
  let (x, r) := r.next
  let bs : Bytes := pattern k ((x.toNat + j) % 256)
  match c with
  | 0 | 1 | 2 | 3 => (.write bs, r)
  | 4 | 5 => (.reserve k, r)
  | 6 | 7 | 8 =>
    let (i, r) := r.below (nres + 1)
    let (k2, r) := r.below 9
    (.resv i (bs.take (if k2 < 6 then k2 else k)), r)
  | _ =>
    let (a, r) := r.below (4 * sz + 2)
    let (b, r) := r.below (4 * sz + 2)
    (.foreign a b (bs.take 3), r)

def genRandHist (n sz : Nat) (r : Rng) : List OutOp × Rng :=
  let rec go : Nat → Nat → Nat → Rng → List OutOp → List OutOp × Rng
    | 0, _, _, r, acc => (acc.reverse, r)
    | m + 1, j, nres, r, acc =>
      let (o, r) := genRandOp sz nres j r
      let nres' := match o with | .reserve _ => nres + 1 | _ => nres
      go m (j + 1) nres' r (o :: acc)
  go n 0 0 r []

/-! input source -/

inductive InOp where
  | peek (k : Nat)
  | read (k : Nat)
  deriving Repr

def showInOp : InOp → String
  | .peek k => "p:" ++ toString k
  | .read k => "d:" ++ toString k

def runIn (s : SliceIn) : List InOp → List String
  | [] => []
  | .peek k :: os =>
    (match s.peek k with
     | .ok bs => "ok:" ++ showBuf bs ++ "@" ++ toString s.pos
     | .error _ => "E@" ++ toString s.pos) :: runIn s os
  | .read k :: os =>
    match s.read k with
    | .ok (bs, s') => ("ok:" ++ showBuf bs ++ "@" ++ toString s'.pos) :: runIn s' os
    | .error _ => ("E@" ++ toString s.pos) :: runIn s os

def srcCase (fam : String) (buf : Bytes) (ops : List InOp) : String :=
  tab ["src", fam, hexField buf, ",".intercalate (ops.map showInOp), ",".intercalate (runIn ⟨buf, 0⟩ ops)]

def inHistories (maxK : Nat) : Nat → List (List InOp)
  | 0 => [[]]
  | n + 1 =>
    let al := ((List.range (maxK + 1)).map InOp.peek) ++ ((List.range (maxK + 1)).map InOp.read)
    al.flatMap fun o => (inHistories maxK n).map (o :: ·)

def genC12 (tier : Tier) (seed : Nat) (o : Out) : IO Unit := do
  let (len, maxK, maxCap) := if tier == .thorough then (5, 2, 4) else (4, 2, 3)
  for cap in List.range (maxCap + 1) do
    let init : Bytes := (List.range cap).map (fun i => UInt8.ofNat (0xA0 + i))
    for h in histories cap maxK len 0 do
      o.line (sliceCase ("slice-cap" ++ toString cap) init h)
  for h in histories 2 maxK len 0 do
    o.line (vecCase "vec-empty" [] h)
  for h in histories 2 maxK (len - 1) 0 do
    o.line (vecCase "vec-prefilled" [0xEE, 0xEF] h)
  for cap in List.range 5 do
    let buf : Bytes := (List.range cap).map (fun i => UInt8.ofNat (0x30 + i))
    for h in inHistories (if tier == .thorough then 4 else 3) (if tier == .thorough then 5 else 4) do
      o.line (srcCase ("src-len" ++ toString cap) buf h)
  -- random long histories with sizes up to 4 KiB
  let nRand := if tier == .thorough then 20000 else 2000
  let mut r := Rng.mk' (seed + 33)
  for i in [0:nRand] do
    let (sz, r1) := r.pick [1, 3, 8, 8, 64, 64, 700, 4096]
    let (n, r2) := r1.below (if sz > 100 then 40 else 200)
    let (h, r3) := genRandHist (n + 1) sz r2
    let (capMul, r4) := r3.below 8
    r := r4
    let cap := sz * capMul
    let init : Bytes := (List.range cap).map (fun t => UInt8.ofNat ((t * 31 + i) % 256))
    if i % 2 == 0 then o.line (sliceCase "slice-random" init h) else o.line (vecCase "vec-random" (init.take (cap % 17)) h)
  -- the growable target refuses what cannot be allocated
  o.line (tab ["hist", "vec-huge", "vec:-", "r:18446744073709551615", "E@-"])
  o.line (tab ["hist", "vec-huge", "vec:-", "w:01,r:9223372036854775807,w:02", "ok@01,E@01,ok@0102"])

end Slicec.Drv
