/- Generator of well-formed Slice programs (abstract syntax), shared by C02 C03 C08 C09 C20 … -/
import SlicecVerif.Model.Elab
import SlicecVerif.Drv.Common

namespace Slicec.Drv

open Slicec

structure GenCfg where
  maxFiles : Nat := 2
  maxDefs : Nat := 4
  maxMembers : Nat := 3
  typeDepth : Nat := 2
  docs : Bool := true
  foreignAttrs : Bool := true
  keywordsAsNames : Bool := true
  /-- out of 10: how often a type reference names a known alias (0 = no extra draw; C20) -/
  aliasBias : Nat := 0
  /-- out of 10: how often a definition is forced to be an alias of an anonymous type (0 = no extra draw; C20) -/
  anonAliasBias : Nat := 0
  /-- generate the definitions one by one into randomly chosen files, so that files reference each other (C20) -/
  interleave : Bool := false

/-- what earlier definitions a later one may refer to -/
structure Known where
  modPath : String
  name : String
  kind : String        -- struct | enum | custom | alias | interface | keyenum
  file : Nat
  deriving Inhabited

structure GenSt where
  rng : Rng
  known : List Known := []
  counter : Nat := 0
  cfg : GenCfg := {}

abbrev G := StateM GenSt

def below (n : Nat) : G Nat := modifyGet fun s => let (v, r) := s.rng.below n; (v, { s with rng := r })
def coin (num den : Nat) : G Bool := do return (← below den) < num
def pickG {α} [Inhabited α] (xs : List α) : G α := do return xs.getD (← below xs.length) default
def fresh : G Nat := modifyGet fun s => (s.counter, { s with counter := s.counter + 1 })

def kwNames : List String := ["struct", "module", "tag", "stream", "compact", "string", "Result", "idempotent", "bool", "enum"]

def genName (pfx : String) : G String := do
  let n ← fresh
  let s ← get
  if s.cfg.keywordsAsNames && (← coin 1 12) then
    -- a keyword used as a name (printed with a backslash); made unique by position only, so use each at most once
    let k := kwNames.getD (n % kwNames.length) "struct"
    if n < kwNames.length then return k else return pfx ++ toString n
  else return pfx ++ toString n

def argCatalogue : List String :=
  ["a", "abc", "a b", "", "x,y", "q\"uote", "back\\slash", "é✓", "Args", "1", "struct", "a\\\"b", "tab\tx", "(p)", "[b]", "//c", "/*c*/",
   "C:\\temp\\", "\\", "x\\\\", "\"", "\\\"", "end\\\\\\"]

def genForeignAttr : G Attr := do
  -- inside `[...]` the lexer does not look identifiers up in the keyword table: directive segments may be spelled like keywords
  let d ← pickG ["cs::attr", "cs::readonly", "foo::bar", "rust::x::y", "cs::identifier", "cs::struct", "rust::module::tag", "custom::string", "x::Sequence"]
  let n ← below 3
  let mut args := []
  for _ in [0:n] do args := args ++ [← pickG argCatalogue]
  return ⟨d, args⟩

def genAttrs : G (List Attr) := do
  if !(← get).cfg.foreignAttrs then return []
  let n ← pickG [0, 0, 0, 1, 1, 2]
  let mut as := []
  for _ in [0:n] do as := as ++ [← genForeignAttr]
  return as

def genDoc : G (List String) := do
  if !(← get).cfg.docs then return []
  if ← coin 3 4 then return []
  let n ← below 3
  let mut ls := []
  for _ in [0:n + 1] do ls := ls ++ [← pickG [" A doc line.", " second line", " ünïcode ✓", " with, punctuation; and: colons", "  indented"]]
  return ls

/-- a spelling of `k` that resolves from module `cur` (bare when visible, otherwise qualified or global) -/
def spell (cur : String) (k : Known) : G String := do
  let full := scopedId k.name k.modPath
  let visibleBare := k.modPath == cur || k.modPath.isEmpty || (cur.startsWith (k.modPath ++ "::"))
  let c ← below 4
  if visibleBare && c < 2 then return k.name
  else if c == 2 || k.modPath.isEmpty then return (if k.modPath.isEmpty then "::" ++ k.name else full)
  else return "::" ++ full

def keyPrims : List Prim := [.bool, .int8, .uint8, .int16, .uint16, .int32, .uint32, .varint32, .varuint32, .int64, .uint64, .varint62, .varuint62, .string]

/-- `allowed` filters which known definitions may be referenced (containment must stay acyclic) -/
partial def genTRef (cur : String) (depth : Nat) (allowOpt : Bool) (forceAnon : Bool := false) : G TRef := do
  let attrs ← (do if ← coin 1 6 then return [← genForeignAttr] else return [])
  let opt ← (do if allowOpt then coin 1 3 else return false)
  let s ← get
  let c ← (do if forceAnon && depth > 0 then return 7 + (← below 3) else below 10)
  let types := s.known.filter fun k => k.kind == "struct" || k.kind == "enum" || k.kind == "custom" || k.kind == "alias" || k.kind == "keyenum"
  let aliases := s.known.filter fun k => k.kind == "alias"
  let useAlias ← (do if !forceAnon && s.cfg.aliasBias > 0 && !aliases.isEmpty then coin s.cfg.aliasBias 10 else return false)
  if useAlias then
    let k ← pickG aliases
    return .mk attrs (.named (← spell cur k)) opt
  else if c < 4 || (depth == 0 && types.isEmpty) then
    return .mk attrs (.prim (← pickG Prim.all)) opt
  else if c < 7 && !types.isEmpty then
    let k ← pickG types
    return .mk attrs (.named (← spell cur k)) opt
  else if depth == 0 then
    return .mk attrs (.prim (← pickG Prim.all)) opt
  else if c == 7 then
    return .mk attrs (.seq (← genTRef cur (depth - 1) true)) opt
  else if c == 8 then
    let kt ← pickG keyPrims
    return .mk attrs (.dict (.mk [] (.prim kt) false) (← genTRef cur (depth - 1) true)) opt
  else
    return .mk attrs (.result (← genTRef cur (depth - 1) true) (← genTRef cur (depth - 1) true)) opt

def genIntLit (v : Int) : G IntLit := do
  let base ← pickG [10, 10, 16, 2]
  let us ← coin 1 4
  -- `underscores` is only recorded when the printer really writes one (three digits or more)
  return ⟨decide (v < 0), base, v.natAbs, us && (natDigits base 200 v.natAbs).length ≥ 3⟩

/-- distinct tags on a subset of the optional members -/
def assignTags (opts : List Bool) : G (List (Option IntLit)) := do
  let mut out := []
  let mut used : List Nat := []
  for o in opts do
    if o && (← coin 1 3) then
      let t ← pickG [0, 1, 2, 5, 127, 128, 65535, 2147483647]
      if used.contains t then out := out ++ [none]
      else
        used := t :: used
        out := out ++ [some (← genIntLit t)]
    else out := out ++ [none]
  return out

def genFields (cur : String) (n : Nat) (compact : Bool) : G (List Field) := do
  let mut tys := []
  for _ in [0:n] do tys := tys ++ [← genTRef cur (← get).cfg.typeDepth true]
  let tags ← if compact then pure (tys.map fun _ => none) else assignTags (tys.map TRef.opt)
  let mut fs := []
  for (ty, tag) in tys.zip tags do
    fs := fs ++ [{ doc := ← genDoc, attrs := ← genAttrs, tag := tag, name := ← genName "f", ty := ty : Field }]
  return fs

def genParams (cur : String) (n : Nat) (allowStream : Bool) (pfx : String) : G (List Param) := do
  let mut tys := []
  for _ in [0:n] do tys := tys ++ [← genTRef cur (← get).cfg.typeDepth true]
  let tags ← assignTags (tys.map TRef.opt)
  let mut ps := []
  let mut i := 0
  for (ty, tag) in tys.zip tags do
    let last := i + 1 == n
    let stream ← (do if allowStream && last then coin 1 4 else return false)
    -- a streamed member cannot be tagged
    ps := ps ++ [{ attrs := ← genAttrs, tag := if stream then none else tag, name := ← genName pfx, stream := stream, ty := ty : Param }]
    i := i + 1
  return ps

def integralPrims : List Prim := [.int8, .uint8, .int16, .uint16, .int32, .uint32, .varint32, .varuint32, .int64, .uint64, .varint62, .varuint62]

def primBounds : Prim → Int × Int
  | .int8 => (-128, 127) | .uint8 => (0, 255) | .int16 => (-32768, 32767) | .uint16 => (0, 65535)
  | .int32 | .varint32 => (-2147483648, 2147483647) | .uint32 | .varuint32 => (0, 4294967295)
  | .int64 => (-9223372036854775808, 9223372036854775807) | .uint64 => (0, 18446744073709551615)
  | .varint62 => (-2305843009213693952, 2305843009213693951) | .varuint62 => (0, 4611686018427387903)
  | _ => (0, 2147483647)

def genDef (fileIdx : Nat) (cur : String) : G Def := do
  let c ← below 10
  let anonAlias ← (do if (← get).cfg.anonAliasBias > 0 then coin (← get).cfg.anonAliasBias 10 else return false)
  let c := if anonAlias then 9 else c
  let doc ← genDoc
  let attrs ← genAttrs
  let maxM := (← get).cfg.maxMembers
  if c < 4 then
    let compact ← coin 1 4
    let n ← below (maxM + 1)
    let n := if compact && n == 0 then 1 else n
    let fields ← genFields cur n compact
    let name ← genName "S"
    modify fun s => { s with known := s.known ++ [⟨cur, name, "struct", fileIdx⟩] }
    return .struct doc attrs compact name fields
  else if c < 6 then
    let name ← genName "I"
    let ifs := (← get).known.filter fun k => k.kind == "interface"
    let nb ← pickG [0, 0, 1, 2]
    let mut bases : List TRef := []
    let mut seen : List String := []
    for _ in [0:nb] do
      if !ifs.isEmpty then
        let k ← pickG ifs
        if !seen.contains (scopedId k.name k.modPath) then
          seen := scopedId k.name k.modPath :: seen
          bases := bases ++ [.mk [] (.named (← spell cur k)) false]
    let nops ← below (maxM + 1)
    let mut ops := []
    for _ in [0:nops] do
      let np ← below 3
      let params ← genParams cur np true "p"
      let rc ← below 4
      let ret ← (match rc with
        | 0 => pure Ret.none
        | 1 | 2 => do
          let ty ← genTRef cur (← get).cfg.typeDepth true
          let stream ← coin 1 5
          let tag ← (do if ty.opt && !stream && (← coin 1 3) then return some (← genIntLit 3) else return none)
          pure (Ret.single tag stream ty)
        | _ => do pure (Ret.tuple (← genParams cur 2 true "r")))
      ops := ops ++ [{ doc := ← genDoc, attrs := ← genAttrs, idempotent := ← coin 1 3, name := ← genName "op", params := params, ret := ret : Op }]
    modify fun s => { s with known := s.known ++ [⟨cur, name, "interface", fileIdx⟩] }
    return .iface doc attrs name bases ops
  else if c < 8 then
    let name ← genName "E"
    let backed ← coin 1 2
    let unchecked ← coin 1 3
    let n ← below (maxM + 1)
    let n := if !unchecked && n == 0 then 1 else n
    if backed then
      let p ← pickG integralPrims
      let (lo, hi) := primBounds p
      let mut es := []
      let mut used : List Int := []
      let mut prev : Option Int := none
      for _ in [0:n] do
        let explicit ← coin 1 2
        let cand : Int := ← (do
          if explicit then
            let k ← below 6
            pure (match k with | 0 => lo | 1 => hi | 2 => 0 | 3 => lo + 1 | 4 => hi - 1 | _ => 7)
          else pure (match prev with | some v => v + 1 | none => 0))
        if lo ≤ cand && cand ≤ hi && !used.contains cand then
          used := cand :: used
          prev := some cand
          let lit ← genIntLit cand
          es := es ++ [{ doc := ← genDoc, attrs := ← genAttrs, name := ← genName "X", fields := none,
                         value := if explicit then some lit else none : Enumerator }]
      if es.isEmpty && !unchecked then
        es := [{ doc := [], attrs := [], name := ← genName "X", fields := none, value := none : Enumerator }]
      -- the first enumerator's implicit value 0 must be in range: guaranteed since every range contains 0
      modify fun s => { s with known := s.known ++ [⟨cur, name, "keyenum", fileIdx⟩] }
      return .enum doc attrs false unchecked name (some (.mk [] (.prim p) false)) es
    else
      let compact ← (do if unchecked then return false else coin 1 4)
      let mut es := []
      for _ in [0:n] do
        let withFields ← coin 1 2
        let fields ← (do if withFields then
                           let nf ← below 3
                           let fs ← genFields cur nf compact
                           pure (some fs)
                         else pure none)
        es := es ++ [{ doc := ← genDoc, attrs := ← genAttrs, name := ← genName "X", fields := fields, value := none : Enumerator }]
      modify fun s => { s with known := s.known ++ [⟨cur, name, "enum", fileIdx⟩] }
      return .enum doc attrs compact unchecked name none es
  else if c == 8 then
    let name ← genName "C"
    modify fun s => { s with known := s.known ++ [⟨cur, name, "custom", fileIdx⟩] }
    return .custom doc attrs name
  else
    let td := (← get).cfg.typeDepth
    let ty ← genTRef cur (if anonAlias then max 1 td else td) false anonAlias
    let name ← genName "T"
    modify fun s => { s with known := s.known ++ [⟨cur, name, "alias", fileIdx⟩] }
    return .alias doc attrs name ty

def genFile (fileIdx : Nat) : G SFile := do
  let modPath ← pickG ["M", "M", "A", "A::B", "A::B::C", "N::M"]
  let fileAttrs ← (do if (← get).cfg.foreignAttrs && (← coin 1 4) then return [← genForeignAttr] else return [])
  let modAttrs ← (do if (← get).cfg.foreignAttrs && (← coin 1 6) then return [← genForeignAttr] else return [])
  let n ← below ((← get).cfg.maxDefs + 1)
  let mut defs := []
  for _ in [0:n] do defs := defs ++ [← genDef fileIdx modPath]
  return { fileAttrs := fileAttrs, module := some ⟨modAttrs, modPath⟩, defs := defs }

/-- files whose definitions are generated in one interleaved sequence: a later definition of file 0 may refer to an
    earlier one of file 1 and vice versa (references between files in both directions) -/
def genInterleaved : G Program := do
  let cfg := (← get).cfg
  let nf := (← below cfg.maxFiles) + 1
  let mut files : Array SFile := #[]
  for _ in [0:nf] do
    let modPath ← pickG ["M", "M", "A", "A::B", "A::B::C", "N::M"]
    let fileAttrs ← (do if cfg.foreignAttrs && (← coin 1 4) then return [← genForeignAttr] else return [])
    let modAttrs ← (do if cfg.foreignAttrs && (← coin 1 6) then return [← genForeignAttr] else return [])
    files := files.push { fileAttrs := fileAttrs, module := some ⟨modAttrs, modPath⟩, defs := [] }
  let total ← below (cfg.maxDefs * nf + 1)
  for _ in [0:total] do
    let i ← below nf
    let f := files[i]!
    let d ← genDef i (match f.module with | some m => m.path | none => "")
    files := files.set! i { f with defs := f.defs ++ [d] }
  return files.toList

def genProgram (cfg : GenCfg) (r : Rng) : Program × Rng :=
  let act : G Program := do
    if cfg.interleave then return (← genInterleaved)
    let nf ← below cfg.maxFiles
    let mut fs := []
    for i in [0:nf + 1] do fs := fs ++ [← genFile i]
    return fs
  let (p, st) := act.run { rng := r, cfg := cfg }
  (p, st.rng)

/-- `compile` case line for a program, a layout style and a projection -/
def compileCase (fam proj : String) (opts : String) (texts : List String) (expected : String) : String :=
  tab ["compile", fam, proj, opts, "|".intercalate (texts.map hexOfString), expected]

end Slicec.Drv
