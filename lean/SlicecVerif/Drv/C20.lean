/- Cases for C20 (visitor traversal, projections `c20:events` / `c20:walk` of the `compile` engine). -/
import SlicecVerif.Drv.Prog
import SlicecVerif.Model.Visit

namespace Slicec.Drv

open Slicec Slicec.Visit

/-- definitions with references that cannot be resolved, appended to the last file: the references stay unpatched
    and must be presented but not descended; `Tb0` is a patched `Sequence` with an unpatched element -/
def unpatchedDefs (n : Nat) : List Def :=
  let nm (s : String) := s ++ "Zz" ++ toString n
  let r (ty : TyExpr) (opt : Bool := false) : TRef := .mk [] ty opt
  [ .alias [] [] (nm "Tb0") (r (.seq (r (.named (nm "Missing0"))))),
    .alias [] [] (nm "Tb1") (r (.named (nm "Tb0"))),
    .alias [] [] (nm "Tb2") (r (.named (nm "Missing1"))),
    .alias [] [] (nm "Tb3") (r (.dict (r (.prim .int32)) (r (.named (nm "Tb2"))))),
    .struct [] [] false (nm "Sb")
      [ ⟨[], [], none, nm "a", r (.named (nm "Tb0"))⟩, ⟨[], [], none, nm "b", r (.named (nm "Tb1")) true⟩,
        ⟨[], [], none, nm "c", r (.named (nm "Tb2"))⟩, ⟨[], [], none, nm "d", r (.named (nm "Tb3"))⟩,
        ⟨[], [], none, nm "e", r (.result (r (.named (nm "Tb1"))) (r (.named (nm "Missing2"))))⟩,
        ⟨[], [], none, nm "g", r (.named (nm "Missing3"))⟩ ],
    .iface [] [] (nm "Ib") []
      [ { doc := [], attrs := [], idempotent := false, name := nm "op",
          params := [⟨[], none, nm "p", false, r (.named (nm "Tb2"))⟩, ⟨[], none, nm "q", false, r (.seq (r (.named (nm "Tb3"))))⟩],
          ret := .single none false (r (.seq (r (.named (nm "Tb1"))))) } ],
    .enum [] [] false false (nm "Eb") none
      [ { doc := [], attrs := [], name := nm "X", fields := some [⟨[], [], none, nm "h", r (.named (nm "Tb0"))⟩, ⟨[], [], none, nm "i", r (.named (nm "Tb2"))⟩], value := none } ] ]

def walkDump (p : Program) : String :=
  let t := buildTable p
  "|".intercalate (p.zipIdx.map fun (f, i) => eventsStr (visit t i f)) ++ " oracle=ok"

/-- explicit discriminants on the enumerators of enums without an underlying type (an enumerator may have fields AND a value) -/
def withDiscriminants (p : Program) : Program :=
  p.map fun f => { f with defs := f.defs.map fun d =>
    match d with
    | .enum doc a c u n none es =>
      Def.enum doc a c u n none (es.zipIdx.map fun (e, i) => { e with value := if i % 3 == 1 then none else some ⟨false, 10, 3 + 5 * i, false⟩ })
    | d => d }

/-- alias chains that run through several modules with RELATIVE names, next to decoy modules in which the same relative name means
    another type: `P::A0 { typealias T = A1::T; struct U { x: T, y: Sequence<T> } }`, `P::A1 { typealias T = A2::T }`, …, the last one an
    anonymous type; decoys `P::A<i>::A<k>` (`typealias T = Dictionary<int32, string>`) for every k the alias of `A<i>` does not name -/
def aliasModulePrograms : List Program :=
  let r (ty : TyExpr) (opt : Bool := false) : TRef := .mk [] ty opt
  let fileIn := fun (m : String) (defs : List Def) => ({ fileAttrs := [], module := some ⟨[], m⟩, defs := defs } : SFile)
  [2, 3, 4].flatMap fun n =>
    let main := (List.range n).map fun i =>
      let target : TRef := if i + 1 < n then r (.named ("A" ++ toString (i + 1) ++ "::T")) else r (.seq (r (.result (r (.prim .bool)) (r (.prim .string)))))
      fileIn ("P::A" ++ toString i)
        ([Def.alias [] [] "T" target] ++
         (if i == 0 then [Def.struct [] [] false "U" [⟨[], [], none, "x", r (.named "T")⟩, ⟨[], [], none, "y", r (.seq (r (.named "T") true))⟩],
                          Def.iface [] [] "I" [] [{ doc := [], attrs := [], idempotent := false, name := "op", params := [⟨[], none, "p", false, r (.named "T")⟩],
                                                    ret := .single none false (r (.dict (r (.prim .int32)) (r (.named "T")))) }]] else []))
    let decoys := (List.range n).flatMap fun i => (List.range n).filterMap fun k =>
      if k == i || k == i + 1 then none
      else some (fileIn ("P::A" ++ toString i ++ "::A" ++ toString k) [Def.alias [] [] "T" (r (.dict (r (.prim .int32)) (r (.prim .string))))])
    [main ++ decoys, decoys ++ main.reverse]

def genC20 (tier : Tier) (seed : Nat) (o : Out) : IO Unit := do
  for p in aliasModulePrograms do
    o.line (compileCase "alias-modules" "c20:events" "-" (p.map printFile) (visitDump p))
  let nProg := if tier == .thorough then 20000 else 1500
  let mut r := Rng.mk' (seed + 20)
  for i in [0:nProg] do
    let cfg : GenCfg := { maxFiles := 1 + i % 3, maxDefs := 1 + i % 5, typeDepth := i % 4,
                          aliasBias := [0, 3, 5, 7].getD ((i / 4) % 4) 0, anonAliasBias := [0, 2, 4].getD ((i / 16) % 3) 0,
                          interleave := (i / 2) % 2 == 1 }
    let (p0, r') := genProgram cfg r
    r := r'
    let p := if i % 3 == 2 then withDiscriminants p0 else p0
    let t := buildTable p
    -- the model's own fuel check: walking with twice the fuel must present the same events
    for (f, j) in p.zipIdx do
      let a := flat [] (fileF (ctxOf t j f) f)
      let b := flat [] (fileF { ctxOf t j f with fuel := 2 * visitFuel t + 8 } f)
      if a != b then
        o.line (tab ["K", "C20", "fuel", "|".intercalate (p.map fun f => hexOfString (printFile f)), s!"the alias descent of file {j} ran out of fuel"])
      -- the rendering of structured paths is injective on this walk (the theorems speak about structured paths)
      let ps := (visit t j f).map (·.path)
      if ps.eraseDups.length != ps.length then
        o.line (tab ["K", "C20", "render", "|".intercalate (p.map fun f => hexOfString (printFile f)), s!"two callbacks of file {j} render to the same path"])
    let fam := if p.length > 1 then (if cfg.interleave then "multi-mutual" else "multi") else "single"
    o.line (compileCase fam "c20:events" "-" (p.map printFile) (visitDump p))
    if i % 8 == 0 then
      let texts := p.map fun f => (render 1 (seed * 1000 + i) (fileItems f)).1
      o.line (compileCase "layout" "c20:events" "-" texts (visitDump p))
    if i % 10 == 3 then
      -- unresolvable references
      let q : Program := match p.reverse with
        | [] => [{ fileAttrs := [], module := some ⟨[], "M"⟩, defs := unpatchedDefs i }]
        | l :: rest => (({ l with defs := l.defs ++ unpatchedDefs i } : SFile) :: rest).reverse
      o.line (compileCase "unpatched" "c20:walk" "-" (q.map printFile) (walkDump q))

end Slicec.Drv
