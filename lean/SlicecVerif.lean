import SlicecVerif.Props.C02
import SlicecVerif.Props.C09
import SlicecVerif.Props.C10
import SlicecVerif.Props.C11
import SlicecVerif.Props.C12
import SlicecVerif.Props.C17
