import SlicecVerif.Model.Basic
import SlicecVerif.Model.Codec
