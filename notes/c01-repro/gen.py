import sys
kind, n = sys.argv[1], int(sys.argv[2])
out = sys.argv[3]
if kind == "seq":      # nested Sequence<...>
    s = "module M\nstruct S { a: " + "Sequence<"*n + "int32" + ">"*n + " }\n"
elif kind == "seqalias":
    s = "module M\ntypealias T = " + "Sequence<"*n + "int32" + ">"*n + "\n"
elif kind == "dict":
    s = "module M\nstruct S { a: " + "Dictionary<int32, "*n + "int32" + ">"*n + " }\n"
elif kind == "paren":  # preprocessor nested parens
    s = "#if " + "("*n + "A" + ")"*n + "\nmodule M\n#endif\n"
elif kind == "and":
    s = "#if " + " && ".join(["A"]*n) + "\nmodule M\n#endif\n"
elif kind == "or":
    s = "#if " + "||".join(["A"]*n) + "\nmodule M\n#endif\n"
elif kind == "not":
    s = "#if " + "!"*n + "A\nmodule M\n#endif\n"
elif kind == "ifnest":
    s = "#define A\n" + "#if A\n"*n + "module M\n" + "#endif\n"*n
elif kind == "ifnestfalse":
    s = "#if A\n"*n + "module M\n" + "#endif\n"*n
elif kind == "elif":
    s = "#if A\n" + "#elif A\n"*n + "#else\nmodule M\n#endif\n"
elif kind == "structchain":
    s = "module M\n" + "".join(f"struct S{i} {{ a: S{i+1} }}\n" for i in range(n)) + f"struct S{n} {{}}\n"
elif kind == "ifacechain":
    s = "module M\n" + "".join(f"interface I{i} : I{i+1} {{}}\n" for i in range(n)) + f"interface I{n} {{}}\n"
elif kind == "ifacedag":   # n layers of 2
    s = "module M\ninterface A0 {}\ninterface B0 {}\n" + "".join(f"interface A{i} : A{i-1}, B{i-1} {{}}\ninterface B{i} : A{i-1}, B{i-1} {{}}\n" for i in range(1,n))
elif kind == "aliaschain":
    s = "module M\n" + "".join(f"typealias T{i} = T{i+1}\n" for i in range(n)) + f"typealias T{n} = int32\nstruct S {{ a: T0 }}\n"
elif kind == "longid":
    s = "module M\nstruct " + "a"*n + " {}\n"
elif kind == "modnest":
    s = "module " + "::".join(["M"]*n) + "\nstruct S {}\n"
elif kind == "attrs":
    s = "module M\n" + "[foo]"*n + "struct S {}\n"
elif kind == "doclines":
    s = "module M\n" + "/// hello {@link S} world\n"*n + "struct S {}\n"
elif kind == "fields":
    s = "module M\nstruct S {\n" + "".join(f"  f{i}: int32\n" for i in range(n)) + "}\n"
elif kind == "tagged":
    s = "module M\nstruct S {\n" + "".join(f"  tag({i}) f{i}: int32?\n" for i in range(n)) + "}\n"
elif kind == "enumerators":
    s = "module M\nenum E : int32 {\n" + "".join(f"  e{i}\n" for i in range(n)) + "}\n"
elif kind == "blockcomment":
    s = "module M\n/*" + "/*"*n + "*/\nstruct S {}\n"
elif kind == "errors":
    s = "module M\nstruct S {\n" + "".join(f"  tag(-1) f{i}: int32\n" for i in range(n)) + "}\n"
elif kind == "structdag":  # known exponential cycle detector
    s = "module M\nstruct A0 {}\nstruct B0 {}\n" + "".join(f"struct A{i} {{ a: A{i-1}, b: B{i-1} }}\nstruct B{i} {{ a: A{i-1}, b: B{i-1} }}\n" for i in range(1,n))
elif kind == "compactkey":
    s = "module M\n" + "".join(f"compact struct S{i} {{ a: S{i+1} }}\n" for i in range(n)) + f"compact struct S{n} {{ a: int32 }}\nstruct D {{ d: Dictionary<S0, int32> }}\n"
open(out,"w").write(s)
print(kind, n, len(s), "bytes")
