"""Translator tables of property C04 (semantic validation): primitives (keyword, integrality, numeric bounds),
the error-code table and lint names, the built-in attributes (directive, repeatable, argument-count range,
accepted argument literals).

Registered from extract.py with
    import tables_c04; TABLES.update(tables_c04.tables(globals()))
(the helpers ExtractionError / read / fn_body / block_after are taken from extract.py's namespace so that this
file does not import it a second time).
"""
import os
import re


def tables(ns):
    ExtractionError, read, fn_body, block_after = ns["ExtractionError"], ns["read"], ns["fn_body"], ns["block_after"]
    fn_params, rustcanon = ns["fn_params"], ns["rustcanon"]

    def q(x):
        return '"' + x.replace("\\", "\\\\").replace('"', '\\"') + '"'

    def parse_from_body(src, table, rel, ty):
        """body of `fn parse_from(Unparsed { directive, args }: &Unparsed, …) -> Self { … }` of `impl <ty>` (the signature has braces;
        the return type may be spelled `Self` or `<ty>`)"""
        return fn_body(src, "parse_from", table, rel, ty)

    # ------------------------------------------------------------------------------------------
    # Primitives
    # ------------------------------------------------------------------------------------------
    INT_CONSTS = {}
    for bits in (8, 16, 32, 64):
        INT_CONSTS[f"i{bits}::MIN"] = -(1 << (bits - 1))
        INT_CONSTS[f"i{bits}::MAX"] = (1 << (bits - 1)) - 1
        INT_CONSTS[f"u{bits}::MIN"] = 0
        INT_CONSTS[f"u{bits}::MAX"] = (1 << bits) - 1

    def int_expr(table, rel, text, consts):
        """value of a constant integer expression: literals (`1_000`, `0x7f`, `1i128`), `<int type>::MIN` / `::MAX`, named constants
        (`consts`), `as <int type>` casts (the values written here fit every type they are cast to), parentheses, unary `-`, and the
        operators `<<`, `>>`, `+`, `-`, `*` with Rust's precedence (`*` over `+ -` over `<< >>`); also `<lit>.pow(n)` / `<ty>::pow(a, n)`.
        `-2_305_843_009_213_693_952`, `-(1 << 61)` and `-(2i128.pow(61))` are the same number"""
        toks = re.findall(r"\d\w*|[A-Za-z_]\w*(?:::\w+)*|<<|>>|[-+*(),.]", text)
        if "".join(toks) != re.sub(r"\s+", "", text):
            raise ExtractionError(table, rel, f"integer expression `{text.strip()}` not understood")
        pos = [0]

        def fail():
            raise ExtractionError(table, rel, f"integer expression `{text.strip()}` not understood")

        def peek():
            return toks[pos[0]] if pos[0] < len(toks) else None

        def take(tok=None):
            t = peek()
            if t is None or (tok is not None and t != tok):
                fail()
            pos[0] += 1
            return t

        def atom():
            t = take()
            if t == "(":
                v = shift()
                take(")")
            elif re.fullmatch(r"\d\w*", t):
                lit = re.sub(r"_?[iu](?:8|16|32|64|128|size)$", "", t).replace("_", "")
                try:
                    v = int(lit, 0) if re.match(r"0[xob]", lit) else int(lit)
                except ValueError:
                    fail()
            elif t in INT_CONSTS:
                v = INT_CONSTS[t]
            elif t in consts:
                v = consts[t]
            elif re.fullmatch(r"[iu](?:8|16|32|64|128|size)::pow", t):
                take("(")
                a = shift()
                take(",")
                b = shift()
                take(")")
                v = a ** b if 0 <= b <= 128 else fail()
            else:
                fail()
            while peek() in (".", "as"):               # postfix: `.pow(n)`, `as i128`
                if take() == ".":
                    take("pow")
                    take("(")
                    b = shift()
                    take(")")
                    v = v ** b if 0 <= b <= 128 else fail()
                elif not re.fullmatch(r"[iu](?:8|16|32|64|128|size)", take()):
                    fail()
            return v

        def unary():
            if peek() == "-":
                take()
                return -unary()
            return atom()

        def product():
            v = unary()
            while peek() == "*":
                take()
                v *= unary()
            return v

        def summ():
            v = product()
            while peek() in ("+", "-"):
                v = v + product() if take() == "+" else v - product()
            return v

        def shift():
            v = summ()
            while peek() in ("<<", ">>"):
                op, n = take(), summ()
                if not 0 <= n <= 128:
                    fail()
                v = v << n if op == "<<" else v >> n
            return v

        v = shift()
        if pos[0] != len(toks):
            fail()
        return v

    def gen_primitives(repo):
        T = "Primitives"
        rel = "slicec/src/grammar/elements/primitive.rs"
        src = read(repo, rel, T)
        m = re.search(r"pub\s+enum\s+Primitive\b", src)
        if not m:
            raise ExtractionError(T, rel, "enum Primitive not found")
        variants = [v.strip() for v in block_after(src, m.end()).split(",") if v.strip()]
        if not variants or not all(re.fullmatch(r"\w+", v) for v in variants):
            raise ExtractionError(T, rel, "enum Primitive has an unexpected shape")
        # is_integral: matches!(self, Self::A | Self::B ...)
        body = fn_body(src, "is_integral", T, rel, r"Primitive")
        mm = re.search(r"matches!\s*\(\s*self\s*,", body)
        if not mm:
            raise ExtractionError(T, rel, "is_integral is not a `matches!(self, …)`")
        inner = body[mm.end():]
        inner = inner[:inner.rfind(")")]
        integral = [x.strip() for x in inner.split("|") if x.strip()]
        if not all(re.fullmatch(r"Self::\w+", x) for x in integral):
            raise ExtractionError(T, rel, "is_integral: unexpected pattern " + inner.strip()[:60])
        integral = [x[6:] for x in integral]
        # numeric_bounds
        body = fn_body(src, "numeric_bounds", T, rel, r"Primitive")
        consts = {}
        # named bounds: `const X: i128 = ..;` in the function or anywhere else in the file (module level, an impl's associated const)
        for cm in list(re.finditer(r"const\s+(\w+)\s*:\s*i128\s*=\s*([^;]+);", src.replace(body, ""))) + \
                list(re.finditer(r"const\s+(\w+)\s*:\s*i128\s*=\s*([^;]+);", body)):
            consts[cm.group(1)] = int_expr(T, rel, cm.group(2), consts)
            consts["Self::" + cm.group(1)] = consts[cm.group(1)]
        mm = re.search(r"match\s+self\s*", body)
        if not mm:
            raise ExtractionError(T, rel, "numeric_bounds: `match self` not found")
        arms_src = block_after(body, mm.end())
        bounds = {}
        n_arms = len(re.findall(r"=>", arms_src))
        # an arm is `Self::A => Some((lo, hi))` or an or-pattern `Self::A | Self::B => ..` for variants with the same bounds
        n_understood = 0
        for am in re.finditer(r"((?:\|?\s*Self::\w+\s*)+)=>\s*Some\(\(\s*([^,()]+?)\s*,\s*([^,()]+?)\s*,?\s*\)\)", arms_src):
            n_understood += 1
            for v in re.findall(r"Self::(\w+)", am.group(1)):
                if v in bounds:
                    raise ExtractionError(T, rel, f"numeric_bounds: two arms for {v}")
                bounds[v] = (int_expr(T, rel, am.group(2), consts), int_expr(T, rel, am.group(3), consts))
        if not re.search(r"_\s*=>\s*None", arms_src):
            raise ExtractionError(T, rel, "numeric_bounds: `_ => None` arm not found")
        if n_arms != n_understood + 1:
            raise ExtractionError(T, rel, f"numeric_bounds: {n_arms} arms in source, {n_understood + 1} understood")
        # keyword: fn kind { Self::X => "kw" }
        body = fn_body(src, "kind", T, rel, r"Element\s+for\s+Primitive")
        kws = dict(re.findall(r"Self::(\w+)\s*=>\s*\"(\w+)\"", body))
        for v in variants:
            if v not in kws:
                raise ExtractionError(T, rel, f"no keyword for primitive {v}")
        for v in list(bounds) + integral:
            if v not in variants:
                raise ExtractionError(T, rel, f"unknown primitive {v}")
        rows = []
        for v in variants:
            b = bounds.get(v)
            bs = "none" if b is None else f"some (({b[0]} : Int), ({b[1]} : Int))"
            rows.append(f"  ⟨{q(v)}, {q(kws[v])}, {'true' if v in integral else 'false'}, {bs}⟩")
        # the two other uses of i32::MAX: tag range (grammar.rs) and enumerators without underlying type (enums.rs)
        rel2 = "slicec/src/parsers/slice/grammar.rs"
        g = read(repo, rel2, T)
        body = fn_body(g, "parse_tag_value", T, rel2)
        # the range test on the integer's value, whatever the parameter is called: `RangeInclusive::new(lo, hi).contains(&<i>.value)`,
        # `(lo..=hi).contains(&<i>.value)` or the two comparisons `<i>.value >= lo && <i>.value <= hi`; the bounds are constant integer
        # expressions that may use `const NAME: i128 = ..;` items of the file
        gconsts = {}
        for cm in re.finditer(r"\bconst\s+(\w+)\s*:\s*i128\s*=\s*([^;]+);", g):
            gconsts[cm.group(1)] = int_expr(T, rel2, cm.group(2), gconsts)
        iv = r"[a-z_]\w*\.value"
        tm = re.search(r"RangeInclusive::new\(\s*([^,]+),\s*([^)]+)\)\s*\.contains\(&" + iv + r"\)", body) \
            or re.search(r"\(\s*([^().]+?)\s*\.\.=\s*([^()]+?)\s*\)\s*\.contains\(&" + iv + r"\)", body) \
            or re.search(iv + r"\s*>=\s*([^&|;]+?)\s*&&\s*" + iv + r"\s*<=\s*([^&|;{]+?)\s*[;{]", body)
        if not tm:
            raise ExtractionError(T, rel2, "parse_tag_value: RangeInclusive::new(lo, hi).contains(&i.value) not found")
        if len(set(re.findall(r"\b([a-z_]\w*)\.value\b", tm.group(0)))) != 1:
            raise ExtractionError(T, rel2, "parse_tag_value: the range test is not about one integer's value")
        tag_lo, tag_hi = int_expr(T, rel2, tm.group(1), gconsts), int_expr(T, rel2, tm.group(2), gconsts)
        rel3 = "slicec/src/validators/enums.rs"
        e = read(repo, rel3, T)
        body = fn_body(e, "backing_type_bounds", T, rel3)
        consts3 = {}
        for cm in re.finditer(r"const\s+(\w+)\s*:\s*i128\s*=\s*([^;]+);", body):
            consts3[cm.group(1)] = int_expr(T, rel3, cm.group(2), consts3)
        nm = re.search(r"None\s*=>\s*\{[^}]*check_bounds\(\s*enum_def\s*,\s*\(\s*([^,]+),\s*([^)]+)\)", body, re.S)
        if not nm:
            raise ExtractionError(T, rel3, "backing_type_bounds: bounds of enums without underlying type not found")
        en_lo, en_hi = int_expr(T, rel3, nm.group(1), consts3), int_expr(T, rel3, nm.group(2), consts3)
        if not re.search(r"enumerator\.value\(\)\s*<\s*min\s*\|\|\s*enumerator\.value\(\)\s*>\s*max", body):
            raise ExtractionError(T, rel3, "backing_type_bounds: the filter is not `value < min || value > max`")
        text = f"""-- GENERATED by translator/tables_c04.py from {rel}, {rel2}, {rel3} — do not edit.
namespace Slicec.Gen

/-- one primitive type: Rust variant, Slice keyword, `is_integral`, `numeric_bounds` (inclusive) -/
structure PrimRow where
  variant : String
  keyword : String
  integral : Bool
  bounds : Option (Int × Int)
  deriving Repr, DecidableEq

def primitives : List PrimRow := [
{(',' + chr(10)).join(rows)}]

/-- `parse_tag_value`: accepted tag values (inclusive) -/
def tagBounds : Int × Int := (({tag_lo} : Int), ({tag_hi} : Int))
/-- `backing_type_bounds`: accepted enumerator values of an enum without underlying type (inclusive) -/
def plainEnumBounds : Int × Int := (({en_lo} : Int), ({en_hi} : Int))

end Slicec.Gen
"""
        return text, len(rows) + 2

    # ------------------------------------------------------------------------------------------
    # Error codes and lint names
    # ------------------------------------------------------------------------------------------
    def top_level_groups(s):
        """texts of the parenthesised groups at nesting depth 0 of s (strings respected)"""
        out, depth, start, in_str, i = [], 0, None, False, 0
        while i < len(s):
            ch = s[i]
            if in_str:
                if ch == "\\":
                    i += 1
                elif ch == '"':
                    in_str = False
            elif ch == '"':
                in_str = True
            elif ch in "([{":
                if depth == 0 and ch == "(":
                    start = i
                depth += 1
            elif ch in ")]}":
                depth -= 1
                if depth == 0 and start is not None and ch == ")":
                    out.append(s[start + 1:i])
                    start = None
            i += 1
        return out

    def gen_error_codes(repo):
        T = "ErrorCodes"
        rel = "slicec/src/diagnostics/errors.rs"
        src = read(repo, rel, T)
        m = re.search(r"implement_diagnostic_functions!\s*", src)
        if not m:
            raise ExtractionError(T, rel, "implement_diagnostic_functions! not found")
        blk = block_after(src, m.end(), "(", ")")
        if blk is None or not re.match(r"\s*Error\s*,", blk):
            raise ExtractionError(T, rel, "implement_diagnostic_functions!(Error, …) has an unexpected shape")
        rows = []
        for g in top_level_groups(blk):
            gm = re.match(r"\s*\"(E\d+)\"\s*,\s*(\w+)\s*,", g)
            if not gm:
                raise ExtractionError(T, rel, "row not understood: " + g.strip()[:50])
            rows.append((gm.group(1), gm.group(2)))
        em = re.search(r"pub\s+enum\s+Error\b", src)
        if not em:
            raise ExtractionError(T, rel, "enum Error not found")
        variants = re.findall(r"^\s*(\w+)\s*(?:\{[^}]*\}\s*)?,", re.sub(r"#\[[^\]]*\]", "", re.sub(r"\{[^{}]*\}", "{}", block_after(src, em.end()))), re.M)
        if sorted(variants) != sorted(k for _, k in rows):
            raise ExtractionError(T, rel, f"{len(variants)} variants of enum Error but {len(rows)} code rows")
        if len({c for c, _ in rows}) != len(rows):
            raise ExtractionError(T, rel, "error codes are not unique")
        rel2 = "slicec/src/diagnostics/lints.rs"
        lsrc = read(repo, rel2, T)
        m = re.search(r"implement_diagnostic_functions!\s*", lsrc)
        blk = block_after(lsrc, m.end(), "(", ")") if m else None
        if blk is None or not re.match(r"\s*Lint\s*,", blk):
            raise ExtractionError(T, rel2, "implement_diagnostic_functions!(Lint, …) not found")
        lints = []
        for g in top_level_groups(blk):
            gm = re.match(r"\s*(\w+)\s*,", g)
            if not gm:
                raise ExtractionError(T, rel2, "row not understood: " + g.strip()[:50])
            lints.append(gm.group(1))
        rel3 = "slicec/src/diagnostics/mod.rs"
        msrc = read(repo, rel3, T)
        am = re.search(r"ALLOWABLE_LINT_IDENTIFIERS\s*:\s*\[[^\]]*\]\s*=\s*\[\s*((?:\"\w+\"\s*,\s*)*)\$\(stringify!\(\$kind\)\),\*\s*\]", msrc)
        if not am:
            raise ExtractionError(T, rel3, "ALLOWABLE_LINT_IDENTIFIERS has an unexpected shape")
        extra = re.findall(r"\"(\w+)\"", am.group(1))
        # the exclusion in Allow::parse_from
        rel4 = "slicec/src/grammar/attributes/allow.rs"
        asrc = read(repo, rel4, T)
        # canonical form (rustcanon.py): the loop variable and the validity flag are `$n`, whatever the function calls them
        body = rustcanon.canon(parse_from_body(asrc, T, rel4, r"Allow"), fn_params(asrc, "parse_from", T, rel4, r"Allow"))
        if "Lint::ALLOWABLE_LINT_IDENTIFIERS.contains(" not in body:
            raise ExtractionError(T, rel4, "Allow::parse_from does not test ALLOWABLE_LINT_IDENTIFIERS.contains")
        _arg, excluded = ns["allow_argument_validity"](body, T, rel4)
        text = f"""-- GENERATED by translator/tables_c04.py from {rel}, {rel2}, {rel3}, {rel4} — do not edit.
namespace Slicec.Gen

/-- (code, kind) rows of `implement_diagnostic_functions!(Error, …)` -/
def errorCodes : List (String × String) := [
{(',' + chr(10)).join(f"  ({q(c)}, {q(k)})" for c, k in rows)}]

/-- lint kinds of `implement_diagnostic_functions!(Lint, …)`; a lint's code is its name -/
def lintNames : List String := [{", ".join(q(x) for x in lints)}]

/-- `Lint::ALLOWABLE_LINT_IDENTIFIERS` -/
def allowableLintIds : List String := [{", ".join(q(x) for x in extra + lints)}]

/-- identifiers `Allow::parse_from` refuses although they are allowable -/
def allowExcluded : List String := [{", ".join(q(x) for x in excluded)}]

end Slicec.Gen
"""
        return text, len(rows) + len(lints) + len(extra) + len(excluded)

    # ------------------------------------------------------------------------------------------
    # Attributes
    # ------------------------------------------------------------------------------------------
    def gen_attributes(repo):
        T = "Attributes"
        base = "slicec/src/grammar/attributes"
        d = os.path.join(repo, base)
        if not os.path.isdir(d):
            raise ExtractionError(T, base, "directory missing")
        relp = "slicec/src/patchers/mod.rs"
        psrc = read(repo, relp, T)
        pm = re.search(r"patch_attributes!\(\s*\"([^\"]*)\"\s*,\s*([\w\s,]+)\)", psrc)
        if not pm:
            raise ExtractionError(T, relp, "patch_attributes!(prefix, kinds…) invocation not found")
        prefix = pm.group(1)
        patched = [x.strip() for x in pm.group(2).split(",") if x.strip()]
        if not re.search(r"directive\.split_once\(\"::\"\)\.map_or\(\"\",\s*\|\((\w+),\s*_\)\|\s*\1\)", psrc) or \
           not re.search(r"if\s+\$prefix\s*==\s*directive_prefix", psrc):
            raise ExtractionError(T, relp, "unknown-directive test has an unexpected shape")
        rows = {}
        for fn in sorted(os.listdir(d)):
            if not fn.endswith(".rs") or fn == "mod.rs":
                continue
            rel = base + "/" + fn
            src = read(repo, rel, T)
            km = re.search(r"implement_attribute_kind_for!\(\s*(\w+)\s*,\s*\"([^\"]+)\"\s*,\s*(true|false)\s*\)", src)
            if not km:
                raise ExtractionError(T, rel, "implement_attribute_kind_for! not found")
            ty, directive, rep = km.groups()
            body = parse_from_body(src, T, rel, ty)
            cm = re.search(r"check_argument_count_is_within\(\s*(\d+)\s*\.\.\s*(\d+|usize::MAX)\s*,", body)
            if not cm:
                raise ExtractionError(T, rel, "check_argument_count_is_within(a..b, …) not found in parse_from")
            lo = int(cm.group(1))
            hi = None if cm.group(2) == "usize::MAX" else int(cm.group(2))
            # the literals an argument is compared with: `"X" =>` arms of a match, or `<arg> == "X"` tests of an if / else-if chain
            lits = re.findall(r"\"(\w+)\"\s*=>", body)
            if ty != "Allow":
                lits += [x for x in re.findall(r"\b\w+(?:\.as_str\(\))?\s*==\s*\"(\w+)\"", body) if x not in lits]
            has_arg_error = "InvalidAttributeArgument" in body
            if has_arg_error and not lits and ty != "Allow":
                raise ExtractionError(T, rel, "argument validation not understood")
            rows[ty] = (directive, rep, lo, hi, lits, has_arg_error and ty == "Allow")
        if sorted(rows) != sorted(patched):
            raise ExtractionError(T, relp, f"patched kinds {patched} differ from the attribute files {sorted(rows)}")
        out = []
        for ty in patched:
            directive, rep, lo, hi, lits, lint_args = rows[ty]
            out.append(f"  ⟨{q(directive)}, {rep}, {lo}, {'none' if hi is None else 'some ' + str(hi)}, [{', '.join(q(x) for x in lits)}], {'true' if lint_args else 'false'}⟩")
        text = f"""-- GENERATED by translator/tables_c04.py from {base}/*.rs and {relp} — do not edit.
namespace Slicec.Gen

/-- a built-in attribute: directive, `is_repeatable`, accepted argument counts `minArgs ≤ n < maxArgs`
    (`none` = `usize::MAX`), the literals its `parse_from` accepts (`"X" =>` arms; empty = arguments not inspected),
    `lintArgs` = arguments are checked against the allowable lint identifiers -/
structure AttrRow where
  directive : String
  repeatable : Bool
  minArgs : Nat
  maxArgs : Option Nat
  argLiterals : List String
  lintArgs : Bool
  deriving Repr, DecidableEq

def attributes : List AttrRow := [
{(',' + chr(10)).join(out)}]

/-- prefix given to `patch_attributes!`: an unparsed directive whose prefix (text before the first `::`, or empty) equals it is unknown -/
def attributePrefix : String := {q(prefix)}

end Slicec.Gen
"""
        return text, len(out) + 1

    return {"Primitives": gen_primitives, "ErrorCodes": gen_error_codes, "Attributes": gen_attributes}
